import OptunaVerif.Lemmas.Wilcoxon
/-!
# C16 / C13 — `WilcoxonPruner.prune`

Theorems about `Model/Wilcoxon.lean` (the decision structure of `prune` exactly as coded) for **all**
intermediate-value dicts (any lengths, NaN / ±inf anywhere, steps in any order), both directions, every
configuration and **every** p-value function `pv` (scipy is not modelled; the one hypothesis ever made
about it is `hpv` of `wilcoxon_direction_mirror`).

* `wilcoxon_no_prune_before_startup_steps` — fewer than `max(2, n_startup_steps)` steps in common with
  the best trial ⇒ not pruned; corollaries in terms of the number of reports of the current trial.
* `wilcoxon_no_prune_without_best_trial` — `study.best_trial` raised ⇒ not pruned (and: no COMPLETE
  trial ⇒ not pruned).
* `wilcoxon_best_trial_itself_never_pruned` — the best trial compared with itself is never pruned,
  whatever p-value scipy returns for the all-zero differences (`average_is_best` holds with equality).
* `wilcoxon_never_prunes_nonfinite` — inf / NaN on either side ⇒ not pruned (docstring note).
* `wilcoxon_direction_mirror` — C13: maximize on `v` ≡ minimize on `-v`, the full result (decision,
  warnings, exit) included.
* `wilcoxon_decision_iff` — exact characterisation of `prune = True`.

`nCommon cur best` (Lemmas/Wilcoxon.lean) is the number of steps of the current trial that the best trial
also has; `diffValues_length : len(diff_values) = nCommon` whatever the report order.
-/
set_option linter.unusedSimpArgs false
set_option linter.unusedVariables false
namespace OptunaVerif.C16Wilcoxon
open OptunaVerif OptunaVerif.Direction OptunaVerif.Wilcoxon

/-! ## start-up steps -/

/-- **No pruning before the start-up steps.**  If the current trial has fewer than
`max(2, n_startup_steps)` steps in common with the best trial, `prune` returns False — for every
p-value function, direction, threshold, and whatever else the two dicts contain. -/
theorem wilcoxon_no_prune_before_startup_steps (pv : Alt → List Rat → V) (c : Cfg) (d : Dir)
    (best : Option IV) (cur : IV)
    (h : ∀ b, best = some b → nCommon (finPart cur) (finPart b) < max 2 c.nStartup) :
    (prune pv c d best cur).prune = false := by
  unfold prune
  split
  · rfl
  split
  · rfl
  cases best with
  | none => rfl
  | some b =>
    simp only
    split
    · rfl
    split
    · rfl
    have hb := h b rfl
    rw [← diffValues_length] at hb
    simp only [minSteps, hb, if_true]

example : (prune (fun _ _ => some 0) ⟨1, 3⟩ .minimize (some [(0, .fin 0), (1, .fin 0), (2, .fin 0)])
    [(0, .fin 5), (1, .fin 5), (7, .fin 5)]).prune = false ∧
    (prune (fun _ _ => some 0) ⟨1, 3⟩ .minimize (some [(0, .fin 0), (1, .fin 0), (2, .fin 0)])
    [(0, .fin 5), (1, .fin 5), (2, .fin 5)]).prune = true := by decide +kernel

/-- in terms of what the user sees: a trial with fewer than `n_startup_steps` reports is never pruned -/
theorem wilcoxon_no_prune_fewer_reports_than_startup (pv : Alt → List Rat → V) (c : Cfg) (d : Dir)
    (best : Option IV) (cur : IV) (h : cur.length < c.nStartup) :
    (prune pv c d best cur).prune = false := by
  apply wilcoxon_no_prune_before_startup_steps
  intro b _
  have := Nat.le_trans (nCommon_le (finPart cur) (finPart b)) (finPart_length_le cur)
  omega

/-- "the trial is not pruned at the first and second steps even if `n_startup_steps` is 0 or 1" -/
theorem wilcoxon_no_prune_first_two_steps (pv : Alt → List Rat → V) (c : Cfg) (d : Dir)
    (best : Option IV) (cur : IV) (h : cur.length < 2) :
    (prune pv c d best cur).prune = false := by
  apply wilcoxon_no_prune_before_startup_steps
  intro b _
  have := Nat.le_trans (nCommon_le (finPart cur) (finPart b)) (finPart_length_le cur)
  omega

example : (prune (fun _ _ => some 0) ⟨1, 0⟩ .minimize (some [(0, .fin 0), (1, .fin 0)]) [(0, .fin 5)]).prune = false ∧
    (prune (fun _ _ => some 0) ⟨1, 0⟩ .minimize (some [(0, .fin 0), (1, .fin 0)]) [(0, .fin 5), (1, .fin 6)]).prune = true := by
  decide +kernel

/-! ## no best trial -/

/-- **`study.best_trial` raised `ValueError` ⇒ no pruning** (and no warning beyond the finiteness one). -/
theorem wilcoxon_no_prune_without_best_trial (pv : Alt → List Rat → V) (c : Cfg) (d : Dir) (cur : IV) :
    (prune pv c d none cur).prune = false := by
  unfold prune
  split
  · rfl
  split <;> rfl

/-- a study without COMPLETE trials never prunes -/
theorem wilcoxon_no_prune_without_complete_trial (pv : Alt → List Rat → V) (c : Cfg) (d : Dir) (cur : IV) :
    (pruneInStudy pv c d [] cur).prune = false := by
  have : bestOf d [] = none := rfl
  unfold pruneInStudy
  rw [this]
  exact wilcoxon_no_prune_without_best_trial pv c d cur

example : (prune (fun _ _ => some 0) ⟨1, 0⟩ .minimize none [(0, .fin 5), (1, .fin 6)]).exit = .noBestTrial := by decide +kernel

/-! ## the best trial against itself -/

/-- **The best trial itself is never pruned**: comparing a trial with itself (all differences zero)
returns False whatever p-value scipy reports for the zero vector, because `average_is_best` holds
with equality and turns a small p into the "safety" exit. -/
theorem wilcoxon_best_trial_itself_never_pruned (pv : Alt → List Rat → V) (c : Cfg) (d : Dir) (cur : IV) :
    (prune pv c d (some cur) cur).prune = false := by
  unfold prune
  simp only [avgIsBest_self, Bool.and_true]
  split
  · rfl
  split
  · rfl
  split
  · rfl
  split
  · rfl
  · rename_i h
    simpa using h

/-- through the study: whenever the current trial is the one `study.best_trial` returns -/
theorem wilcoxon_best_trial_itself_never_pruned_in_study (pv : Alt → List Rat → V) (c : Cfg) (d : Dir)
    (done : List Done) (t : Done) (h : bestOf d done = some t) :
    (pruneInStudy pv c d done t.iv).prune = false := by
  unfold pruneInStudy
  rw [h]
  exact wilcoxon_best_trial_itself_never_pruned pv c d t.iv

/-- the p-value function of the example says "certainly worse" (p = 0) for everything: still no prune;
the same reports against a different best trial are pruned -/
example : (prune (fun _ _ => some 0) ⟨1/10, 2⟩ .maximize (some [(0, .fin 1), (1, .fin 2), (2, .fin 3)])
      [(0, .fin 1), (1, .fin 2), (2, .fin 3)]) = ⟨false, [], .safety⟩ ∧
    (prune (fun _ _ => some 0) ⟨1/10, 2⟩ .maximize (some [(0, .fin 2), (1, .fin 3), (2, .fin 4)])
      [(0, .fin 1), (1, .fin 2), (2, .fin 3)]) = ⟨true, [], .final⟩ := by decide +kernel

/-! ## exact characterisation -/

/-- **`prune` returns True iff** the current trial has reports, all finite; `study.best_trial` exists,
has reports, all finite; at least `max(2, n_startup_steps)` steps are common; the p-value of the
differences (current − best, ascending step order) under the direction's alternative is below the
threshold; and the best trial's average is strictly better than the current trial's average. -/
theorem wilcoxon_decision_iff (pv : Alt → List Rat → V) (c : Cfg) (d : Dir) (best : Option IV) (cur : IV) :
    (prune pv c d best cur).prune = true ↔
      cur ≠ [] ∧ allFinite cur = true ∧
      ∃ b, best = some b ∧ b ≠ [] ∧ allFinite b = true ∧
        max 2 c.nStartup ≤ nCommon (finPart cur) (finPart b) ∧
        pLt (pv (wilcoxonAlt d) (diffValues (finPart cur) (finPart b))) c.pThr = true ∧
        avgIsBest d ((finPart b).map (·.2)) ((finPart cur).map (·.2)) = false := by
  unfold prune
  by_cases h1 : cur.length = 0
  · have : cur = [] := List.eq_nil_of_length_eq_zero h1
    simp [this]
  have hne : cur ≠ [] := fun h => h1 (by simp [h])
  simp only [h1, if_false]
  by_cases h2 : allFinite cur = true
  swap
  · simp [h2]
  simp only [h2, Bool.not_true, Bool.false_eq_true, if_false]
  cases best with
  | none => simp
  | some b =>
    simp only [Option.some.injEq, exists_eq_left']
    by_cases h3 : b.length = 0
    · have : b = [] := List.eq_nil_of_length_eq_zero h3
      simp [this]
    have hbne : b ≠ [] := fun h => h3 (by simp [h])
    simp only [h3, if_false]
    by_cases h4 : allFinite b = true
    swap
    · simp [h4]
    simp only [h4, Bool.not_true, Bool.false_eq_true, if_false]
    rw [← diffValues_length]
    by_cases h5 : (diffValues (finPart cur) (finPart b)).length < minSteps c
    · have : ¬ max 2 c.nStartup ≤ (diffValues (finPart cur) (finPart b)).length := by
        unfold minSteps at h5; omega
      simp [h5, this]
    have h5' : max 2 c.nStartup ≤ (diffValues (finPart cur) (finPart b)).length := by
      unfold minSteps at h5; omega
    simp only [h5, if_false]
    cases hp : pLt (pv (wilcoxonAlt d) (diffValues (finPart cur) (finPart b))) c.pThr <;>
      cases ha : avgIsBest d ((finPart b).map (·.2)) ((finPart cur).map (·.2)) <;>
      simp [hne, h2, hbne, h4, h5']

/-- the "safety" of the code: a trial whose average is at least as good as the best trial's is not
pruned, whatever the test says -/
theorem wilcoxon_never_prunes_when_average_not_worse (pv : Alt → List Rat → V) (c : Cfg) (d : Dir) (b cur : IV)
    (h : avgIsBest d ((finPart b).map (·.2)) ((finPart cur).map (·.2)) = true) :
    (prune pv c d (some b) cur).prune = false := by
  cases hp : (prune pv c d (some b) cur).prune with
  | false => rfl
  | true =>
    rw [wilcoxon_decision_iff] at hp
    obtain ⟨_, _, b', hb, _, _, _, _, ha⟩ := hp
    cases hb
    rw [h] at ha
    exact absurd ha (by decide)

/-- "This pruner cannot handle infinity or nan values.  Trials containing those values are never
pruned." — on either side. -/
theorem wilcoxon_never_prunes_nonfinite (pv : Alt → List Rat → V) (c : Cfg) (d : Dir) (best : Option IV) (cur : IV)
    (h : allFinite cur = false ∨ ∃ b, best = some b ∧ allFinite b = false) :
    (prune pv c d best cur).prune = false := by
  cases hp : (prune pv c d best cur).prune with
  | false => rfl
  | true =>
    rw [wilcoxon_decision_iff] at hp
    obtain ⟨_, hc, b', hb, _, hbf, _⟩ := hp
    rcases h with h | ⟨b, hb', hbf'⟩
    · rw [hc] at h; exact absurd h (by decide)
    · rw [hb] at hb'; cases hb'; rw [hbf] at hbf'; exact absurd hbf' (by decide)

example : (prune (fun _ _ => some 0) ⟨1, 0⟩ .minimize (some [(0, .fin 0), (1, .fin 0)]) [(0, .fin 5), (1, .pinf)]) =
      ⟨false, [.curNotFinite], .curNotFinite⟩ ∧
    (prune (fun _ _ => some 0) ⟨1, 0⟩ .minimize (some [(0, .nan), (1, .fin 0)]) [(0, .fin 5), (1, .fin 6)]) =
      ⟨false, [.bestNotFinite], .bestNotFinite⟩ := by decide +kernel

/-! ## direction mirror (C13) -/

/-- **C13 at the whole `prune`.**  Under the one hypothesis that the p-value is invariant under negating
all differences together with switching the alternative (`less` ↔ `greater`; a symmetry of the
signed-rank test, sampled on scipy by the tie), `prune` under maximize on the values `v` returns
exactly what it returns under minimize on `-v` — decision, warnings and exit — for every best trial
(or none), NaN / inf anywhere, missing steps, any configuration. -/
theorem wilcoxon_direction_mirror (pv : Alt → List Rat → V)
    (hpv : ∀ l, pv .less l = pv .greater (negL l))
    (c : Cfg) (best : Option IV) (cur : IV) :
    prune pv c .maximize best cur = prune pv c .minimize (best.map Wilcoxon.negIV) (Wilcoxon.negIV cur) := by
  unfold prune
  have hlen : (Wilcoxon.negIV cur).length = cur.length := by simp [Wilcoxon.negIV]
  rw [hlen, allFinite_negIV]
  split
  · rfl
  split
  · rfl
  cases best with
  | none => rfl
  | some b =>
    have hlenb : (Wilcoxon.negIV b).length = b.length := by simp [Wilcoxon.negIV]
    simp only [Option.map_some, hlenb, allFinite_negIV, finPart_negIV, diffValues_negQ, negL_length,
      map_snd_negQ, ← avgIsBest_mirror, wilcoxonAlt, ← hpv]
    have : (negQ (finPart cur)).length = (finPart cur).length := by simp [negQ]
    rw [this]
    rfl

/-- non-vacuity: a p-value function satisfying `hpv` that is not constant (it looks at the sign of the
first difference), on which the two mirrored runs prune and a third does not -/
example :
    let pv : Alt → List Rat → V := fun a l => match a, l with
      | .greater, x :: _ => if 0 < x then some 0 else some 1
      | .less, x :: _ => if x < 0 then some 0 else some 1
      | _, [] => some 1
    prune pv ⟨1/10, 2⟩ .maximize (some [(0, .fin 5), (1, .fin 5)]) [(1, .fin 1), (0, .fin 2)] = ⟨true, [], .final⟩ ∧
    prune pv ⟨1/10, 2⟩ .minimize (some [(0, .fin (-5)), (1, .fin (-5))]) [(1, .fin (-1)), (0, .fin (-2))] = ⟨true, [], .final⟩ ∧
    prune pv ⟨1/10, 2⟩ .minimize (some [(0, .fin 5), (1, .fin 5)]) [(1, .fin 1), (0, .fin 2)] = ⟨false, [], .final⟩ := by
  decide +kernel

/-! ## the difference list -/

/-- `diff_values` is ordered by ascending step (what `np.intersect1d` returns), not by report order -/
example : diffValues [(3, 10), (1, 20), (2, 30)] [(2, 1), (3, 1), (0, 1)] = [29, 9] := by decide +kernel

/-- the missing-steps warning is issued exactly when some step of the current trial is absent from the
best trial (and both sides are finite and non-empty) -/
theorem wilcoxon_missing_steps_warning_iff (pv : Alt → List Rat → V) (c : Cfg) (d : Dir) (b cur : IV)
    (hc : cur ≠ []) (hcf : allFinite cur = true) (hb : b ≠ []) (hbf : allFinite b = true) :
    Warn.missingSteps ∈ (prune pv c d (some b) cur).warns ↔ nCommon (finPart cur) (finPart b) < cur.length := by
  have h1 : ¬ cur.length = 0 := fun h => hc (List.eq_nil_of_length_eq_zero h)
  have h3 : ¬ b.length = 0 := fun h => hb (List.eq_nil_of_length_eq_zero h)
  unfold prune
  simp only [h1, if_false, hcf, hbf, Bool.not_true, Bool.false_eq_true, h3]
  rw [diffValues_length, finPart_length_of_allFinite cur hcf]
  by_cases hlt : nCommon (finPart cur) (finPart b) < cur.length
  · simp only [hlt, if_true]
    split
    · simp
    · split <;> simp
  · simp only [hlt, if_false]
    split
    · simp
    · split <;> simp

example : (prune (fun _ _ => some 1) ⟨1/10, 2⟩ .minimize (some [(0, .fin 5), (1, .fin 5)]) [(1, .fin 1), (0, .fin 2), (9, .fin 0)]).warns
    = [.missingSteps] := by decide +kernel

end OptunaVerif.C16Wilcoxon
