import OptunaVerif.Props.C16Wilcoxon
import OptunaVerif.Generated.WilcoxonSkel
/-!
# C16 — the control skeleton of `WilcoxonPruner.prune` regenerated from the Python source is the hand model

`Generated/WilcoxonSkel.lean` is rewritten from `/repo/optuna/pruners/_wilcoxon.py` on every run
(`verif/translators/wilcoxon_skel.py`): every `if …: [warn] return …`, the `try/except ValueError`, the
warning-only `if`, the direction branch and the final `return`, in source order, over integer / boolean
atoms.  `gen_prune_skeleton` instantiates the atoms with what `Model/Wilcoxon.lean` computes and proves
the generated function equal to the model's `prune` — decision, warnings, and which `return` fired —
for **all** inputs.  A change of a guard, of their order, of a returned constant, of a warning, of
`max(2, n_startup_steps)` or of the direction handling breaks this proof (or the translation);
`gen_data_statements` pins the text of the remaining (data) statements.
-/
set_option linter.unusedSimpArgs false
set_option linter.unusedVariables false
namespace OptunaVerif.C16WilcoxonGen
open OptunaVerif OptunaVerif.Direction OptunaVerif.Wilcoxon OptunaVerif.C16Wilcoxon
open OptunaVerif.Generated

def warnTag : Warn → String
  | .curNotFinite => "curNotFinite" | .bestNoReports => "bestNoReports"
  | .bestNotFinite => "bestNotFinite" | .missingSteps => "missingSteps"

/-- position of the `return` statement in the source -/
def exitIdx : Exit → Nat
  | .noReports => 0 | .curNotFinite => 1 | .noBestTrial => 2 | .bestNoReports => 3
  | .bestNotFinite => 4 | .fewCommon => 5 | .safety => 6 | .final => 7

/-- the atoms of the skeleton, as the model computes them -/
def skelOfModel (pv : Alt → List Rat → V) (c : Cfg) (d : Dir) (best : Option IV) (cur : IV) : Bool × List String × Nat :=
  let b := best.getD []
  let cq := finPart cur
  let bq := finPart b
  let df := diffValues cq bq
  WilcoxonSkel.pruneSkel (cur.length : Int) (!allFinite cur) best.isNone (b.length : Int) (!allFinite b)
    (df.length : Int) (cur.length : Int) (df.length : Int) (c.nStartup : Int) (decide (d = .maximize))
    (decide (mean (bq.map (·.2)) ≤ mean (cq.map (·.2)))) (decide (mean (cq.map (·.2)) ≤ mean (bq.map (·.2))))
    (pLt (pv (wilcoxonAlt d) df) c.pThr)

theorem gen_prune_skeleton (pv : Alt → List Rat → V) (c : Cfg) (d : Dir) (best : Option IV) (cur : IV) :
    skelOfModel pv c d best cur =
      ((prune pv c d best cur).prune, (prune pv c d best cur).warns.map warnTag, exitIdx (prune pv c d best cur).exit) := by
  unfold skelOfModel WilcoxonSkel.pruneSkel prune
  by_cases h1 : cur.length = 0
  · simp [h1, exitIdx]
  have h1' : ¬ ((cur.length : Int) = 0) := by omega
  simp only [h1, h1', decide_false, decide_true, if_false, Bool.false_eq_true]
  by_cases h2 : allFinite cur = true
  swap
  · have : allFinite cur = false := by simpa using h2
    simp [this, exitIdx, warnTag]
  simp only [h2, Bool.not_true, Bool.false_eq_true, if_false]
  cases best with
  | none => simp [exitIdx]
  | some b =>
    simp only [Option.isNone_some, Bool.false_eq_true, if_false, Option.getD_some]
    by_cases h3 : b.length = 0
    · simp [h3, exitIdx, warnTag]
    have h3' : ¬ ((b.length : Int) = 0) := by omega
    simp only [h3, h3', decide_false, if_false, Bool.false_eq_true]
    by_cases h4 : allFinite b = true
    swap
    · have : allFinite b = false := by simpa using h4
      simp [this, exitIdx, warnTag]
    simp only [h4, Bool.not_true, Bool.false_eq_true, if_false]
    rw [finPart_length_of_allFinite cur h2]
    have ha : (if decide (d = Dir.maximize) = true then
          decide (mean ((finPart b).map (·.2)) ≤ mean ((finPart cur).map (·.2)))
        else decide (mean ((finPart cur).map (·.2)) ≤ mean ((finPart b).map (·.2)))) =
        avgIsBest d ((finPart b).map (·.2)) ((finPart cur).map (·.2)) := by
      cases d <;> simp [avgIsBest]
    rw [ha]
    have hw : (((diffValues (finPart cur) (finPart b)).length : Int) < (cur.length : Int)) ↔
        (diffValues (finPart cur) (finPart b)).length < cur.length := by omega
    have hm : (((diffValues (finPart cur) (finPart b)).length : Int) < max (2 : Int) (c.nStartup : Int)) ↔
        (diffValues (finPart cur) (finPart b)).length < minSteps c := by
      unfold minSteps; omega
    simp only [hw, hm]
    by_cases h5 : (diffValues (finPart cur) (finPart b)).length < minSteps c
    · by_cases h6 : (diffValues (finPart cur) (finPart b)).length < cur.length <;> simp [h5, h6, exitIdx, warnTag]
    by_cases h6 : (diffValues (finPart cur) (finPart b)).length < cur.length <;>
      cases hp : pLt (pv (wilcoxonAlt d) (diffValues (finPart cur) (finPart b))) c.pThr <;>
      cases hav : avgIsBest d ((finPart b).map (·.2)) ((finPart cur).map (·.2)) <;>
      simp [h5, h6, exitIdx, warnTag]

/-- `alt` of the source is the model's alternative -/
theorem gen_alt (d : Dir) :
    WilcoxonSkel.altSkel (decide (d = .maximize)) = (match wilcoxonAlt d with | .less => "less" | .greater => "greater") := by
  cases d <;> rfl

/-- the source has exactly the eight `return` statements the model's `Exit` enumerates -/
theorem gen_exit_count : WilcoxonSkel.nExits = 8 := rfl

/-- the data statements of `prune`, verbatim: array construction, `intersect1d(..., return_indices=True)`,
`step_values[idx1] - best_step_values[idx2]` (current minus best), `zero_method='zsplit'`, `alternative=alt` -/
theorem gen_data_statements : WilcoxonSkel.dataStatements = [
    "steps, step_values = np.array(list(trial.intermediate_values.items())).T",
    "try: best_trial = study.best_trial except ValueError: return False",
    "best_steps, best_step_values = np.array(list(best_trial.intermediate_values.items())).T",
    "_, idx1, idx2 = np.intersect1d(steps, best_steps, return_indices=True)",
    "diff_values = step_values[idx1] - best_step_values[idx2]",
    "p = ss.wilcoxon(diff_values, alternative=alt, zero_method='zsplit').pvalue"] := by decide

/-- non-vacuity: the skeleton evaluated on the atoms of a pruning run and of a run stopped by the safety -/
example : WilcoxonSkel.pruneSkel 3 false false 3 false 2 3 2 2 false false false true = (true, ["missingSteps"], 7) ∧
    WilcoxonSkel.pruneSkel 3 false false 3 false 3 3 3 2 true true false true = (false, [], 6) := by decide

end OptunaVerif.C16WilcoxonGen
