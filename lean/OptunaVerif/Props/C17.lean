import OptunaVerif.Lemmas.SearchSpaceHist
import OptunaVerif.Lemmas.SearchSpaceGroups
/-!
# C17 — incrementally inferred search spaces equal a from-scratch computation

Model: `Model/SearchSpace.lean` (`_calculate`, `IntersectionSearchSpace.calculate`,
`intersection_search_space`, `_SearchSpaceGroup.add_distributions`, `_GroupDecomposedSearchSpace.calculate`;
the integer expressions and state lists of `_calculate` are the constants `SearchSpace.SearchSpaceCode.*`, tied
to the source on every run by `Props/C17Gen.lean`).

Every history theorem quantifies over **all** finite lists of steps (`Step`: create a trial in any state
with any parameters / write a parameter of an unfinished trial / change the state of an unfinished trial
in any way / call either calculator / hand the calculator another study), with no bound on the length,
the number of trials or the order in which trials finish.  The two facts used about the storage
(numbers are dense in creation order, finished trials never change — `Props/C01.lean`) are built into
the step function.
-/
namespace OptunaVerif.C17
open OptunaVerif OptunaVerif.SearchSpace

/-- the state of (study, intersection calculator, group calculator) after a history -/
def run (sid : Nat) (ipI ipG : Bool) (h : List Step) : Sys := after sid (Sys.init ipI ipG) h

theorem after_cons (sid : Nat) (s : Sys) (st : Step) (h : List Step) :
    after sid s (st :: h) = after sid (step sid s st).1 h := rfl

theorem after_append (sid : Nat) (s : Sys) (h1 h2 : List Step) :
    after sid s (h1 ++ h2) = after sid (after sid s h1) h2 := by
  simp [after, List.foldl_append]

/-! ## the from-scratch function is the mathematical intersection -/

/-- **scratch_is_intersection**: `intersection_search_space(trials, include_pruned)` returns exactly the
items `name ↦ distribution` that *every* COMPLETE trial (and every PRUNED one iff `include_pruned`) has —
and nothing when there is no such trial.  RUNNING / WAITING / FAIL trials do not matter. -/
theorem scratch_is_intersection (trials : List Trial) (ip : Bool) (hwf : WF trials) (p : String × Nat) :
    p ∈ intersectionSearchSpace trials ip ↔
      (∃ t ∈ trials, t.state = .complete ∨ (t.state = .pruned ∧ ip = true)) ∧
      ∀ t ∈ trials, (t.state = .complete ∨ (t.state = .pruned ∧ ip = true)) → AList.get? t.dists p.1 = some p.2 := by
  have hr := scratch_rep (ip := ip) hwf
  unfold intersectionSearchSpace
  cases hsp : (calcRaw trials ip none SearchSpaceCode.cachedDefault).1 with
  | none =>
    rw [hsp] at hr
    simp only [output_none, List.not_mem_nil, false_iff, not_and]
    rintro ⟨t, ht, hst⟩
    exact absurd ⟨ht, (finished_ofInterest_iff ip t.state).mpr hst⟩ (hr t)
  | some s =>
    rw [hsp] at hr
    obtain ⟨⟨t0, ht0, hf0⟩, _, hm⟩ := hr
    rw [mem_output_some, hm]
    constructor
    · intro h
      exact ⟨⟨t0, ht0, (finished_ofInterest_iff ip _).mp hf0⟩,
        fun t ht hst => h t ⟨ht, (finished_ofInterest_iff ip _).mpr hst⟩⟩
    · rintro ⟨_, h⟩ t ⟨ht, hf⟩
      exact h t ht ((finished_ofInterest_iff ip _).mp hf)

/-- the returned dict is sorted by name and has each name once -/
theorem scratch_sorted_unique (trials : List Trial) (ip : Bool) (hwf : WF trials) :
    (intersectionSearchSpace trials ip).Pairwise (fun p q => p.1 < q.1) := by
  have hr := scratch_rep (ip := ip) hwf
  unfold intersectionSearchSpace
  generalize (calcRaw trials ip none SearchSpaceCode.cachedDefault).1 = sp at hr
  have hnd : NodupKeys (sp.getD []) := by
    cases sp with
    | none => exact nodupKeys_nil
    | some s => exact hr.2.1
  have h1 := sorted_sortByName (sp.getD [])
  have h2 := nodupKeys_sortByName hnd
  unfold output
  generalize sortByName (sp.getD []) = l at h1 h2
  unfold NodupKeys keys at h2
  induction l with
  | nil => exact List.Pairwise.nil
  | cons a l ih =>
    rw [List.pairwise_cons] at h1 ⊢
    simp only [List.map_cons, List.nodup_cons] at h2
    refine ⟨fun b hb => ?_, ih h1.2 h2.2⟩
    have hle : a.1 ≤ b.1 := h1.1 b hb
    have hne : a.1 ≠ b.1 := fun e => h2.1 (e ▸ List.mem_map.mpr ⟨b, hb, rfl⟩)
    exact lt_of_le_of_ne hle hne

/-! ## the invariant of a history -/

structure Inv (sid : Nat) (ipI ipG : Bool) (s : Sys) : Prop where
  wf : WF s.trials
  flagI : s.isp.includePruned = ipI
  flagG : s.gsp.includePruned = ipG
  /-- unless the calculator was first handed another study, `cursor_inv` holds -/
  cursor : (∀ x, s.isp.studyId = some x → x = sid) → CursorInv ipI s.trials s.isp.space s.isp.cursor
  /-- the groups are the canonical partition for a set of dicts that all belong to trials of interest -/
  groups : ∃ A, GInv A s.gsp.groups ∧
    ∀ d ∈ A, ∃ t ∈ s.trials, groupOfInterest ipG t.state = true ∧ t.dists = d

theorem groupOfInterest_finished (ip : Bool) (st : TState) (h : groupOfInterest ip st = true) :
    st.isFinished = true := by
  rcases (groupOfInterest_iff ip st).mp h with e | ⟨e, _⟩ <;> subst e <;> rfl

theorem inv_init (sid : Nat) (ipI ipG : Bool) : Inv sid ipI ipG (Sys.init ipI ipG) :=
  ⟨wf_nil, rfl, rfl, fun _ => by
      show CursorInv ipI [] none SearchSpaceCode.cursorInit
      rw [cursorInit_eq]; exact cursorInv_init ipI [],
    ⟨[], ginv_nil, by simp⟩⟩

/-- what a call of `IntersectionSearchSpace.calculate` can do -/
theorem calculate_cases (c : Calc) (sid : Nat) (trials : List Trial) :
    (c.calculate sid trials = (c, .valueError) ∧ ∃ x, c.studyId = some x ∧ x ≠ sid) ∨
    ((∀ x, c.studyId = some x → x = sid) ∧
      c.calculate sid trials =
        ({ c with studyId := some sid, space := (calcRaw trials c.includePruned c.space c.cursor).1,
                  cursor := (calcRaw trials c.includePruned c.space c.cursor).2 },
         .result (output (calcRaw trials c.includePruned c.space c.cursor).1))) := by
  unfold Calc.calculate
  cases h : c.studyId with
  | none => right; simp
  | some x =>
    by_cases hx : x = sid
    · right; subst hx; simp
    · left; simp [hx]

/-- **wrong_study_rejected**: a calculator that has served one study answers `ValueError` for a study
with another id and keeps all of its state. -/
theorem wrong_study_rejected (c : Calc) (sid sid' : Nat) (trials : List Trial)
    (h : c.studyId = some sid) (hne : sid' ≠ sid) : c.calculate sid' trials = (c, .valueError) := by
  rcases calculate_cases c sid' trials with ⟨e, _⟩ | ⟨hx, _⟩
  · exact e
  · exact absurd (hx sid h).symm hne

theorem wrong_study_rejected_groups (c : GCalc) (sid sid' : Nat) (trials : List Trial)
    (h : c.studyId = some sid) (hne : sid' ≠ sid) : c.calculate sid' trials = (c, .valueError) := by
  unfold GCalc.calculate
  have : sid ≠ sid' := fun e => hne e.symm
  simp [h, this]

/-- the calculators are untouched by trial steps -/
theorem step_isp_gsp_of_trial_step (sid : Nat) (s : Sys) (st : Step)
    (h : st ≠ .callI ∧ st ≠ .callG ∧ ∀ a b, st ≠ .callForeign a b) :
    (step sid s st).1.isp = s.isp ∧ (step sid s st).1.gsp = s.gsp := by
  cases st with
  | create st params => exact ⟨rfl, rfl⟩
  | setParam i name tok =>
    simp only [step]; split
    · split <;> exact ⟨rfl, rfl⟩
    · exact ⟨rfl, rfl⟩
  | setState i st =>
    simp only [step]; split
    · split <;> exact ⟨rfl, rfl⟩
    · exact ⟨rfl, rfl⟩
  | callI => exact absurd rfl h.1
  | callForeign a b => exact absurd rfl (h.2.2 a b)
  | callG => exact absurd rfl h.2.1

theorem inv_of_evolves {sid : Nat} {ipI ipG : Bool} {s s' : Sys} (h : Inv sid ipI ipG s)
    (he : Evolves s.trials s'.trials) (hwf : WF s'.trials) (hi : s'.isp = s.isp) (hg : s'.gsp = s.gsp) :
    Inv sid ipI ipG s' := by
  obtain ⟨_, h2, h3, h4, A, hA1, hA2⟩ := h
  refine ⟨hwf, by rw [hi]; exact h2, by rw [hg]; exact h3, ?_, ⟨A, by rw [hg]; exact hA1, ?_⟩⟩
  · rw [hi]; intro hx; exact cursorInv_evolves (h4 hx) he
  · intro d hd
    obtain ⟨t, ht, hgo, e⟩ := hA2 d hd
    exact ⟨t, he.frozen t ht (groupOfInterest_finished _ _ hgo), hgo, e⟩

theorem foldl_add_map (ts : List Trial) (gs : List Dists) :
    ts.foldl (fun gs t => addDistributions gs t.dists) gs = (ts.map Trial.dists).foldl addDistributions gs := by
  rw [List.foldl_map]

/-- **cursor_inv_step**: every step of a history (trial writes and calls alike) preserves the invariant -/
theorem cursor_inv_step (sid : Nat) (ipI ipG : Bool) (s : Sys) (st : Step) (h : Inv sid ipI ipG s) :
    Inv sid ipI ipG (step sid s st).1 := by
  have hev := step_evolves sid s st h.wf
  by_cases htr : st ≠ .callI ∧ st ≠ .callG ∧ ∀ a b, st ≠ .callForeign a b
  · obtain ⟨e1, e2⟩ := step_isp_gsp_of_trial_step sid s st htr
    exact inv_of_evolves h hev.1 hev.2 e1 e2
  · cases st with
    | create st params => exact absurd ⟨by simp, by simp, by simp⟩ htr
    | setParam i name tok => exact absurd ⟨by simp, by simp, by simp⟩ htr
    | setState i st => exact absurd ⟨by simp, by simp, by simp⟩ htr
    | callI =>
      obtain ⟨h1, h2, h3, h4, h5⟩ := h
      simp only [step]
      rcases calculate_cases s.isp sid s.trials with ⟨e, _⟩ | ⟨hx, e⟩
      · rw [e]; exact ⟨h1, h2, h3, h4, h5⟩
      · rw [e]
        refine ⟨h1, h2, h3, fun _ => ?_, h5⟩
        have := (calcRaw_correct h1 (h4 hx)).1
        rw [h2]; exact this
    | callForeign sid' trials' =>
      obtain ⟨h1, h2, h3, h4, h5⟩ := h
      simp only [step]
      split
      · exact ⟨h1, h2, h3, h4, h5⟩
      · rename_i hne
        rcases calculate_cases s.isp sid' trials' with ⟨e, _⟩ | ⟨hx, e⟩
        · rw [e]; exact ⟨h1, h2, h3, h4, h5⟩
        · rw [e]
          refine ⟨h1, h2, h3, fun hx' => ?_, h5⟩
          exact absurd (hx' sid' rfl) hne
    | callG =>
      obtain ⟨h1, h2, h3, h4, A, hA1, hA2⟩ := h
      simp only [step, GCalc.calculate]
      split
      · exact ⟨h1, h2, h3, h4, A, hA1, hA2⟩
      · refine ⟨h1, h2, h3, h4, ?_⟩
        simp only
        rw [foldl_add_map]
        refine ⟨A ++ (s.trials.filter (fun t => groupOfInterest s.gsp.includePruned t.state)).map Trial.dists,
          ginv_foldl _ hA1 ?_, ?_⟩
        · intro d hd
          obtain ⟨t, ht, e⟩ := List.mem_map.mp hd
          subst e
          exact (wf_mem h1 (List.mem_filter.mp ht).1).2.2
        · intro d hd
          rcases List.mem_append.mp hd with hd | hd
          · exact hA2 d hd
          · obtain ⟨t, ht, e⟩ := List.mem_map.mp hd
            obtain ⟨ht1, ht2⟩ := List.mem_filter.mp ht
            rw [h3] at ht2
            exact ⟨t, ht1, ht2, e⟩

/-- the invariant holds after every history that starts in a state satisfying it -/
theorem inv_after (sid : Nat) (ipI ipG : Bool) (h : List Step) :
    ∀ s, Inv sid ipI ipG s → Inv sid ipI ipG (after sid s h) := by
  induction h with
  | nil => intro s hs; exact hs
  | cons st h ih => intro s hs; exact ih _ (cursor_inv_step sid ipI ipG s st hs)

/-- **cursor_inv_reachable**: after *any* history every unfinished trial has a number ≥ the cursor, the
cursor is at most the number the next trial will get, and the stored space is the intersection over
a set `P` with {finished of interest below the cursor} ⊆ P ⊆ {finished of interest} — as long as the
calculator has not been bound to another study. -/
theorem cursor_inv_reachable (sid : Nat) (ipI ipG : Bool) (h : List Step)
    (hs : ∀ x, (run sid ipI ipG h).isp.studyId = some x → x = sid) :
    CursorInv ipI (run sid ipI ipG h).trials (run sid ipI ipG h).isp.space (run sid ipI ipG h).isp.cursor :=
  (inv_after sid ipI ipG h _ (inv_init sid ipI ipG)).cursor hs

/-- what a successful call returns, in any state satisfying the invariant -/
theorem call_post {sid : Nat} {ipI ipG : Bool} {s : Sys} (h : Inv sid ipI ipG s) {r : Dists}
    (hr : (step sid s .callI).2 = .result r) :
    ∃ sp, Rep sp (fun t => t ∈ s.trials ∧ FOI ipI t) ∧ r = output sp ∧
      (step sid s .callI).1.isp.space = sp ∧ (step sid s .callI).1.trials = s.trials := by
  simp only [step] at hr ⊢
  rcases calculate_cases s.isp sid s.trials with ⟨e, _⟩ | ⟨hx, e⟩
  · rw [e] at hr; simp [ofCalcOut] at hr
  · rw [e] at hr ⊢
    simp only [ofCalcOut, Out.result.injEq] at hr
    have := (calcRaw_correct h.wf (h.cursor hx)).2
    rw [← h.flagI] at this ⊢
    refine ⟨_, this, hr.symm, ?_, ?_⟩ <;> first | rfl | trivial

/-- **incremental_eq_scratch**: whatever happened before (trials created, written, finished, pruned or
failed in any order; earlier calls at any points; calls with other studies), whenever
`IntersectionSearchSpace.calculate(study)` returns, it returns exactly
`intersection_search_space(study.trials, include_pruned)` computed from scratch on the current trials.
Holds for both values of `include_pruned` (the `include_pruned` variant is the case `ipI = true`). -/
theorem incremental_eq_scratch (sid : Nat) (ipI ipG : Bool) (h : List Step) (r : Dists)
    (hr : (step sid (run sid ipI ipG h) .callI).2 = .result r) :
    r = intersectionSearchSpace (run sid ipI ipG h).trials ipI := by
  have hinv := inv_after sid ipI ipG h _ (inv_init sid ipI ipG)
  obtain ⟨sp, hrep, e, _, _⟩ := call_post hinv hr
  rw [e]
  exact output_congr hrep (scratch_rep hinv.wf)

theorem incremental_eq_scratch_include_pruned (sid : Nat) (ipG : Bool) (h : List Step) (r : Dists)
    (hr : (step sid (run sid true ipG h) .callI).2 = .result r) :
    r = intersectionSearchSpace (run sid true ipG h).trials true :=
  incremental_eq_scratch sid true ipG h r hr

/-- finished trials stay in the list, unchanged, through any further history -/
theorem finished_stay (sid : Nat) (h : List Step) : ∀ s : Sys, WF s.trials →
    ∀ t ∈ s.trials, t.state.isFinished = true → t ∈ (after sid s h).trials := by
  induction h with
  | nil => intro s _ t ht _; exact ht
  | cons st h ih =>
    intro s hwf t ht hf
    have hev := step_evolves sid s st hwf
    exact ih _ hev.2 t (hev.1.frozen t ht hf) hf

theorem never_grows_from {sid : Nat} {ipI ipG : Bool} {s : Sys} (hinv1 : Inv sid ipI ipG s) (h2 : List Step)
    (r1 r2 : Dists) (hr1 : (step sid s .callI).2 = .result r1)
    (hest : ∃ t ∈ s.trials, t.state = .complete ∨ (t.state = .pruned ∧ ipI = true))
    (hr2 : (step sid (after sid (step sid s .callI).1 h2) .callI).2 = .result r2) :
    ∀ p ∈ r2, p ∈ r1 := by
  have hinv1' := cursor_inv_step sid ipI ipG _ .callI hinv1
  have hinv2 := inv_after sid ipI ipG h2 _ hinv1'
  obtain ⟨sp1, hrep1, e1, _, htr1⟩ := call_post hinv1 hr1
  obtain ⟨sp2, hrep2, e2, _, _⟩ := call_post hinv2 hr2
  intro p hp
  subst e1; subst e2
  obtain ⟨t0, ht0, hst0⟩ := hest
  have hf0 : FOI ipI t0 := (finished_ofInterest_iff ipI _).mpr hst0
  cases sp1 with
  | none => exact absurd ⟨ht0, hf0⟩ (hrep1 t0)
  | some s1 =>
    cases sp2 with
    | none => simp [output_none] at hp
    | some s2 =>
      rw [mem_output_some] at hp ⊢
      rw [hrep1.2.2 p]
      rw [hrep2.2.2 p] at hp
      rintro t ⟨ht, hf⟩
      refine hp t ⟨?_, hf⟩
      have : t ∈ (step sid s .callI).1.trials := by rw [htr1]; exact ht
      exact finished_stay sid h2 _ hinv1'.wf t this hf.1

/-- **never_grows**: once a finished trial of interest exists, the result of any later call is a sub-map
of the result of an earlier call (`h2` is any history in between, including further calls). -/
theorem never_grows (sid : Nat) (ipI ipG : Bool) (h1 h2 : List Step) (r1 r2 : Dists)
    (hr1 : (step sid (run sid ipI ipG h1) .callI).2 = .result r1)
    (hest : ∃ t ∈ (run sid ipI ipG h1).trials, t.state = .complete ∨ (t.state = .pruned ∧ ipI = true))
    (hr2 : (step sid (after sid (step sid (run sid ipI ipG h1) .callI).1 h2) .callI).2 = .result r2) :
    ∀ p ∈ r2, p ∈ r1 :=
  never_grows_from (inv_after sid ipI ipG h1 _ (inv_init sid ipI ipG)) h2 r1 r2 hr1 hest hr2

/-- before any finished trial of interest exists the result is empty -/
theorem empty_until_established (sid : Nat) (ipI ipG : Bool) (h : List Step) (r : Dists)
    (hr : (step sid (run sid ipI ipG h) .callI).2 = .result r)
    (hnone : ∀ t ∈ (run sid ipI ipG h).trials, ¬ (t.state = .complete ∨ (t.state = .pruned ∧ ipI = true))) :
    r = [] := by
  have hinv := inv_after sid ipI ipG h _ (inv_init sid ipI ipG)
  obtain ⟨sp, hrep, e, _, _⟩ := call_post hinv hr
  cases sp with
  | none => rw [e]; rfl
  | some s =>
    obtain ⟨t, ht, hf⟩ := hrep.1
    exact absurd ((finished_ofInterest_iff ipI _).mp hf) (hnone t ht)

/-! ## the group decomposition -/

/-- **groups_partition**: after any sequence of `add_distributions` calls the groups are non-empty,
each is a dict, they are pairwise disjoint, and together they cover exactly the names seen. -/
theorem groups_partition (ds : List Dists) (hnd : ∀ d ∈ ds, NodupKeys d) :
    (∀ g ∈ ds.foldl addDistributions [], g ≠ []) ∧
    (∀ g ∈ ds.foldl addDistributions [], (keys g).Nodup) ∧
    ((ds.foldl addDistributions []).map keys).Pairwise List.Disjoint ∧
    ∀ k, (∃ g ∈ ds.foldl addDistributions [], k ∈ keys g) ↔ ∃ d ∈ ds, k ∈ keys d := by
  have h := ginv_foldl ds ginv_nil hnd
  simp only [List.nil_append] at h
  obtain ⟨h1, h2, h3, _⟩ := h
  unfold NodupKeys keys at h2
  rw [List.map_flatten, List.nodup_flatten] at h2
  refine ⟨h1, fun g hg => h2.1 _ (List.mem_map.mpr ⟨g, hg, rfl⟩), h2.2, h3⟩

/-- **groups_canonical**: two names are in the same group exactly when they occur in the same added
dicts — the groups are the coarsest partition in which every added dict is a union of groups. -/
theorem groups_canonical (ds : List Dists) (hnd : ∀ d ∈ ds, NodupKeys d) (g : Dists)
    (hg : g ∈ ds.foldl addDistributions []) (a : String) (ha : a ∈ keys g) (b : String) :
    b ∈ keys g ↔ (∃ d ∈ ds, b ∈ keys d) ∧ ∀ d ∈ ds, (a ∈ keys d ↔ b ∈ keys d) := by
  have h := ginv_foldl ds ginv_nil hnd
  simp only [List.nil_append] at h
  exact h.canon g hg a ha b

/-- **trial_is_union_of_groups**: every added dict's name set is a union of groups (each of its names
lies in a group that is contained in it). -/
theorem trial_is_union_of_groups (ds : List Dists) (hnd : ∀ d ∈ ds, NodupKeys d) (d : Dists) (hd : d ∈ ds)
    (k : String) (hk : k ∈ keys d) :
    ∃ g ∈ ds.foldl addDistributions [], k ∈ keys g ∧ ∀ n ∈ keys g, n ∈ keys d := by
  obtain ⟨_, _, _, hcov⟩ := groups_partition ds hnd
  obtain ⟨g, hg, hkg⟩ := (hcov k).mpr ⟨d, hd, hk⟩
  refine ⟨g, hg, hkg, fun n hn => ?_⟩
  have := (groups_canonical ds hnd g hg k hkg n).mp hn
  exact (this.2 d hd).mp hk

/-- the partition does not depend on the order or on repetitions of the added dicts: this is what makes
the incrementally kept groups equal (as a partition of names) to groups computed from scratch -/
theorem groups_order_irrelevant (ds ds' : List Dists) (hnd : ∀ d ∈ ds, NodupKeys d) (hnd' : ∀ d ∈ ds', NodupKeys d)
    (hsame : ∀ d, d ∈ ds ↔ d ∈ ds') (g : Dists) (hg : g ∈ ds.foldl addDistributions []) :
    ∃ g' ∈ ds'.foldl addDistributions [], ∀ k, k ∈ keys g ↔ k ∈ keys g' := by
  obtain ⟨hne, _, _, hcov⟩ := groups_partition ds hnd
  obtain ⟨_, _, _, hcov'⟩ := groups_partition ds' hnd'
  obtain ⟨a, ha⟩ := ne_nil_iff_key.mp (hne g hg)
  obtain ⟨d, hd, had⟩ := (hcov a).mp ⟨g, hg, ha⟩
  obtain ⟨g', hg', ha'⟩ := (hcov' a).mpr ⟨d, (hsame d).mp hd, had⟩
  refine ⟨g', hg', fun k => ?_⟩
  rw [groups_canonical ds hnd g hg a ha k, groups_canonical ds' hnd' g' hg' a ha' k]
  constructor
  · rintro ⟨⟨x, hx, hk⟩, hs⟩
    exact ⟨⟨x, (hsame x).mp hx, hk⟩, fun y hy => hs y ((hsame y).mpr hy)⟩
  · rintro ⟨⟨x, hx, hk⟩, hs⟩
    exact ⟨⟨x, (hsame x).mpr hx, hk⟩, fun y hy => hs y ((hsame y).mp hy)⟩

theorem groups_post {sid : Nat} {ipI ipG : Bool} {s : Sys} (hinv : Inv sid ipI ipG s) (gs : List Dists)
    (hr : (step sid s .callG).2 = .groups gs) :
    let trials := s.trials
    let ofI := fun (t : Trial) => t.state = .complete ∨ (t.state = .pruned ∧ ipG = true)
    (∀ g ∈ gs, g ≠ []) ∧
    (gs.map keys).Pairwise List.Disjoint ∧
    (∀ k, (∃ g ∈ gs, k ∈ keys g) ↔ ∃ t ∈ trials, ofI t ∧ k ∈ keys t.dists) ∧
    (∀ t ∈ trials, ofI t → ∀ k ∈ keys t.dists, ∃ g ∈ gs, k ∈ keys g ∧ ∀ n ∈ keys g, n ∈ keys t.dists) ∧
    (∀ g ∈ gs, ∀ a ∈ keys g, ∀ b, b ∈ keys g ↔
      (∃ t ∈ trials, ofI t ∧ b ∈ keys t.dists) ∧ ∀ t ∈ trials, ofI t → (a ∈ keys t.dists ↔ b ∈ keys t.dists)) := by
  intro trials ofI
  -- the groups returned are the groups stored
  have hgs : (step sid s .callG).1.gsp.groups = gs ∧
      ∀ t ∈ trials, ofI t → t.dists ∈ (trials.filter (fun t => groupOfInterest ipG t.state)).map Trial.dists := by
    refine ⟨?_, ?_⟩
    · simp only [step, GCalc.calculate] at hr ⊢
      split at hr
      · simp [ofGOut] at hr
      · rename_i hc
        simp only [hc]
        simp only [ofGOut, Out.groups.injEq] at hr
        exact hr
    · intro t ht hof
      exact List.mem_map.mpr ⟨t, List.mem_filter.mpr ⟨ht, (groupOfInterest_iff ipG _).mpr hof⟩, rfl⟩
  -- the exact set of dicts the stored groups are canonical for
  obtain ⟨h1, h2, h3, h4, A, hA1, hA2⟩ := hinv
  have hG : GInv ((trials.filter (fun t => groupOfInterest ipG t.state)).map Trial.dists) gs := by
    have hstep : (step sid s .callG).1.gsp.groups =
        ((trials.filter (fun t => groupOfInterest ipG t.state)).map Trial.dists).foldl addDistributions
          s.gsp.groups := by
      simp only [step, GCalc.calculate] at hr ⊢
      split at hr
      · simp [ofGOut] at hr
      · rename_i hc
        simp only [hc]
        rw [foldl_add_map, h3]; rfl
    rw [← hgs.1, hstep]
    have := ginv_foldl ((trials.filter (fun t => groupOfInterest ipG t.state)).map Trial.dists) hA1 (by
      intro d hd
      obtain ⟨t, ht, e⟩ := List.mem_map.mp hd
      subst e
      exact (wf_mem h1 (List.mem_filter.mp ht).1).2.2)
    refine this.congr (fun x => ?_)
    simp only [List.mem_append]
    constructor
    · rintro (hx | hx)
      · obtain ⟨t, ht, hgo, e⟩ := hA2 x hx
        exact List.mem_map.mpr ⟨t, List.mem_filter.mpr ⟨ht, hgo⟩, e⟩
      · exact hx
    · exact Or.inr
  have hseen : ∀ k, Seen ((trials.filter (fun t => groupOfInterest ipG t.state)).map Trial.dists) k ↔
      ∃ t ∈ trials, ofI t ∧ k ∈ keys t.dists := by
    intro k
    constructor
    · rintro ⟨d, hd, hk⟩
      obtain ⟨t, ht, e⟩ := List.mem_map.mp hd
      subst e
      obtain ⟨ht1, ht2⟩ := List.mem_filter.mp ht
      exact ⟨t, ht1, (groupOfInterest_iff ipG _).mp ht2, hk⟩
    · rintro ⟨t, ht, hof, hk⟩
      exact ⟨t.dists, hgs.2 t ht hof, hk⟩
  have hsig : ∀ a b, SameSig ((trials.filter (fun t => groupOfInterest ipG t.state)).map Trial.dists) a b ↔
      ∀ t ∈ trials, ofI t → (a ∈ keys t.dists ↔ b ∈ keys t.dists) := by
    intro a b
    constructor
    · intro hs t ht hof; exact hs t.dists (hgs.2 t ht hof)
    · intro hs d hd
      obtain ⟨t, ht, e⟩ := List.mem_map.mp hd
      subst e
      obtain ⟨ht1, ht2⟩ := List.mem_filter.mp ht
      exact hs t ht1 ((groupOfInterest_iff ipG _).mp ht2)
  obtain ⟨g1, g2, g3, g4⟩ := hG
  have hcanon : ∀ g ∈ gs, ∀ a ∈ keys g, ∀ b, b ∈ keys g ↔
      (∃ t ∈ trials, ofI t ∧ b ∈ keys t.dists) ∧ ∀ t ∈ trials, ofI t → (a ∈ keys t.dists ↔ b ∈ keys t.dists) := by
    intro g hg a ha b
    rw [g4 g hg a ha b, hseen, hsig]
  have hcover : ∀ k, (∃ g ∈ gs, k ∈ keys g) ↔ ∃ t ∈ trials, ofI t ∧ k ∈ keys t.dists := fun k =>
    (g3 k).trans (hseen k)
  refine ⟨g1, ?_, hcover, ?_, hcanon⟩
  · unfold NodupKeys keys at g2
    rw [List.map_flatten, List.nodup_flatten] at g2
    exact g2.2
  · intro t ht hof k hk
    obtain ⟨g, hg, hkg⟩ := (hcover k).mpr ⟨t, ht, hof, hk⟩
    refine ⟨g, hg, hkg, fun n hn => ?_⟩
    exact (((hcanon g hg k hkg n).mp hn).2 t ht hof).mp hk

/-- **groups_history**: after any history, whenever `_GroupDecomposedSearchSpace.calculate(study)`
returns, the groups are non-empty and pairwise disjoint, they cover exactly the parameter names of
the current COMPLETE (and PRUNED iff `include_pruned`) trials, every such trial's name set is a union
of groups, and two names share a group exactly when they occur in the same such trials. -/
theorem groups_history (sid : Nat) (ipI ipG : Bool) (h : List Step) (gs : List Dists)
    (hr : (step sid (run sid ipI ipG h) .callG).2 = .groups gs) :
    let trials := (run sid ipI ipG h).trials
    let ofI := fun (t : Trial) => t.state = .complete ∨ (t.state = .pruned ∧ ipG = true)
    (∀ g ∈ gs, g ≠ []) ∧
    (gs.map keys).Pairwise List.Disjoint ∧
    (∀ k, (∃ g ∈ gs, k ∈ keys g) ↔ ∃ t ∈ trials, ofI t ∧ k ∈ keys t.dists) ∧
    (∀ t ∈ trials, ofI t → ∀ k ∈ keys t.dists, ∃ g ∈ gs, k ∈ keys g ∧ ∀ n ∈ keys g, n ∈ keys t.dists) ∧
    (∀ g ∈ gs, ∀ a ∈ keys g, ∀ b, b ∈ keys g ↔
      (∃ t ∈ trials, ofI t ∧ b ∈ keys t.dists) ∧ ∀ t ∈ trials, ofI t → (a ∈ keys t.dists ↔ b ∈ keys t.dists)) :=
  groups_post (inv_after sid ipI ipG h _ (inv_init sid ipI ipG)) gs hr


/-! ## non-vacuity: concrete histories that exercise the hypotheses above

`demo`: trial 1 finishes before trial 0 (out of creation order), a call in between, trial 0 then
completes with one parameter fewer, trial 2 changes the distribution of `x`, trial 3 is pruned. -/

def demo1 : List Step :=
  [ .create .running [], .create .running [],
    .setParam 1 "x" 7, .setParam 1 "y" 3, .setParam 0 "x" 7, .setParam 0 "y" 3, .setParam 0 "z" 5,
    .setState 1 .complete ]

def demo2 : List Step :=
  [ .setState 0 .complete, .callI,
    .create .waiting [], .setState 2 .running, .setParam 2 "x" 8, .setParam 2 "y" 3, .setState 2 .complete ]

def demo3 : List Step := [ .create .running [("q", 1)], .setState 3 .pruned ]

-- the first call sees only trial 1 finished; the cursor stays at the unfinished trial 0
example : (step 0 (run 0 false false demo1) .callI).2 = .result [("x", 7), ("y", 3)] := by decide
example : (step 0 (run 0 false false demo1) .callI).1.isp.cursor = 0 := by decide
-- hypotheses of `never_grows`: established, and a later call after more history
example : ∃ t ∈ (run 0 false false demo1).trials, t.state = .complete ∨ (t.state = .pruned ∧ false = true) :=
  ⟨⟨1, .complete, [("x", 7), ("y", 3)]⟩, by decide, Or.inl rfl⟩
example : (step 0 (after 0 (step 0 (run 0 false false demo1) .callI).1 demo2) .callI).2 = .result [("y", 3)] := by
  decide
example : (step 0 (after 0 (step 0 (run 0 false false demo1) .callI).1 demo2) .callI).1.isp.cursor = 3 := by
  decide
-- the include_pruned flag matters
example : (step 0 (run 0 true false (demo1 ++ demo2 ++ demo3)) .callI).2 = .result [] := by decide
example : (step 0 (run 0 false false (demo1 ++ demo2 ++ demo3)) .callI).2 = .result [("y", 3)] := by decide
-- a foreign study is rejected once the calculator is bound, and binds it when it comes first
example : (step 0 (run 0 false false (demo1 ++ [.callI])) (.callForeign 5 [])).2 = .valueError := by decide
example : (step 0 (run 0 false false (.callForeign 5 [] :: demo1)) .callI).2 = .valueError := by decide
-- writes to a finished trial are rejected
example : (step 0 (run 0 false false demo1) (.setParam 1 "w" 1)).2 = .rejected := by decide
-- groups: {x,y} {z} after trials 1 and 0; x and y stay together although x changed its distribution
example : (step 0 (run 0 false false (demo1 ++ demo2)) .callG).2 =
    .groups [[("x", 7), ("y", 3)], [("z", 5)]] := by decide
example : (step 0 (run 0 false true (demo1 ++ demo2 ++ demo3)) .callG).2 =
    .groups [[("x", 7), ("y", 3)], [("z", 5)], [("q", 1)]] := by decide
example : [[("a", 1), ("b", 1)], [("b", 1), ("c", 1)]].foldl addDistributions [] =
    [[("b", 1)], [("a", 1)], [("c", 1)]] := by decide

end OptunaVerif.C17
