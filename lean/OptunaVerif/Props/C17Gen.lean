import OptunaVerif.Generated.SearchSpaceMethods
import OptunaVerif.Generated.SearchSpaceCode
import OptunaVerif.Props.C17
/-!
# C17 (translator tie) — the search-space calculators *as written in the source today* are the hand model

`Generated/SearchSpaceMethods.lean` is regenerated on every run by `verif/translators/tspace.py` from
`optuna/search_space/intersection.py` and `optuna/search_space/group_decomposed.py`: the whole bodies of
`_calculate`, `IntersectionSearchSpace.calculate`, `intersection_search_space`,
`_SearchSpaceGroup.add_distributions`, `_GroupDecomposedSearchSpace.calculate` (+ the defaults of `_calculate` and
the `__init__` facts) as data of the statement language of `Model/SpaceIR.lean`.

Proved here, for **all** inputs (trial lists of any length in any states, any cached space / cursor, any group
list, any study ids — no bound, no sampling):
* `<method>_shape`: the generated body is literally the expected term (any source edit that reaches the IR
  changes it);
* `interp_<method>`: the interpreter on the generated body equals the corresponding function of
  `Model/SearchSpace.lean`;
* `code_constants_pinned`: the expressions `verif/translators/search_space.py` reads out of the source
  (`Generated/SearchSpaceCode.lean`) are the constants the hand model uses;
* `genRun_eq`: a history driven through the interpreter of the generated calculators is the hand model's history,
  hence every theorem of `Props/C17.lean` holds of it (`gen_*`).
-/
set_option linter.unusedSimpArgs false
set_option linter.unusedVariables false
namespace OptunaVerif.C17Gen
open OptunaVerif OptunaVerif.SearchSpace OptunaVerif.SpaceIR
open OptunaVerif.Generated

@[simp] theorem spaceSem_cond (c) : (spaceSem c).cond = evalSCond := rfl
@[simp] theorem spaceSem_act (c) : (spaceSem c).act = doSAct c := rfl
@[simp] theorem spaceSem_iter (c) : (spaceSem c).iter = iterS := rfl
@[simp] theorem spaceSem_retv (c) : (spaceSem c).retv = retS := rfl

theorem loopAux_cons_next {E V : Type} (f : E → E × Flow V) (b : E → E) (rest : List (E → E)) (env env' : E)
    (h : f (b env) = (env', .next)) : loopAux f (b :: rest) env = loopAux f rest env' := by
  simp [loopAux, h]
theorem loopAux_cons_cont {E V : Type} (f : E → E × Flow V) (b : E → E) (rest : List (E → E)) (env env' : E)
    (h : f (b env) = (env', .cont)) : loopAux f (b :: rest) env = loopAux f rest env' := by
  simp [loopAux, h]
theorem loopAux_cons_brk {E V : Type} (f : E → E × Flow V) (b : E → E) (rest : List (E → E)) (env env' : E)
    (h : f (b env) = (env', .brk)) : loopAux f (b :: rest) env = (env', .next) := by
  simp [loopAux, h]

/-- the expressions the older translator (`verif/translators/search_space.py`) reads out of `_calculate`,
`IntersectionSearchSpace.__init__` and `_GroupDecomposedSearchSpace.calculate` are the constants of the hand model -/
theorem code_constants_pinned :
    Generated.SearchSpaceCode.statesBase = SearchSpace.SearchSpaceCode.statesBase ∧
    Generated.SearchSpaceCode.statesPrunedExtra = SearchSpace.SearchSpaceCode.statesPrunedExtra ∧
    Generated.SearchSpaceCode.cachedDefault = SearchSpace.SearchSpaceCode.cachedDefault ∧
    Generated.SearchSpaceCode.nextInit = SearchSpace.SearchSpaceCode.nextInit ∧
    Generated.SearchSpaceCode.nextUnsetTest = SearchSpace.SearchSpaceCode.nextUnsetTest ∧
    Generated.SearchSpaceCode.nextFirst = SearchSpace.SearchSpaceCode.nextFirst ∧
    Generated.SearchSpaceCode.breakTest = SearchSpace.SearchSpaceCode.breakTest ∧
    Generated.SearchSpaceCode.nextUnfinished = SearchSpace.SearchSpaceCode.nextUnfinished ∧
    Generated.SearchSpaceCode.cursorInit = SearchSpace.SearchSpaceCode.cursorInit ∧
    Generated.SearchSpaceCode.groupStates = SearchSpace.SearchSpaceCode.groupStates ∧
    Generated.SearchSpaceCode.groupStatesPruned = SearchSpace.SearchSpaceCode.groupStatesPruned :=
  ⟨rfl, rfl, rfl, rfl, rfl, rfl, rfl, rfl, rfl, rfl, rfl⟩

/-! ## `_calculate` -/

/-- the body of the trial loop of `_calculate`, as generated -/
def calcBody : SStmt :=
  block [
    (.ite (.not .stateOfInterest) .cont .skip),
    (.ite (.cmp .eq .next (.lit (-1))) (.act (.setNext (.add .number (.lit 1)))) .skip),
    (.ite (.cmp .gt .cached .number) .brk .skip),
    (.ite (.not .stateFinished) (block [(.act (.setNext .number)), .cont]) .skip),
    (.ite .spaceIsNone (block [(.act .spaceCopyDists), .cont]) .skip),
    (.act (.spaceIntersect .getEq))]

/-- **calculate_shape**: the generated `_calculate` — states list COMPLETE/WAITING/RUNNING, PRUNED appended iff
`include_pruned`, `next = -1`, the loop over `reversed(trials)` with the body above, `return search_space, next` -/
theorem calculate_shape : SearchSpaceMethods.calculate = block [
    (.act (.setStates [.complete, .waiting, .running])),
    (.ite .includePrunedArg (.act (.appendState .pruned)) .skip),
    (.act (.setNext (.lit (-1)))),
    (.loop .trialsReversed calcBody),
    (.ret .spaceAndNext)] := rfl

theorem calc_loop (ip : Bool) (cached : Int) (S : List TState) (hS : ∀ st, S.contains st = ofInterest ip st)
    (l : List Trial) :
    ∀ (env : SEnv) (nx : Int), env.states = some S → env.next = some nx → env.inp.argCached = cached →
      finishPair (andThen (loopAux (fun e => exec (spaceSem noCalls) calcBody e)
          (l.map (fun t => fun (e : SEnv) => { e with trial := some t })) env)
        (fun e => exec (spaceSem noCalls) (.ret .spaceAndNext) e)) = .ok (scan ip cached l env.space nx) := by
  induction l with
  | nil =>
    intro env nx hs hn hc
    simp [loopAux, andThen, exec, retS, hn, finishPair, scan]
  | cons t rest ih =>
    intro env nx hs hn hc
    simp only [List.map_cons, scan]
    have hS' : decide (t.state ∈ S) = ofInterest ip t.state := by simpa using hS t.state
    have hS'' : S.contains t.state = ofInterest ip t.state := hS t.state
    cases hi : ofInterest ip t.state with
    | false =>
      have hstep : exec (spaceSem noCalls) calcBody { env with trial := some t } = ({ env with trial := some t }, .cont) := by
        simp [calcBody, block, exec, andThen, evalSCond, hs, hS', hi]
      rw [loopAux_cons_cont _ _ _ _ _ hstep]
      simpa using ih { env with trial := some t } nx hs hn hc
    | true =>
      simp only [Bool.not_true, Bool.false_eq_true, if_false]
      -- the value of `next_cached_trial_number` after the "first trial of interest" statement
      generalize hnx1 : (if SearchSpace.SearchSpaceCode.nextUnsetTest nx = true then SearchSpace.SearchSpaceCode.nextFirst (t.number : Int) else nx) = nx1
      have hfirst : exec (spaceSem noCalls)
          (.ite (.cmp .eq .next (.lit (-1))) (.act (.setNext (.add .number (.lit 1)))) .skip) { env with trial := some t } =
          ({ env with trial := some t, next := some nx1 }, .next) := by
        by_cases h1 : nx = -1
        · subst hnx1
          simp [exec, evalSCond, evalIExp, doSAct, Cmp.eval, hn, h1, SearchSpace.SearchSpaceCode.nextUnsetTest, SearchSpace.SearchSpaceCode.nextFirst]
        · subst hnx1
          simp [exec, evalSCond, evalIExp, doSAct, Cmp.eval, hn, h1, SearchSpace.SearchSpaceCode.nextUnsetTest, SearchSpace.SearchSpaceCode.nextFirst]
      by_cases hb : SearchSpace.SearchSpaceCode.breakTest cached (t.number : Int) = true
      · have hb' : cached > (t.number : Int) := by simpa [SearchSpace.SearchSpaceCode.breakTest] using hb
        have hstep : exec (spaceSem noCalls) calcBody { env with trial := some t } =
            ({ env with trial := some t, next := some nx1 }, .brk) := by
          simp only [calcBody, block, exec, andThen, spaceSem_cond] at hfirst ⊢
          simp only [evalSCond, hs, hS'', hi, Bool.not_true] at hfirst ⊢
          rw [hfirst]
          simp [evalSCond, evalIExp, Cmp.eval, hc, hb']
        rw [loopAux_cons_brk _ _ _ _ _ hstep]
        simp [andThen, exec, retS, finishPair, hb]
      · have hb' : ¬ cached > (t.number : Int) := by simpa [SearchSpace.SearchSpaceCode.breakTest] using hb
        simp only [hb, Bool.false_eq_true, if_false]
        cases hf : t.state.isFinished with
        | false =>
          have hstep : exec (spaceSem noCalls) calcBody { env with trial := some t } =
              ({ env with trial := some t, next := some (t.number : Int) }, .cont) := by
            simp only [calcBody, block, exec, andThen, spaceSem_cond] at hfirst ⊢
            simp only [evalSCond, hs, hS'', hi, Bool.not_true] at hfirst ⊢
            rw [hfirst]
            simp [evalSCond, evalIExp, Cmp.eval, hc, hb', hf, exec, andThen, doSAct, block]
          rw [loopAux_cons_cont _ _ _ _ _ hstep]
          simpa [SearchSpace.SearchSpaceCode.nextUnfinished] using
            ih { env with trial := some t, next := some (t.number : Int) } (t.number : Int) hs rfl hc
        | true =>
          simp only [Bool.not_true, Bool.false_eq_true, if_false]
          cases hsp : env.space with
          | none =>
            have hstep : exec (spaceSem noCalls) calcBody { env with trial := some t } =
                ({ env with trial := some t, next := some nx1, space := some t.dists }, .cont) := by
              simp only [calcBody, block, exec, andThen, spaceSem_cond] at hfirst ⊢
              simp only [evalSCond, hs, hS'', hi, Bool.not_true] at hfirst ⊢
              rw [hfirst]
              simp [evalSCond, evalIExp, Cmp.eval, hc, hb', hf, hsp, exec, andThen, doSAct, block]
            rw [loopAux_cons_cont _ _ _ _ _ hstep]
            simpa [absorb] using ih { env with trial := some t, next := some nx1, space := some t.dists } nx1 hs rfl hc
          | some s =>
            have hstep : exec (spaceSem noCalls) calcBody { env with trial := some t } =
                ({ env with trial := some t, next := some nx1, space := some (inter s t.dists) }, .next) := by
              simp only [calcBody, block, exec, andThen, spaceSem_cond] at hfirst ⊢
              simp only [evalSCond, hs, hS'', hi, Bool.not_true] at hfirst ⊢
              rw [hfirst]
              simp [evalSCond, evalIExp, Cmp.eval, hc, hb', hf, hsp, exec, andThen, doSAct, block, interBy, inter]
            rw [loopAux_cons_next _ _ _ _ _ hstep]
            simpa [absorb] using
              ih { env with trial := some t, next := some nx1, space := some (inter s t.dists) } nx1 hs rfl hc

/-- **interp_calculate**: `_calculate` as generated is `calcRaw` — for every trial list (any states, any numbers),
both values of `include_pruned`, every cached space and every cursor -/
theorem interp_calculate (trials : List Trial) (ip : Bool) (sp : Option Dists) (cached : Int) :
    interpCalculate SearchSpaceMethods.calculate trials ip sp cached = .ok (calcRaw trials ip sp cached) := by
  rw [interpCalculate, calculate_shape]
  cases ip with
  | false =>
    have h := calc_loop false cached [.complete, .waiting, .running] (by intro st; cases st <;> rfl) trials.reverse
      { SEnv.mk' { SIn.init trials 0 with argIp := false, argCached := cached } SObj.init with
        space := sp, states := some [.complete, .waiting, .running], next := some (-1) } (-1) rfl rfl rfl
    simp only [block, exec, andThen, spaceSem_cond, spaceSem_act, spaceSem_iter, evalSCond, doSAct, evalIExp, iterS,
      SEnv.mk', SIn.init] at h ⊢
    exact h
  | true =>
    have h := calc_loop true cached [.complete, .waiting, .running, .pruned] (by intro st; cases st <;> rfl) trials.reverse
      { SEnv.mk' { SIn.init trials 0 with argIp := true, argCached := cached } SObj.init with
        space := sp, states := some [.complete, .waiting, .running, .pruned], next := some (-1) } (-1) rfl rfl rfl
    simp only [block, exec, andThen, spaceSem_cond, spaceSem_act, spaceSem_iter, evalSCond, doSAct, evalIExp, iterS,
      SEnv.mk', SIn.init, List.cons_append, List.nil_append] at h ⊢
    exact h

/-- `_calculate` never raises -/
example : interpCalculate SearchSpaceMethods.calculate
    [⟨0, .complete, [("x", 1), ("y", 2)]⟩, ⟨1, .running, [("x", 1)]⟩, ⟨2, .pruned, [("x", 1)]⟩,
     ⟨3, .complete, [("y", 2), ("x", 1), ("z", 5)]⟩, ⟨4, .waiting, []⟩] false none (-1) =
    .ok (some [("y", 2), ("x", 1)], 1) := by decide
/-- … the unfinished trial 1 holds the cursor back although trial 3 is finished; with `include_pruned` trial 2 counts -/
example : interpCalculate SearchSpaceMethods.calculate
    [⟨0, .complete, [("x", 1), ("y", 2)]⟩, ⟨1, .running, [("x", 1)]⟩, ⟨2, .pruned, [("x", 1)]⟩,
     ⟨3, .complete, [("y", 2), ("x", 1), ("z", 5)]⟩] true (some [("x", 1), ("q", 3)]) 2 = .ok (some [("x", 1)], 4) := by decide

/-! ## `intersection_search_space` and `IntersectionSearchSpace.calculate` -/

/-- the defaults of `_calculate`'s parameters: `include_pruned=False, search_space=None, cached_trial_number=-1` -/
theorem calculate_defaults : SearchSpaceMethods.calcDefaults = ⟨false, true, SearchSpace.SearchSpaceCode.cachedDefault⟩ := rfl

theorem functional_shape : SearchSpaceMethods.functional = block [
    (.act (.callCalculate .argTrials .argIncludePruned .default .default .localSpace)),
    (.act (.setOut .localSpaceOrEmpty)), (.act .sortOut), (.ret .out)] := rfl

/-- **interp_functional**: `intersection_search_space(trials, include_pruned)` as generated is the hand model's
from-scratch function -/
theorem interp_functional (trials : List Trial) (ip : Bool) :
    interpFunctional SearchSpaceMethods.interProg trials ip = .ok (intersectionSearchSpace trials ip) := by
  simp only [interpFunctional, SearchSpaceMethods.interProg, functional_shape, block, exec, andThen, spaceSem_act,
    spaceSem_retv, doSAct, retS, evalSpSrc, evalTrialsSrc, evalBSrc, evalCSrc, interCalls, interp_calculate, SEnv.mk',
    SIn.init, calculate_defaults, if_true, finishDists, intersectionSearchSpace, output]

theorem objCalculate_shape : SearchSpaceMethods.objCalculate = block [
    (.ite .studyIdIsNone (.act .bindStudyId) (.ite .studyIdDiffers (.raise .valueError) .skip)),
    (.act (.callCalculate .getTrials .selfIncludePruned .selfSpace .selfCursor .selfFields)),
    (.act (.setOut .selfSpaceOrEmpty)), (.act .sortOut), (.ret .outDeepcopy)] := rfl

/-- the answer of the hand model's calculator as an `Except` -/
def exceptOfCalcOut : CalcOut → Except Err Dists
  | .valueError => .error .valueError
  | .result d => .ok d

/-- **interp_objCalculate**: `IntersectionSearchSpace.calculate(study)` as generated is `Calc.calculate` — same object
afterwards (study id bound at the first call, `_search_space` / `_cached_trial_number` from `_calculate` on the CURRENT
trials with the object's `include_pruned`), same answer (sorted by name), `ValueError` for another study with the
object untouched — for every object state, study id, trial list, and whatever a cached read would answer -/
theorem interp_objCalculate (c : Calc) (sid : Nat) (trials stale : List Trial) :
    interpObjCalculate SearchSpaceMethods.interProg c sid trials stale =
      ((c.calculate sid trials).1, exceptOfCalcOut (c.calculate sid trials).2) := by
  obtain ⟨cur, sp, st, ip⟩ := c
  cases st with
  | none =>
    simp [interpObjCalculate, SearchSpaceMethods.interProg, objCalculate_shape, block, exec, andThen, evalSCond, doSAct, retS,
      evalSpSrc, evalTrialsSrc, evalBSrc, evalCSrc, interCalls, interp_calculate, SEnv.mk', SIn.init, objOfCalc, calcOfObj,
      finishDists, Calc.calculate, exceptOfCalcOut, output]
  | some x =>
    by_cases hx : x = sid
    · subst hx
      simp [interpObjCalculate, SearchSpaceMethods.interProg, objCalculate_shape, block, exec, andThen, evalSCond, doSAct, retS,
        evalSpSrc, evalTrialsSrc, evalBSrc, evalCSrc, interCalls, interp_calculate, SEnv.mk', SIn.init, objOfCalc, calcOfObj,
        finishDists, Calc.calculate, exceptOfCalcOut, output]
    · have hne : (some x != some sid) = true := by simp [hx]
      simp [interpObjCalculate, SearchSpaceMethods.interProg, objCalculate_shape, block, exec, andThen, evalSCond, doSAct, retS,
        SEnv.mk', SIn.init, objOfCalc, calcOfObj, finishDists, Calc.calculate, exceptOfCalcOut, hne]
example : (interpObjCalculate SearchSpaceMethods.interProg (Calc.init false) 7
      [⟨0, .complete, [("y", 2), ("x", 1)]⟩, ⟨1, .running, []⟩, ⟨2, .complete, [("x", 1)]⟩] []).2 = .ok [("x", 1)] ∧
    (interpObjCalculate SearchSpaceMethods.interProg (Calc.init false) 7
      [⟨0, .complete, [("y", 2), ("x", 1)]⟩, ⟨1, .running, []⟩, ⟨2, .complete, [("x", 1)]⟩] []).1.cursor = 1 ∧
    (interpObjCalculate SearchSpaceMethods.interProg
      (interpObjCalculate SearchSpaceMethods.interProg (Calc.init false) 7 [] []).1 8 [] []).2 = .error .valueError := by decide

/-! ## `_SearchSpaceGroup.add_distributions` -/

/-- the body of the group loop, as generated -/
def addBody : SStmt :=
  block [(.act .setKeys), (.act (.appendRestrict .group .keysAndDistKeys)),
    (.act (.appendRestrict .group .keysMinusDistKeys)), (.act .distKeysMinusKeys)]

/-- **addDistributions_shape**: `dist_keys = set(distributions.keys())`; every group is split into its part inside and
its part outside `dist_keys`, and its keys leave `dist_keys`; the remainder group is added; empties are dropped -/
theorem addDistributions_shape : SearchSpaceMethods.addDistributions = block [
    (.act (.setDistKeys .all)), (.act .initNextSpaces), (.loop .groups addBody),
    (.act (.appendRestrict .distributions .distKeys)), (.act .storeNonEmpty)] := rfl

theorem filter_keys_andNot (g : Dists) (dk : List String) :
    g.filter (fun p => (keys g).contains p.1 && !dk.contains p.1) = g.filter (fun p => !dk.contains p.1) := by
  apply List.filter_congr
  intro p hp
  have hm : p.1 ∈ keys g := List.mem_map.mpr ⟨p, hp, rfl⟩
  simp [hm]

theorem filter_keys_andIn (g : Dists) (dk : List String) :
    g.filter (fun p => (keys g).contains p.1 && dk.contains p.1) = g.filter (fun p => dk.contains p.1) := by
  apply List.filter_congr
  intro p hp
  have hm : p.1 ∈ keys g := List.mem_map.mpr ⟨p, hp, rfl⟩
  simp [hm]

theorem add_loop (gs : List Dists) :
    ∀ (env : SEnv) (acc : List Dists) (dk : List String), env.nextSpaces = some acc → env.distKeys = some dk →
      ∃ env', loopAux (fun e => exec (spaceSem noCalls) addBody e)
          (gs.map (fun g => fun (e : SEnv) => { e with group := some g })) env = (env', .next) ∧
        env'.nextSpaces = some (acc ++ (addAux gs dk).1) ∧ env'.distKeys = some (addAux gs dk).2 ∧
        env'.inp = env.inp ∧ env'.obj = env.obj := by
  induction gs with
  | nil =>
    intro env acc dk hn hd
    exact ⟨env, by simp [loopAux], by simp [addAux, hn], by simp [addAux, hd], rfl, rfl⟩
  | cons g rest ih =>
    intro env acc dk hn hd
    have hstep : exec (spaceSem noCalls) addBody { env with group := some g } =
        ({ env with group := some g,
                    keys := some (SearchSpace.keys g),
                    nextSpaces := some (acc ++ [g.filter (fun p => dk.contains p.1)] ++ [g.filter (fun p => !dk.contains p.1)]),
                    distKeys := some (dk.filter (fun k => !(SearchSpace.keys g).contains k)) }, .next) := by
      simp only [addBody, block, exec, andThen, spaceSem_act, doSAct, selNames, hn, hd, filter_keys_andIn, filter_keys_andNot]
    obtain ⟨env', h1, h2, h3, h4, h5⟩ := ih
      { env with group := some g,
                 keys := some (SearchSpace.keys g),
                 nextSpaces := some (acc ++ [g.filter (fun p => dk.contains p.1)] ++ [g.filter (fun p => !dk.contains p.1)]),
                 distKeys := some (dk.filter (fun k => !(SearchSpace.keys g).contains k)) }
      (acc ++ [g.filter (fun p => dk.contains p.1)] ++ [g.filter (fun p => !dk.contains p.1)])
      (dk.filter (fun k => !(SearchSpace.keys g).contains k)) rfl rfl
    refine ⟨env', ?_, ?_, ?_, h4, h5⟩
    · simp only [List.map_cons]
      rw [loopAux_cons_next _ _ _ _ _ hstep]; exact h1
    · rw [h2]; simp [addAux]
    · rw [h3]; simp [addAux]

/-- **interp_addDistributions**: `add_distributions` as generated is the hand model's, for every group list and every
added dict (and whatever `single()` says: it is not consulted) -/
theorem interp_addDistributions (single : Nat → Bool) (gs : List Dists) (d : Dists) :
    interpAdd SearchSpaceMethods.addDistributions single gs d = .ok (SearchSpace.addDistributions gs d) := by
  rw [interpAdd, addDistributions_shape]
  obtain ⟨env', h1, h2, h3, h4, h5⟩ := add_loop gs
    { SEnv.mk' { SIn.init [] 0 with distributions := d, single := single } { SObj.init with groups := gs } with
      distKeys := some (keys d), nextSpaces := some [] } [] (keys d) rfl rfl
  simp only [block, exec, andThen, spaceSem_act, spaceSem_iter, doSAct, iterS, SEnv.mk', SIn.init, SObj.init] at h1 ⊢
  rw [h1]
  simp only [List.nil_append] at h2
  simp only [selNames, h2, h3, h4, finishGroupsObj, SearchSpace.addDistributions, SEnv.mk', SIn.init]
example : interpAdd SearchSpaceMethods.addDistributions (fun _ => true) [[("a", 1), ("b", 1)], [("c", 1)]]
    [("b", 1), ("c", 1), ("d", 1)] = .ok [[("b", 1)], [("a", 1)], [("c", 1)], [("d", 1)]] := by decide

/-! ## `_GroupDecomposedSearchSpace.calculate` -/

/-- the body of the trial loop of `_GroupDecomposedSearchSpace.calculate`, as generated -/
def gaddBody : SStmt := .act .groupAdd

theorem groupCalculate_shape : SearchSpaceMethods.groupCalculate = block [
    (.ite .studyIdIsNone (.act .bindStudyId) (.ite .studyIdDiffers (.raise .valueError) .skip)),
    (.ite .selfIncludePruned (.act (.setStates [.complete, .pruned])) (.act (.setStates [.complete]))),
    (.loop (.studyTrialsOfStates false) gaddBody), (.ret .groupsDeepcopy)] := rfl

def addCalls (single : Nat → Bool) : SCalls :=
  { noCalls with addF := interpAdd SearchSpaceMethods.addDistributions single }

theorem gadd_loop (single : Nat → Bool) (ts : List Trial) :
    ∀ (env : SEnv), ∃ env', loopAux (fun e => exec (spaceSem (addCalls single)) gaddBody e)
        (ts.map (fun t => fun (e : SEnv) => { e with trial := some t })) env = (env', .next) ∧
      env'.obj = { env.obj with groups := ts.foldl (fun gs t => SearchSpace.addDistributions gs t.dists) env.obj.groups } := by
  induction ts with
  | nil => intro env; exact ⟨env, by simp [loopAux], rfl⟩
  | cons t rest ih =>
    intro env
    have hstep : exec (spaceSem (addCalls single)) gaddBody { env with trial := some t } =
        ({ env with trial := some t, obj := { env.obj with groups := SearchSpace.addDistributions env.obj.groups t.dists } }, .next) := by
      simp [gaddBody, exec, doSAct, addCalls, interp_addDistributions]
    obtain ⟨env', h1, h2⟩ := ih { env with trial := some t, obj := { env.obj with groups := SearchSpace.addDistributions env.obj.groups t.dists } }
    refine ⟨env', ?_, by rw [h2]; rfl⟩
    simp only [List.map_cons]
    rw [loopAux_cons_next _ _ _ _ _ hstep]; exact h1

def exceptOfGOut : GOut → Except Err (List Dists)
  | .valueError => .error .valueError
  | .groups g => .ok g

/-- **interp_groupCalculate**: `_GroupDecomposedSearchSpace.calculate(study)` as generated is `GCalc.calculate`: the
study guard, COMPLETE (and PRUNED iff `include_pruned`) trials of the CURRENT list in order, one `add_distributions`
each, on the object's groups — for every object state, study id and trial list -/
theorem interp_groupCalculate (single : Nat → Bool) (c : GCalc) (sid : Nat) (trials stale : List Trial) :
    interpGroupCalculate SearchSpaceMethods.groupProg single c sid trials stale =
      ((c.calculate sid trials).1, exceptOfGOut (c.calculate sid trials).2) := by
  obtain ⟨gs, st, ip⟩ := c
  have hcalls : ({ noCalls with addF := interpAdd SearchSpaceMethods.groupProg.addDistributions single } : SCalls) = addCalls single := rfl
  have key : ∀ (sidOpt : Option Nat) (S : List TState), (∀ s, S.contains s = groupOfInterest ip s) →
      let env0 : SEnv := { SEnv.mk' { SIn.init trials sid with stale := stale, single := single }
          ⟨sidOpt, ip, none, 0, gs⟩ with states := some S }
      ∃ env', loopAux (fun e => exec (spaceSem (addCalls single)) gaddBody e)
          ((trials.filter (fun t => S.contains t.state)).map (fun t => fun (e : SEnv) => { e with trial := some t })) env0 = (env', .next) ∧
        env'.obj = ⟨sidOpt, ip, none, 0, (trials.filter (fun t => groupOfInterest ip t.state)).foldl
          (fun gs t => SearchSpace.addDistributions gs t.dists) gs⟩ := by
    intro sidOpt S hS env0
    obtain ⟨env', h1, h2⟩ := gadd_loop single (trials.filter (fun t => S.contains t.state)) env0
    refine ⟨env', h1, ?_⟩
    rw [h2]
    have : trials.filter (fun t => S.contains t.state) = trials.filter (fun t => groupOfInterest ip t.state) := by
      apply List.filter_congr; intro t _; exact hS t.state
    rw [this]
    rfl
  have hS : ∀ s, (if ip then [TState.complete, TState.pruned] else [TState.complete]).contains s = groupOfInterest ip s := by
    intro s; cases ip <;> rfl
  simp only [interpGroupCalculate, SearchSpaceMethods.groupProg, groupCalculate_shape]
  simp only [addCalls] at key
  cases st with
  | none =>
    cases ip with
    | false =>
      obtain ⟨env', h1, h2⟩ := key (some sid) [.complete] (hS)
      simp only [block, exec, andThen, spaceSem_cond, spaceSem_act, spaceSem_iter, spaceSem_retv, evalSCond, doSAct, iterS,
        SEnv.mk', SIn.init, objOfGCalc, Option.isNone, if_false, Bool.false_eq_true] at h1 ⊢
      rw [h1]
      simp [retS, h2, gcalcOfObj, finishGroups, GCalc.calculate, exceptOfGOut]
    | true =>
      obtain ⟨env', h1, h2⟩ := key (some sid) [.complete, .pruned] (hS)
      simp only [block, exec, andThen, spaceSem_cond, spaceSem_act, spaceSem_iter, spaceSem_retv, evalSCond, doSAct, iterS,
        SEnv.mk', SIn.init, objOfGCalc, Option.isNone, if_false, Bool.false_eq_true] at h1 ⊢
      rw [h1]
      simp [retS, h2, gcalcOfObj, finishGroups, GCalc.calculate, exceptOfGOut]
  | some x =>
    by_cases hx : x = sid
    · subst hx
      cases ip with
      | false =>
        obtain ⟨env', h1, h2⟩ := key (some x) [.complete] (hS)
        simp only [block, exec, andThen, spaceSem_cond, spaceSem_act, spaceSem_iter, spaceSem_retv, evalSCond, doSAct, iterS,
          SEnv.mk', SIn.init, objOfGCalc, Option.isNone, if_false, Bool.false_eq_true, bne_self_eq_false] at h1 ⊢
        rw [h1]
        simp [retS, h2, gcalcOfObj, finishGroups, GCalc.calculate, exceptOfGOut]
      | true =>
        obtain ⟨env', h1, h2⟩ := key (some x) [.complete, .pruned] (hS)
        simp only [block, exec, andThen, spaceSem_cond, spaceSem_act, spaceSem_iter, spaceSem_retv, evalSCond, doSAct, iterS,
          SEnv.mk', SIn.init, objOfGCalc, Option.isNone, if_false, Bool.false_eq_true, bne_self_eq_false] at h1 ⊢
        rw [h1]
        simp [retS, h2, gcalcOfObj, finishGroups, GCalc.calculate, exceptOfGOut]
    · have hne : (some x != some sid) = true := by simp [hx]
      simp [block, exec, andThen, evalSCond, SEnv.mk', SIn.init, objOfGCalc, gcalcOfObj, finishGroups, GCalc.calculate,
        exceptOfGOut, hne]
example : (interpGroupCalculate SearchSpaceMethods.groupProg (fun _ => false) (GCalc.init true) 7
    [⟨0, .complete, [("x", 1), ("y", 2)]⟩, ⟨1, .running, [("w", 1)]⟩, ⟨2, .pruned, [("x", 1)]⟩, ⟨3, .fail, [("v", 1)]⟩] []).2 =
    .ok [[("x", 1)], [("y", 2)]] := by decide

/-! ## histories over the generated calculators -/

/-- `__init__`: `_cached_trial_number = -1`, `_search_space = None`, `_study_id = None` (both classes),
`_SearchSpaceGroup._search_spaces = []` -/
theorem init_facts :
    SearchSpaceMethods.interProg.cursorInit = SearchSpace.SearchSpaceCode.cursorInit ∧
    SearchSpaceMethods.interProg.initSpaceNone = true ∧ SearchSpaceMethods.interProg.initStudyNone = true ∧
    SearchSpaceMethods.groupProg.initGroupsEmpty = true ∧ SearchSpaceMethods.groupProg.initStudyNone = true :=
  ⟨rfl, rfl, rfl, rfl, rfl⟩

/-- **genImpl_eq**: the two calculators (and their constructors) as the interpreter of the methods generated from the
source are the hand model's calculators, whatever `single()` answers -/
theorem genImpl_eq (single : Nat → Bool) :
    genImpl SearchSpaceMethods.interProg SearchSpaceMethods.groupProg single = handImpl := by
  simp only [genImpl, handImpl]
  congr 1
  · funext c sid trials
    simp only [interp_objCalculate]
    generalize c.calculate sid trials = r
    obtain ⟨c', o⟩ := r
    cases o <;> rfl
  · funext c sid trials
    simp only [interp_groupCalculate]
    generalize c.calculate sid trials = r
    obtain ⟨c', o⟩ := r
    cases o <;> rfl

theorem stepW_hand (sid : Nat) (s : Sys) (st : Step) : stepW handImpl sid s st = step sid s st := by
  cases st <;> rfl

theorem afterW_hand (sid : Nat) (s : Sys) (h : List Step) : afterW handImpl sid s h = after sid s h := by
  simp only [afterW, after, stepW_hand]

/-- one step / a whole history of (study, intersection calculator, group calculator) with both calculators run by the
interpreter of the GENERATED methods -/
def genStep (single : Nat → Bool) (sid : Nat) (s : Sys) (st : Step) : Sys × Out :=
  stepW (genImpl SearchSpaceMethods.interProg SearchSpaceMethods.groupProg single) sid s st

def genRun (single : Nat → Bool) (sid : Nat) (ipI ipG : Bool) (h : List Step) : Sys :=
  afterW (genImpl SearchSpaceMethods.interProg SearchSpaceMethods.groupProg single) sid
    (initW (genImpl SearchSpaceMethods.interProg SearchSpaceMethods.groupProg single) ipI ipG) h

theorem genStep_eq (single : Nat → Bool) (sid : Nat) (s : Sys) (st : Step) : genStep single sid s st = step sid s st := by
  rw [genStep, genImpl_eq, stepW_hand]

/-- **genRun_eq**: that history is the hand model's — for every list of steps -/
theorem genRun_eq (single : Nat → Bool) (sid : Nat) (ipI ipG : Bool) (h : List Step) :
    genRun single sid ipI ipG h = C17.run sid ipI ipG h := by
  rw [genRun, genImpl_eq, afterW_hand]; rfl

/-! ## the theorems of C17 hold of the generated methods -/

/-- **gen_incremental_eq_scratch**: whatever happened before (trials created, written, finished, pruned or failed in any
order — in particular finishing out of order —, earlier calls at any points, calls with other studies), whenever the
generated `IntersectionSearchSpace.calculate` returns, it returns exactly what the generated `intersection_search_space`
computes from scratch on the current trials (both values of `include_pruned`). -/
theorem gen_incremental_eq_scratch (single : Nat → Bool) (sid : Nat) (ipI ipG : Bool) (h : List Step) (r : Dists)
    (hr : (genStep single sid (genRun single sid ipI ipG h) .callI).2 = .result r) :
    interpFunctional SearchSpaceMethods.interProg (genRun single sid ipI ipG h).trials ipI = .ok r := by
  rw [genStep_eq, genRun_eq] at hr
  rw [interp_functional, genRun_eq, ← C17.incremental_eq_scratch sid ipI ipG h r hr]

theorem gen_incremental_eq_scratch_include_pruned (single : Nat → Bool) (sid : Nat) (ipG : Bool) (h : List Step) (r : Dists)
    (hr : (genStep single sid (genRun single sid true ipG h) .callI).2 = .result r) :
    interpFunctional SearchSpaceMethods.interProg (genRun single sid true ipG h).trials true = .ok r :=
  gen_incremental_eq_scratch single sid true ipG h r hr

/-- **gen_scratch_is_intersection** (order independence): the generated `intersection_search_space` returns exactly the
items every COMPLETE (and PRUNED iff `include_pruned`) trial has, sorted by name, each name once — a description in which
neither the order of the trials nor the order in which they finished occurs. -/
theorem gen_scratch_is_intersection (trials : List Trial) (ip : Bool) (hwf : WF trials) :
    ∃ d, interpFunctional SearchSpaceMethods.interProg trials ip = .ok d ∧ d.Pairwise (fun p q => p.1 < q.1) ∧
      ∀ p, p ∈ d ↔
        (∃ t ∈ trials, t.state = .complete ∨ (t.state = .pruned ∧ ip = true)) ∧
        ∀ t ∈ trials, (t.state = .complete ∨ (t.state = .pruned ∧ ip = true)) → AList.get? t.dists p.1 = some p.2 :=
  ⟨_, interp_functional trials ip, C17.scratch_sorted_unique trials ip hwf, C17.scratch_is_intersection trials ip hwf⟩

/-- **gen_never_grows**: once a finished trial of interest exists, a later answer is a sub-map of an earlier one -/
theorem gen_never_grows (single : Nat → Bool) (sid : Nat) (ipI ipG : Bool) (h1 h2 : List Step) (r1 r2 : Dists)
    (hr1 : (genStep single sid (genRun single sid ipI ipG h1) .callI).2 = .result r1)
    (hest : ∃ t ∈ (genRun single sid ipI ipG h1).trials, t.state = .complete ∨ (t.state = .pruned ∧ ipI = true))
    (hr2 : (genStep single sid (afterW (genImpl SearchSpaceMethods.interProg SearchSpaceMethods.groupProg single) sid
      (genStep single sid (genRun single sid ipI ipG h1) .callI).1 h2) .callI).2 = .result r2) :
    ∀ p ∈ r2, p ∈ r1 := by
  rw [genImpl_eq, afterW_hand] at hr2
  simp only [genStep_eq, genRun_eq] at hr1 hest hr2
  exact C17.never_grows sid ipI ipG h1 h2 r1 r2 hr1 hest hr2

/-- **gen_wrong_study_rejected**: a generated calculator bound to one study answers `ValueError` for another and keeps
its state -/
theorem gen_wrong_study_rejected (c : Calc) (sid sid' : Nat) (trials stale : List Trial)
    (h : c.studyId = some sid) (hne : sid' ≠ sid) :
    interpObjCalculate SearchSpaceMethods.interProg c sid' trials stale = (c, .error .valueError) := by
  rw [interp_objCalculate, C17.wrong_study_rejected c sid sid' trials h hne]; rfl

/-- the groups after adding the dicts `ds` one by one with the generated `add_distributions` -/
def genGroups (single : Nat → Bool) (ds : List Dists) : Except Err (List Dists) :=
  ds.foldl (fun acc d => match acc with
    | .ok gs => interpAdd SearchSpaceMethods.addDistributions single gs d
    | .error e => .error e) (.ok [])

theorem genGroups_eq (single : Nat → Bool) (ds : List Dists) :
    genGroups single ds = .ok (ds.foldl SearchSpace.addDistributions []) := by
  unfold genGroups
  generalize ([] : List Dists) = g0
  induction ds generalizing g0 with
  | nil => rfl
  | cons d rest ih =>
    simp only [List.foldl_cons]
    rw [interp_addDistributions]
    exact ih _

/-- **gen_groups_partition**: after any sequence of generated `add_distributions` calls the groups are non-empty dicts,
pairwise disjoint, and together cover exactly the names seen -/
theorem gen_groups_partition (single : Nat → Bool) (ds : List Dists) (hnd : ∀ d ∈ ds, NodupKeys d) :
    ∃ gs, genGroups single ds = .ok gs ∧
      (∀ g ∈ gs, g ≠ []) ∧ (∀ g ∈ gs, (keys g).Nodup) ∧ (gs.map keys).Pairwise List.Disjoint ∧
      ∀ k, (∃ g ∈ gs, k ∈ keys g) ↔ ∃ d ∈ ds, k ∈ keys d :=
  ⟨_, genGroups_eq single ds, C17.groups_partition ds hnd⟩

/-- **gen_groups_canonical** / **gen_trial_is_union_of_groups**: two names share a group exactly when they occur in the
same added dicts; every added dict is a union of groups -/
theorem gen_groups_canonical (single : Nat → Bool) (ds : List Dists) (hnd : ∀ d ∈ ds, NodupKeys d) :
    ∃ gs, genGroups single ds = .ok gs ∧
      (∀ g ∈ gs, ∀ a ∈ keys g, ∀ b, b ∈ keys g ↔ (∃ d ∈ ds, b ∈ keys d) ∧ ∀ d ∈ ds, (a ∈ keys d ↔ b ∈ keys d)) ∧
      (∀ d ∈ ds, ∀ k ∈ keys d, ∃ g ∈ gs, k ∈ keys g ∧ ∀ n ∈ keys g, n ∈ keys d) :=
  ⟨_, genGroups_eq single ds, fun g hg a ha b => C17.groups_canonical ds hnd g hg a ha b,
    fun d hd k hk => C17.trial_is_union_of_groups ds hnd d hd k hk⟩

/-- **gen_groups_order_irrelevant**: the partition does not depend on the order or on repetitions of the added dicts
(incrementally kept groups = groups from scratch, as partitions of names) -/
theorem gen_groups_order_irrelevant (single : Nat → Bool) (ds ds' : List Dists) (hnd : ∀ d ∈ ds, NodupKeys d)
    (hnd' : ∀ d ∈ ds', NodupKeys d) (hsame : ∀ d, d ∈ ds ↔ d ∈ ds') :
    ∃ gs gs', genGroups single ds = .ok gs ∧ genGroups single ds' = .ok gs' ∧
      ∀ g ∈ gs, ∃ g' ∈ gs', ∀ k, k ∈ keys g ↔ k ∈ keys g' :=
  ⟨_, _, genGroups_eq single ds, genGroups_eq single ds',
    fun g hg => C17.groups_order_irrelevant ds ds' hnd hnd' hsame g hg⟩

/-- **gen_groups_history**: after any history, whenever the generated `_GroupDecomposedSearchSpace.calculate` returns, the
groups are non-empty and pairwise disjoint, cover exactly the names of the current COMPLETE (and PRUNED iff
`include_pruned`) trials, every such trial is a union of groups, and two names share a group exactly when they occur in
the same such trials -/
theorem gen_groups_history (single : Nat → Bool) (sid : Nat) (ipI ipG : Bool) (h : List Step) (gs : List Dists)
    (hr : (genStep single sid (genRun single sid ipI ipG h) .callG).2 = .groups gs) :
    let trials := (genRun single sid ipI ipG h).trials
    let ofI := fun (t : Trial) => t.state = .complete ∨ (t.state = .pruned ∧ ipG = true)
    (∀ g ∈ gs, g ≠ []) ∧
    (gs.map keys).Pairwise List.Disjoint ∧
    (∀ k, (∃ g ∈ gs, k ∈ keys g) ↔ ∃ t ∈ trials, ofI t ∧ k ∈ keys t.dists) ∧
    (∀ t ∈ trials, ofI t → ∀ k ∈ keys t.dists, ∃ g ∈ gs, k ∈ keys g ∧ ∀ n ∈ keys g, n ∈ keys t.dists) ∧
    (∀ g ∈ gs, ∀ a ∈ keys g, ∀ b, b ∈ keys g ↔
      (∃ t ∈ trials, ofI t ∧ b ∈ keys t.dists) ∧ ∀ t ∈ trials, ofI t → (a ∈ keys t.dists ↔ b ∈ keys t.dists)) := by
  rw [genStep_eq, genRun_eq] at hr
  rw [genRun_eq]
  exact C17.groups_history sid ipI ipG h gs hr

/-! ## non-vacuity: the histories of `Props/C17.lean` through the generated calculators -/

/-- out-of-order finish: trial 1 finishes after trial 2 and after a call; the next call returns the from-scratch answer -/
example : (genStep (fun _ => false) 0 (genRun (fun _ => false) 0 false false C17.demo1) .callI).2 = .result [("x", 7), ("y", 3)] := by
  rw [genStep_eq, genRun_eq]; decide
example : (genStep (fun _ => false) 0 (genRun (fun _ => false) 0 false false (C17.demo1 ++ [.callI] ++ C17.demo2)) .callI).2 =
    .result [("y", 3)] := by
  rw [genStep_eq, genRun_eq]; decide
example : (genStep (fun _ => false) 0 (genRun (fun _ => false) 0 false false (C17.demo1 ++ [.callI])) (.callForeign 5 [])).2 =
    .valueError := by
  rw [genStep_eq, genRun_eq]; decide
example : genGroups (fun _ => true) [[("a", 1), ("b", 1)], [("b", 1), ("c", 1)]] =
    .ok [[("b", 1)], [("a", 1)], [("c", 1)]] := by decide
example : ∀ d ∈ [[("a", 1), ("b", 1)], [("b", 1), ("c", 1)]], NodupKeys d := by
  intro d hd; simp only [List.mem_cons, List.not_mem_nil, or_false] at hd
  rcases hd with rfl | rfl <;> (unfold NodupKeys keys; decide)
/-- the interpreter itself on a three-call history with an out-of-order finish (no rewriting by `genRun_eq`) -/
example : (genStep (fun _ => false) 0 (genRun (fun _ => false) 0 false false
      [.create .running [("x", 1)], .create .running [("x", 1), ("y", 2)], .setState 1 .complete, .callI, .setState 0 .complete])
      .callI).2 = .result [("x", 1)] ∧
    (genRun (fun _ => false) 0 false false
      [.create .running [("x", 1)], .create .running [("x", 1), ("y", 2)], .setState 1 .complete, .callI]).isp.cursor = 0 := by
  decide

end OptunaVerif.C17Gen
