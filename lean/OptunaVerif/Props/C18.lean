import OptunaVerif.Lemmas.TruncNormBisect
import OptunaVerif.Lemmas.TruncNormMixture
import OptunaVerif.Lemmas.TruncNormGaussian
/-!
# C18 — TPE's numerical kernels agree with the reference distributions (property theorems)

**Partial by nature.**  Lean's `Float` is opaque, so nothing here is about floating point.  What is proved, for
*all* real (resp. rational) arguments:

* the formulas of `_truncnorm.py` — *as re-translated from the source on every run* into
  `Generated/TruncNormGen.lean` — mean what the real-analysis model says (`gen_*` theorems), are free of the
  cancellation-prone forms `log(1 ± e)` / `exp(e) - 1`, and the hand-modelled pieces keep their shape;
* every case of `_log_gauss_mass` equals `log(Φ b − Φ a)`, the case split is total and exclusive;
* both `ppf` branches solve `Φ x = Φ a + q (Φ b − Φ a)`, the solution exists, is unique and lies in `[a, b]`,
  including the `q = 0`, `q = 1` overrides;
* `_bisect` keeps the root in its bracket, halves it every round, and ends within `|b − a| / 2¹⁰¹` of the
  root — and walks to the *wrong* end when the root is outside the bracket (the reported finding);
* `exp(logpdf)` is the truncated density and integrates to one over the truncation interval;
* the discrete truncated normal's cell masses sum to one; log-sum-exp is shift invariant; the mixture
  `log_pdf` never manufactures a NaN thanks to its `-inf` guard (and would without it);
* every argument of `log`/`log1p` is positive in its branch.

`Φ`, `φ` are parameters constrained by `StdNormalLike` (hypotheses, not axioms); `gauss_stdNormalLike` shows the
standard normal itself satisfies them.  **Not covered here** (rests on the numeric tie with SciPy in
`verif/props/c18.py`): rounding, cancellation, the asymptotic series of `_log_ndtr_single` for `a ≤ -20`, the
accuracy of the `erf` rational approximations, and that `_bisect`'s float run follows the rational one.
-/
namespace OptunaVerif.C18
open OptunaVerif OptunaVerif.TruncNorm OptunaVerif.TruncNormIR OptunaVerif.TruncNormQ
open OptunaVerif.Generated.TruncNorm

/-! ## A. the translated source means the modelled formulas -/

section meaning
variable (I : Interp) (env : String → ℝ)

theorem gen_log_sum_meaning : eval I env logSumBody = logaddexp (env "log_p") (env "log_q") := by
  simp only [logSumBody, eval, fn2]

theorem gen_log_diff_meaning : eval I env logDiffBody = logDiff (env "log_p") (env "log_q") := by
  simp only [logDiffBody, eval, fn1, logDiff]

theorem gen_norm_logpdf_meaning : eval I env normLogpdfBody = normLogpdf (env "x") := by
  simp only [normLogpdfBody, eval, fn1, normLogpdf]
  norm_num

theorem gen_mass_left_meaning : eval I env massLeftBody = massLeft I.Φ (env "a") (env "b") := by
  simp only [massLeftBody, eval, fn1, fn2, massLeft]

theorem gen_mass_right_meaning : eval I env massRightBody = massRight I.Φ (env "a") (env "b") := by
  simp only [massRightBody, eval, fn2, massRight]

theorem gen_mass_central_meaning : eval I env massCentralBody = massCentral I.Φ (env "a") (env "b") := by
  simp only [massCentralBody, eval, fn1, massCentral]

theorem gen_ppf_left_meaning :
    eval I env ppfLeftBody = I.inv (ppfLeftTarget I.Φ (env "q") (env "a") (env "b")) := by
  simp only [ppfLeftBody, eval, fn1, fn2, ppfLeftTarget]

theorem gen_ppf_right_meaning :
    eval I env ppfRightBody = -I.inv (ppfRightTarget I.Φ (env "q") (env "a") (env "b")) := by
  simp only [ppfRightBody, eval, fn1, fn2, ppfRightTarget]

/-- `logpdf`: `x = (x - loc) / scale` followed by `_norm_logpdf(x) - _log_gauss_mass(a, b) - np.log(scale)`. -/
theorem gen_logpdf_meaning :
    eval I (fun n => if n = "x" then eval I env logpdfStdBody else env n) logpdfBody
      = logpdfIn I.Φ (env "x") (env "a") (env "b") (env "loc") (env "scale") := by
  simp [logpdfBody, logpdfStdBody, eval, fn1, fn2, logpdfIn]

/-- `_ndtr(a) = 0.5 + 0.5 * erf(a / 2**0.5)` is `Φ`. -/
theorem gen_ndtr_meaning (hE : ErfLike I) : eval I env ndtrBody = I.Φ (env "a") := by
  simp only [ndtrBody, eval, fn1]
  rw [hE.ndtr_eq]
  norm_num

/-- All three arms of `_ndtr_single` compute `Φ(a)` (`x = a / 2**0.5`): the thresholds `±1/√2` only choose
the numerically best form. -/
theorem gen_ndtr_single_arms_agree (hE : ErfLike I) (a : ℝ) :
    ∀ arm ∈ ndtrSingleArms,
      eval I (fun n => if n = "x" then eval I (fun _ => a) ndtrSingleArg else a) arm = I.Φ a := by
  intro arm harm
  simp only [ndtrSingleArms, List.mem_cons, List.not_mem_nil, or_false] at harm
  have hx : eval I (fun _ => a) ndtrSingleArg = a / Real.sqrt 2 := by
    simp only [ndtrSingleArg, eval, fn1]; norm_num
  rcases harm with rfl | rfl | rfl
  · simp only [eval, fn1, if_true, hx]
    rw [hE.erfc_eq, hE.erf_neg, hE.ndtr_eq]; norm_num; ring
  · simp only [eval, fn1, if_true, hx]
    rw [hE.ndtr_eq]; norm_num
  · simp only [eval, fn1, if_true, hx]
    rw [hE.erfc_eq, hE.ndtr_eq]; norm_num; ring

/-- `_log_ndtr_single`, arm `a > -20` (and `≤ 6`): exactly `log Φ(a)`; arm `a > 6`: `-Φ(-a)`, which is within
`2 Φ(-a)²` of `log Φ(a)` as soon as `Φ(-a) ≤ 1/2`.  (The series arm for `a ≤ -20` is not modelled.) -/
theorem gen_log_ndtr_arms {Φ φ : ℝ → ℝ} (h : StdNormalLike Φ φ) (I : Interp) (hI : I.Φ = Φ) (a : ℝ) :
    logNdtrArms.length = 2 ∧
    (∀ arm, logNdtrArms[1]? = some arm → eval I (fun _ => a) arm = Real.log (Φ a)) ∧
    (∀ arm, logNdtrArms[0]? = some arm → Φ (-a) ≤ 1 / 2 →
      |eval I (fun _ => a) arm - Real.log (Φ a)| ≤ 2 * Φ (-a) ^ 2) := by
  refine ⟨rfl, ?_, ?_⟩
  · intro arm harm
    simp only [logNdtrArms, List.getElem?_cons_succ, List.getElem?_cons_zero, Option.some.injEq] at harm
    subst harm
    simp only [eval, fn1, hI]
  · intro arm harm hsmall
    simp only [logNdtrArms, List.getElem?_cons_zero, Option.some.injEq] at harm
    subst harm
    simp only [eval, fn1, hI]
    have hΦ : Φ a = 1 - Φ (-a) := by rw [h.symm]; ring
    rw [hΦ]
    have := log_one_sub_approx hsmall
    rw [abs_le]
    constructor <;> nlinarith [this.1, this.2, sq_nonneg (Φ (-a))]

end meaning

/-- No translated formula contains `log(1 - e)`, `log(1 + e)` or `exp(e) - 1` (they must be `log1p`/`expm1`):
the real-number theorems below cannot see the difference, floating point can. -/
theorem generated_formulas_stable :
    ([logSumBody, logDiffBody, ndtrBody, normLogpdfBody, ndtrSingleArg, massLeftBody, massRightBody,
      massCentralBody, ppfLeftBody, ppfRightBody, logpdfStdBody, logpdfBody] ++ ndtrSingleArms ++ logNdtrArms).all
      E.stable = true := by
  decide

/-- The parts of the source that are modelled by hand (`_bisect`'s loop, the asymptotic series, the `erf`
arms, the masks-and-writes glue of `_log_gauss_mass`/`ppf`/`logpdf`, the mixture's `log_pdf`/`sample`) still
have exactly the shape that was modelled; write order of the mass cases, `ppf`/`logpdf` overrides, the
iteration count and the bracket are the modelled ones.  (`mixture_sample` is the shape after the repair of F33:
the continuous branch of `sample` clips `_truncnorm.rvs(..)` to `[low, high]` like the stepped branch; the
projection itself is C10's `tpe_cont_in_domain`.) -/
theorem generated_shapes_are_the_modelled_ones :
    shapeHashes = [("bisect", "bd62530edcb3cb80"), ("erf_big", "a5f00070375737c4"), ("erf_glue", "124e949a44124265"),
      ("erf_med1", "f59f7942102ae0f5"), ("erf_med2", "5bd60963e2666503"), ("erf_small1", "928f58957e479182"),
      ("erf_small2", "ba4f78e4e05d78b8"), ("erf_tiny", "2ccff60f15fc8d56"), ("log_ndtr_series", "edca02462e2d8619"),
      ("logpdf_glue", "8b03b6c9c5bf5ba4"), ("mass_glue", "80a0e62238c29a14"), ("mixture_head", "261dc16b8b0b5351"),
      ("mixture_sample", "1557041d534e0161"), ("mixture_tail", "704fb8a0970e4317"), ("ppf_glue", "0a98ea399d3786b4"),
      ("rvs_glue", "c0736685d1203f10")]
    ∧ massAssignOrder = ["left:left", "right:right", "central:central"]
    ∧ ppfOverrides = ["q==0:a", "q==1:b", "a==b:math.nan"]
    ∧ logpdfOverrides = ["(x < a) | (b < x):-np.inf", "a == b:math.nan"]
    ∧ bisectIters = 100 ∧ bracketLo = -100 ∧ bracketHi = 100
    ∧ logNdtrConds = [⟨"a", .gt, 6⟩, ⟨"a", .gt, -20⟩] := by
  decide

/-- The `|x|`-ranges of `erf`'s six arms tile `[0, ∞)`: each arm starts where the previous one ends, the first
has no lower and the last no upper bound, and the cut points increase. -/
theorem erf_cases_partition :
    erfCaseNames = ["tiny", "small1", "small2", "med1", "med2", "big"] ∧
    erfCaseBounds.length = 6 ∧
    (erfCaseBounds.head?.map Prod.fst = some none) ∧ (erfCaseBounds.getLast?.map Prod.snd = some none) ∧
    (erfCaseBounds.zip erfCaseBounds.tail).all (fun p => p.1.2 == p.2.1 && p.1.2.isSome) = true ∧
    (erfCaseBounds.all fun p => match p with | (some l, some u) => decide (l < u) | _ => true) = true := by
  decide +kernel

/-- Consequently every finite `|x|` is in exactly one arm (`findCase` returns an index `< 6`). -/
theorem erf_case_total (x : Rat) : findCase x erfCaseBounds < 6 := by
  simp only [erfCaseBounds, findCase, inBounds, Bool.true_and, Bool.and_true, Bool.and_eq_true, decide_eq_true_eq]
  split_ifs <;> first | omega | (exfalso; simp only [not_and, not_lt, not_le] at *; grind)

/-- The cut points of `|x|` are the ones of fdlibm's `s_erf.c` as the source writes them:
`2**-28`, `0.84375`, `1.25`, `1/0.35` (as rounded by float division) and `6`. -/
theorem erf_cut_points :
    erfCaseBounds.map Prod.snd =
      [some (1 / 2 ^ 28), some (27 / 32), some (5 / 4), some (6433713753386423 / 2251799813685248), some 6, none] := by
  decide +kernel

/-- `_ndtr_single`: which arm runs, in exact arithmetic on `x = a/√2` against the *float* thresholds
`∓1/2**0.5` of the source: `0.5*erfc(-x)` for `a ≤ -1 - 2⁻⁵⁰`, `0.5 + 0.5*erf(x)` for
`-1 + 2⁻⁵⁰ ≤ a ≤ 1 - 2⁻⁵⁰`, `1 - 0.5*erfc(x)` for `a ≥ 1 + 2⁻⁵⁰` (inside the two `2⁻⁵⁰` bands rounding decides). -/
theorem ndtr_single_case_split (a : Rat) :
    (a ≤ -1 - 1 / 2 ^ 50 → ndtrSingleCase a = 0) ∧
    (-1 + 1 / 2 ^ 50 ≤ a → a ≤ 1 - 1 / 2 ^ 50 → ndtrSingleCase a = 1) ∧
    (1 + 1 / 2 ^ 50 ≤ a → ndtrSingleCase a = 2) := by
  have cmp_lt : ∀ {x y : Rat}, x < y → cmpRat x y = .lt := fun h => by simp [cmpRat, h]
  have cmp_gt : ∀ {x y : Rat}, y < x → cmpRat x y = .gt := fun h => by
    simp [cmpRat, not_lt.mpr h.le, ne_of_gt h]
  have ht1 : ¬ ((-1592262918131443 / 2251799813685248 : ℚ) ≥ 0) := by norm_num
  have ht2 : (1592262918131443 / 2251799813685248 : ℚ) ≥ 0 := by norm_num
  simp only [ndtrSingleCase, ndtrSingleCase.go, ndtrSingleConds, evalOrd, cmpDivSqrt2, ht1, ht2, if_true, if_false]
  refine ⟨fun h => ?_, fun h1 h2 => ?_, fun h => ?_⟩
  · have ha : ¬ a ≥ 0 := by linarith
    have hsq : (2 : ℚ) * (-1592262918131443 / 2251799813685248) * (-1592262918131443 / 2251799813685248) < a * a := by
      nlinarith
    simp [ha, cmp_lt hsq]
  · by_cases ha : a < 0
    · have ha' : ¬ a ≥ 0 := by linarith
      have hsq : a * a < (2 : ℚ) * (-1592262918131443 / 2251799813685248) * (-1592262918131443 / 2251799813685248) := by
        nlinarith
      simp [ha, ha', cmp_gt hsq]
    · have ha' : a ≥ 0 := not_lt.mp ha
      have hsq : a * a < (2 : ℚ) * (1592262918131443 / 2251799813685248) * (1592262918131443 / 2251799813685248) := by
        nlinarith
      simp [ha, ha', cmp_lt hsq]
  · have ha : ¬ a < 0 := by linarith
    have ha' : a ≥ 0 := by linarith
    have hsq : (2 : ℚ) * (1592262918131443 / 2251799813685248) * (1592262918131443 / 2251799813685248) < a * a := by
      nlinarith
    simp [ha, ha', cmp_gt hsq]

/-! ## B. `_log_gauss_mass` -/

section mass
variable {Φ φ : ℝ → ℝ}

/-- Environment of a translated formula: the named arguments. -/
def envOf (l : List (String × ℝ)) : String → ℝ := fun n => ((l.find? fun p => p.1 == n).map Prod.snd).getD 0

/-- **Every case formula equals `log(Φ b − Φ a)`** (for every `a < b`, not only in its own case): the case
split only chooses the numerically best of three equal expressions. -/
theorem log_gauss_mass_cases_equal (h : StdNormalLike Φ φ) (I : Interp) (hI : I.Φ = Φ) {a b : ℝ} (hab : a < b) :
    let env := envOf [("a", a), ("b", b)]
    eval I env massLeftBody = Real.log (Φ b - Φ a) ∧
    eval I env massRightBody = Real.log (Φ b - Φ a) ∧
    eval I env massCentralBody = Real.log (Φ b - Φ a) := by
  intro env
  have ha : env "a" = a := by simp [env, envOf]
  have hb : env "b" = b := by simp [env, envOf]
  rw [gen_mass_left_meaning, gen_mass_right_meaning, gen_mass_central_meaning, ha, hb, hI]
  exact ⟨massLeft_eq h hab, massRight_eq h hab, massCentral_eq h a b⟩

/-- **The case split is total and exclusive** (executable model with the generated conditions `b <= 0`,
`a > 0`): for `a < b` exactly one of left (`b ≤ 0`), right (`0 < a`), central (`a ≤ 0 < b`). -/
theorem log_gauss_mass_cases_total (a b : Rat) (hab : a < b) :
    (massCase (.fin a) (.fin b) = .left ↔ b ≤ 0) ∧
    (massCase (.fin a) (.fin b) = .right ↔ 0 < a) ∧
    (massCase (.fin a) (.fin b) = .central ↔ a ≤ 0 ∧ 0 < b) := by
  simp only [massCase, condX, massCaseLeft, massCaseRight, env2, Cmp.evalX, XVal.le, XVal.lt]
  simp only [show ("b" = "a") = False by decide, if_false, if_true, decide_eq_true_eq]
  by_cases h1 : 0 < a
  · have h2 : ¬ b ≤ 0 := by linarith
    simp [h1, h2]
  · by_cases h2 : b ≤ 0
    · simp [h1, h2]
    · have ha : a ≤ 0 := not_lt.mp h1
      have hb : 0 < b := not_le.mp h2
      simp [h1, h2, ha, hb]

/-- One-sided intervals: `a = -∞` is left or central, `b = +∞` is right or central, `(-∞, ∞)` is central. -/
theorem log_gauss_mass_cases_one_sided (x : Rat) :
    (massCase .ninf (.fin x) = if x ≤ 0 then .left else .central) ∧
    (massCase (.fin x) .pinf = if 0 < x then .right else .central) ∧
    massCase .ninf .pinf = .central := by
  simp only [massCase, condX, massCaseLeft, massCaseRight, env2, Cmp.evalX, XVal.le, XVal.lt]
  simp only [show ("b" = "a") = False by decide, if_false, if_true]
  refine ⟨?_, ?_, by simp⟩
  · by_cases h : x ≤ 0 <;> simp [h]
  · by_cases h : 0 < x <;> simp [h]

/-- The hand-written real-number `logGaussMass` takes, at rational (= float) arguments, exactly the branch the
executable model takes with the generated conditions, and evaluates the generated formula of that branch. -/
theorem log_gauss_mass_follows_model (I : Interp) (a b : Rat) :
    logGaussMass I.Φ a b =
      match massCase (.fin a) (.fin b) with
      | .left => eval I (envOf [("a", a), ("b", b)]) massLeftBody
      | .right => eval I (envOf [("a", a), ("b", b)]) massRightBody
      | .central => eval I (envOf [("a", a), ("b", b)]) massCentralBody := by
  have ha : envOf [("a", (a : ℝ)), ("b", (b : ℝ))] "a" = a := by simp [envOf]
  have hb : envOf [("a", (a : ℝ)), ("b", (b : ℝ))] "b" = b := by simp [envOf]
  simp only [massCase, condX, massCaseLeft, massCaseRight, env2, Cmp.evalX, XVal.le, XVal.lt]
  simp only [show ("b" = "a") = False by decide, if_false, if_true, decide_eq_true_eq]
  unfold logGaussMass
  by_cases h1 : (0 : ℚ) < a
  · have h1' : (0 : ℝ) < a := by exact_mod_cast h1
    simp only [h1, h1', if_true, gen_mass_right_meaning, ha, hb]
  · have h1' : ¬ (0 : ℝ) < a := by exact_mod_cast h1
    by_cases h2 : b ≤ (0 : ℚ)
    · have h2' : (b : ℝ) ≤ 0 := by exact_mod_cast h2
      simp only [h1, h1', h2, h2', if_true, if_false, gen_mass_left_meaning, ha, hb]
    · have h2' : ¬ (b : ℝ) ≤ 0 := by exact_mod_cast h2
      simp only [h1, h1', h2, h2', if_false, gen_mass_central_meaning, ha, hb]

/-- Hence `_log_gauss_mass(a, b) = log(Φ b − Φ a)` for all `a < b`. -/
theorem log_gauss_mass_cases_total_and_equal (h : StdNormalLike Φ φ) {a b : ℝ} (hab : a < b) :
    logGaussMass Φ a b = Real.log (Φ b - Φ a) ∧ 0 < Φ b - Φ a :=
  ⟨logGaussMass_eq h hab, mass_pos h hab⟩

/-- One-sided intervals, with the IEEE conventions `Φ(-∞) = 0`, `exp(-∞) = 0` written out: the left-case
formula with `a = -∞` is `log Φ(b) + log1p(-0)`, the right-case formula with `b = +∞` is
`log Φ(-a) + log1p(-0)`, the central formula is `log1p(-Φ(a) - 0)`, `log1p(-0 - Φ(-b))` or `log1p(-0 - 0)`;
each equals the log of the one-sided mass. -/
theorem log_gauss_mass_one_sided (h : StdNormalLike Φ φ) (a b : ℝ) :
    Real.log (Φ b) + log1p (-(0 : ℝ)) = Real.log (Φ b - 0) ∧
    Real.log (Φ (-a)) + log1p (-(0 : ℝ)) = Real.log (1 - Φ a) ∧
    log1p (-Φ a - 0) = Real.log (1 - Φ a) ∧
    log1p (-0 - Φ (-b)) = Real.log (Φ b - 0) ∧
    log1p (-(0 : ℝ) - 0) = Real.log (1 - 0) ∧
    0 < Φ b - 0 ∧ 0 < 1 - Φ a := by
  refine ⟨by simp [log1p], ?_, ?_, ?_, by simp [log1p], by linarith [h.pos b], by linarith [h.lt_one a]⟩
  · rw [h.symm a]; simp [log1p]
  · unfold log1p; congr 1; ring
  · unfold log1p; rw [h.symm b]; congr 1; ring

end mass

/-! ## C. `ppf` -/

section ppf
variable {Φ φ : ℝ → ℝ}

/-- What `_ndtri_exp` is assumed to do in the real-number model: invert `log ∘ Φ` wherever an inverse exists
(`_bisect`'s own theorems are in section D). -/
def InvertsLogCdf (I : Interp) : Prop := ∀ y, (∃ x, Real.log (I.Φ x) = y) → Real.log (I.Φ (I.inv y)) = y

/-- **Both branch formulas solve `Φ x = Φ a + q (Φ b − Φ a)`** (the translated `ppf_left` for `0 < q`, the
translated `ppf_right` for `q < 1`; for *every* `a < b`, whichever side of 0). -/
theorem ppf_formula_inverts_cdf (h : StdNormalLike Φ φ) (I : Interp) (hI : I.Φ = Φ) (hinv : InvertsLogCdf I)
    {q a b : ℝ} (hab : a < b) (hq0 : 0 ≤ q) (hq1 : q ≤ 1) :
    let env := envOf [("q", q), ("a", a), ("b", b)]
    (0 < q → Φ (eval I env ppfLeftBody) = Φ a + q * (Φ b - Φ a)) ∧
    (q < 1 → Φ (eval I env ppfRightBody) = Φ a + q * (Φ b - Φ a)) := by
  intro env
  have hqv : env "q" = q := by simp [env, envOf]
  have ha : env "a" = a := by simp [env, envOf]
  have hb : env "b" = b := by simp [env, envOf]
  have hM := mass_pos h hab
  subst hI
  constructor
  · intro hq
    rw [gen_ppf_left_meaning, hqv, ha, hb, ppfLeftTarget_eq h hab hq]
    have hpos := target_pos h hab hq0
    obtain ⟨x, hx, _⟩ := quantile_existsUnique h hab hq0 hq1
    have := hinv (Real.log (I.Φ a + q * (I.Φ b - I.Φ a))) ⟨x, by rw [hx]⟩
    exact Real.log_injOn_pos (Set.mem_Ioi.mpr (h.pos _)) (Set.mem_Ioi.mpr hpos) this
  · intro hq
    rw [gen_ppf_right_meaning, hqv, ha, hb, ppfRightTarget_eq h hab hq]
    have hpos : 0 < I.Φ (-b) + (1 - q) * (I.Φ b - I.Φ a) :=
      add_pos_of_pos_of_nonneg (h.pos _) (mul_nonneg (by linarith) hM.le)
    -- the target is Φ(-x*) for the quantile x*
    obtain ⟨x, hx, _⟩ := quantile_existsUnique h hab hq0 hq1
    have hx' : I.Φ (-x) = I.Φ (-b) + (1 - q) * (I.Φ b - I.Φ a) := by
      rw [h.symm x, h.symm b, hx]; ring
    have := hinv (Real.log (I.Φ (-b) + (1 - q) * (I.Φ b - I.Φ a))) ⟨-x, by rw [hx']⟩
    have hy := Real.log_injOn_pos (Set.mem_Ioi.mpr (h.pos _)) (Set.mem_Ioi.mpr hpos) this
    rw [h.symm, hy, h.symm b]; ring

/-- The quantile exists, is unique, and lies in `[a, b]` (strictly inside for `0 < q < 1`). -/
theorem quantile_exists_unique_in_interval (h : StdNormalLike Φ φ) {q a b : ℝ} (hab : a < b)
    (hq0 : 0 ≤ q) (hq1 : q ≤ 1) :
    ∃! x, Φ x = Φ a + q * (Φ b - Φ a) ∧ a ≤ x ∧ x ≤ b ∧ (0 < q → q < 1 → a < x ∧ x < b) := by
  obtain ⟨x, hx, huniq⟩ := quantile_existsUnique h hab hq0 hq1
  refine ⟨x, ⟨hx, (quantile_mem h hab hq0 hq1 hx).1, (quantile_mem h hab hq0 hq1 hx).2,
    fun h0 h1 => quantile_mem_strict h hab h0 h1 hx⟩, fun y hy => huniq y hy.1⟩

/-- The value of `ppf` for float (= rational) arguments: the branch chosen by the executable model
(`a == b → nan`, `q == 1 → b`, `q == 0 → a`, `a < 0 → ppf_left`, else `ppf_right`), with the translated
formulas. -/
noncomputable def ppfValue (I : Interp) (q a b : Rat) : Option ℝ :=
  let env := envOf [("q", (q : ℝ)), ("a", (a : ℝ)), ("b", (b : ℝ))]
  match ppfCase q (.fin a) (.fin b) with
  | .nan => none
  | .hi => some b
  | .lo => some a
  | .left => some (eval I env ppfLeftBody)
  | .right => some (eval I env ppfRightBody)

/-- **`a ≤ ppf(q) ≤ b` and `Φ(ppf q) = Φ a + q (Φ b − Φ a)` for every `q ∈ [0, 1]`**, overrides included. -/
theorem ppf_in_interval (h : StdNormalLike Φ φ) (I : Interp) (hI : I.Φ = Φ) (hinv : InvertsLogCdf I)
    (q a b : Rat) (hab : a < b) (hq0 : 0 ≤ q) (hq1 : q ≤ 1) :
    ∃ x, ppfValue I q a b = some x ∧ (a : ℝ) ≤ x ∧ x ≤ b ∧ Φ x = Φ a + q * (Φ b - Φ a) := by
  have habR : (a : ℝ) < b := by exact_mod_cast hab
  have hq0R : (0 : ℝ) ≤ q := by exact_mod_cast hq0
  have hq1R : (q : ℝ) ≤ 1 := by exact_mod_cast hq1
  have hne : XVal.eqB (.fin a) (.fin b) = false := by
    simp [XVal.eqB, ne_of_lt hab]
  have key := ppf_formula_inverts_cdf h I hI hinv habR hq0R hq1R
  simp only at key
  unfold ppfValue ppfCase
  simp only [hne, Bool.false_eq_true, if_false]
  by_cases h1 : q = 1
  · subst h1
    refine ⟨b, by simp, habR.le, le_refl _, by push_cast; ring⟩
  · by_cases h0 : q = 0
    · subst h0
      refine ⟨a, by simp, le_refl _, habR.le, by push_cast; ring⟩
    · have hq0' : (0 : ℝ) < q := lt_of_le_of_ne hq0R (by exact_mod_cast Ne.symm h0)
      have hq1' : (q : ℝ) < 1 := lt_of_le_of_ne hq1R (by exact_mod_cast h1)
      simp only [beq_iff_eq, h1, h0, if_false]
      by_cases hc : condX ppfCaseLeft (env2 (.fin a) (.fin b)) = true
      · simp only [hc, if_true]
        have hx := key.1 hq0'
        exact ⟨_, rfl, (quantile_mem h habR hq0R hq1R hx).1, (quantile_mem h habR hq0R hq1R hx).2, hx⟩
      · simp only [hc]
        have hx := key.2 hq1'
        exact ⟨_, rfl, (quantile_mem h habR hq0R hq1R hx).1, (quantile_mem h habR hq0R hq1R hx).2, hx⟩

/-- **Which `ppf` branch**: for `a < b` and `q ∉ {0, 1}`, `ppf_left` exactly when `a < 0`, else `ppf_right`;
a left-open interval always goes left. -/
theorem ppf_case_split (q a b : Rat) (hab : a < b) (hq0 : q ≠ 0) (hq1 : q ≠ 1) :
    (ppfCase q (.fin a) (.fin b) = .left ↔ a < 0) ∧ (ppfCase q (.fin a) (.fin b) = .right ↔ 0 ≤ a) ∧
    ppfCase q .ninf (.fin b) = .left ∧ (ppfCase q (.fin a) .pinf = if a < 0 then .left else .right) := by
  simp only [ppfCase, XVal.eqB, condX, ppfCaseLeft, env2, Cmp.evalX, XVal.lt, beq_iff_eq, hq0, hq1,
    if_false, if_true, decide_eq_true_eq, reduceCtorEq]
  by_cases h : a < 0
  · simp [h, ne_of_lt hab, not_le.mpr h]
  · simp [h, ne_of_lt hab, not_lt.mp h]

/-- The targets handed to `_ndtri_exp` lie between `log Φ(a)` and `log Φ(b)` (left) resp. `log Φ(-b)` and
`log Φ(-a)` (right), i.e. inside the range of `log ∘ Φ` on the interval: bisection has a root to find. -/
theorem ppf_targets_in_range (h : StdNormalLike Φ φ) {q a b : ℝ} (hab : a < b) (hq0 : 0 < q) (hq1 : q < 1) :
    Real.log (Φ a) < ppfLeftTarget Φ q a b ∧ ppfLeftTarget Φ q a b < Real.log (Φ b) ∧
    Real.log (Φ (-b)) < ppfRightTarget Φ q a b ∧ ppfRightTarget Φ q a b < Real.log (Φ (-a)) := by
  have hM := mass_pos h hab
  rw [ppfLeftTarget_eq h hab hq0, ppfRightTarget_eq h hab hq1]
  have hqM : 0 < q * (Φ b - Φ a) := mul_pos hq0 hM
  have hqM' : 0 < (1 - q) * (Φ b - Φ a) := mul_pos (by linarith) hM
  refine ⟨Real.log_lt_log (h.pos a) (by linarith), Real.log_lt_log (by linarith [h.pos a]) (by nlinarith),
    Real.log_lt_log (h.pos _) (by linarith), Real.log_lt_log (by linarith [h.pos (-b)]) ?_⟩
  rw [h.symm a, h.symm b]; nlinarith

end ppf

/-! ## D. `_bisect` / `_ndtri_exp_single` (executable model over ℚ, real-valued function via the oracle) -/

/-- **Bracket invariant**: for a strictly increasing `f` with a root of `f x = c` in `[a, b]`, after any
number `n` of rounds the bracket still contains the root and has width `(b − a) / 2ⁿ`. -/
theorem bisect_bracket_invariant (f : ℝ → ℝ) (hf : StrictMono f) (c xs : ℝ) (hx : f xs = c)
    (below : Rat → Bool) (hb : ∀ m : ℚ, below m = true ↔ f m < c)
    (n : Nat) (a b : Rat) (ha : (a : ℝ) ≤ xs) (hbx : xs ≤ (b : ℝ)) :
    ((bracket below n a b).1 : ℝ) ≤ xs ∧ xs ≤ ((bracket below n a b).2 : ℝ) ∧
      (bracket below n a b).2 - (bracket below n a b).1 = (b - a) / 2 ^ n :=
  ⟨(bracket_contains_root_mono f hf c xs hx below hb n a b ha hbx).1,
   (bracket_contains_root_mono f hf c xs hx below hb n a b ha hbx).2, bracket_width below n a b⟩

/-- The same when the code had to swap the ends (`f(a) > c`, decreasing `f`). -/
theorem bisect_bracket_invariant_swapped (f : ℝ → ℝ) (hf : StrictAnti f) (c xs : ℝ) (hx : f xs = c)
    (below : Rat → Bool) (hb : ∀ m : ℚ, below m = true ↔ f m < c)
    (n : Nat) (a b : Rat) (ha : xs ≤ (a : ℝ)) (hbx : (b : ℝ) ≤ xs) :
    ((bracket below n a b).2 : ℝ) ≤ xs ∧ xs ≤ ((bracket below n a b).1 : ℝ) :=
  bracket_contains_root_anti f hf c xs hx below hb n a b ha hbx

/-- **`_ndtri_exp_single`** with the *generated* iteration count (100) and bracket (−100, 100): if the root
lies in the bracket, the returned value is within `200 / 2¹⁰¹` of it. -/
theorem ndtri_exp_error (f : ℝ → ℝ) (hf : StrictMono f) (c xs : ℝ) (hx : f xs = c)
    (above below : Rat → Bool) (ha : ∀ m : ℚ, above m = true ↔ c < f m) (hb : ∀ m : ℚ, below m = true ↔ f m < c)
    (hlo : (-100 : ℝ) ≤ xs) (hhi : xs ≤ 100) :
    |((ndtriExp above below : ℚ) : ℝ) - xs| ≤ 200 / 2 ^ 101 := by
  have hno : above bracketLo = false := by
    cases hab : above bracketLo with
    | false => rfl
    | true =>
      have h1 := (ha _).mp hab
      have h2 : f ((bracketLo : ℚ) : ℝ) ≤ f xs := hf.monotone (by simp only [bracketLo]; push_cast; linarith)
      linarith
  unfold ndtriExp bisect
  simp only [hno, Bool.false_eq_true, if_false]
  have := bisectLoop_error_mono f hf c xs hx below hb bisectIters bracketLo bracketHi
    (by simp only [bracketLo]; push_cast; linarith) (by simp only [bracketHi]; push_cast; linarith)
  simp only [bracketLo, bracketHi, bisectIters] at this ⊢
  push_cast at this
  norm_num at this ⊢
  exact this

/-- **The reported finding, in the model**: when the target is *below* `f(a)` for an increasing `f` (the true
quantile lies left of the bracket), `_bisect` swaps its ends and returns a point within `(b−a)/2ⁿ⁺¹` of the
*far* end `b` — `ppf(0.9, 99.99, ∞)` gives `-100`. -/
theorem bisect_root_outside_bracket_wrong_end (f : ℝ → ℝ) (hf : Monotone f) (c : ℝ)
    (above below : Rat → Bool) (ha : ∀ m : ℚ, above m = true ↔ c < f m) (hb : ∀ m : ℚ, below m = true ↔ f m < c)
    (n : Nat) (a b : Rat) (hab : a ≤ b) (hc : c < f a) :
    bisect above below n a b = b - (b - a) / 2 ^ (n + 1) := by
  have hsw : above a = true := (ha a).mpr hc
  unfold bisect
  simp only [hsw, if_true]
  rw [bisectLoop_eq_mid, bracket_target_below f hf c below hb n a b hab hc a (le_refl _) hab]
  simp only
  rw [pow_succ]
  field_simp
  ring

/-! ## E. `logpdf` -/

section logpdf
variable {Φ φ : ℝ → ℝ}

/-- Inside the support, `exp(logpdf)` is the truncated normal density. -/
theorem logpdf_is_truncated_density (h : StdNormalLike Φ φ) (hφ : ∀ z, φ z = Real.exp (normLogpdf z))
    (I : Interp) (hI : I.Φ = Φ) {a b : ℝ} (hab : a < b) (x loc : ℝ) {scale : ℝ} (hs : 0 < scale) :
    let env := envOf [("x", x), ("a", a), ("b", b), ("loc", loc), ("scale", scale)]
    Real.exp (eval I (fun n => if n = "x" then eval I env logpdfStdBody else env n) logpdfBody)
      = φ ((x - loc) / scale) / (scale * (Φ b - Φ a)) := by
  intro env
  rw [gen_logpdf_meaning]
  have e1 : env "x" = x := by simp [env, envOf]
  have e2 : env "a" = a := by simp [env, envOf]
  have e3 : env "b" = b := by simp [env, envOf]
  have e4 : env "loc" = loc := by simp [env, envOf]
  have e5 : env "scale" = scale := by simp [env, envOf]
  rw [e1, e2, e3, e4, e5, hI, exp_logpdfIn h hab hs, hφ]

/-- **`∫ exp(logpdf) = 1`** over the truncation interval (fundamental theorem of calculus on the truncated
cdf `(Φ(z) − Φ(a))/(Φ(b) − Φ(a))`). -/
theorem logpdf_integrates_to_one (h : StdNormalLike Φ φ) (hφ : ∀ z, φ z = Real.exp (normLogpdf z))
    {a b : ℝ} (hab : a < b) (loc : ℝ) {scale : ℝ} (hs : 0 < scale) :
    ∫ x in (loc + a * scale)..(loc + b * scale), Real.exp (logpdfIn Φ x a b loc scale) = 1 :=
  integral_exp_logpdfIn h hφ hab loc hs

end logpdf

/-! ## F. discrete truncated normal -/

/-- **Cell masses sum to one.**  Grid `low, low+step, …, low + n·step = high`; the code's cell of the grid
point `x` is `[max(x − step/2, low − step/2), min(x + step/2, high + step/2)]`, standardised by `(· − mu)/sigma`,
and its log-mass is `_log_gauss_mass(cell) − _log_gauss_mass(whole)`. -/
theorem discrete_masses_sum_to_one {Φ φ : ℝ → ℝ} (h : StdNormalLike Φ φ) (low step mu sigma : ℝ) (n : ℕ)
    (hstep : 0 < step) (hsigma : 0 < sigma) :
    let high := low + n * step
    ∑ k ∈ Finset.range (n + 1),
      Real.exp
        (logGaussMass Φ ((max (low + k * step - step / 2) (low - step / 2) - mu) / sigma)
            ((min (low + k * step + step / 2) (high + step / 2) - mu) / sigma)
          - logGaussMass Φ ((low - step / 2 - mu) / sigma) ((high + step / 2 - mu) / sigma)) = 1 := by
  intro high
  let u : ℕ → ℝ := fun k => (low - step / 2 + k * step - mu) / sigma
  have hu : StrictMono u := by
    intro i j hij
    have : (i : ℝ) < j := by exact_mod_cast hij
    simp only [u]
    apply div_lt_div_of_pos_right _ hsigma
    nlinarith
  have key := cell_masses_sum_to_one h u hu n
  rw [← key]
  refine Finset.sum_congr rfl fun k hk => ?_
  have hk' : (k : ℝ) ≤ n := by exact_mod_cast Nat.lt_succ_iff.mp (Finset.mem_range.mp hk)
  have hk0 : (0 : ℝ) ≤ k := Nat.cast_nonneg k
  have e1 : max (low + k * step - step / 2) (low - step / 2) = low + k * step - step / 2 :=
    max_eq_left (by nlinarith)
  have e2 : min (low + k * step + step / 2) (high + step / 2) = low + k * step + step / 2 :=
    min_eq_left (by simp only [high]; nlinarith)
  rw [e1, e2]
  simp only [u, high]
  congr 3 <;> (push_cast; ring)

/-! ## G. log-sum-exp and the mixture's `-inf` guard -/

/-- **Shift invariance** of log-sum-exp (the code shifts by the row maximum). -/
theorem logsumexp_shift_invariant {ι : Type*} (s : Finset ι) (hs : s.Nonempty) (x : ι → ℝ) (c : ℝ) :
    Real.log (∑ i ∈ s, Real.exp (x i - c)) + c = Real.log (∑ i ∈ s, Real.exp (x i)) :=
  logsumexp_shift s hs x c

/-- **Mixture `log_pdf` guard.**  With the guard *as found in the source* (`mixtureGuard`, regenerated), a row
of component log-densities that are finite or `-inf` gives `-inf` when all are `-inf` and the exact
`log Σ exp` otherwise; never NaN. -/
theorem mixture_log_pdf_guard (w : List (Option ℝ)) :
    mixLogPdf mixtureGuard (w.map ofOpt) =
      if (∀ x ∈ w, x = none) then FVal.ninf else FVal.fin (Real.log (w.map expO).sum) :=
  mixLogPdf_guarded w

theorem mixture_log_pdf_never_nan (w : List (Option ℝ)) :
    (mixLogPdf mixtureGuard (w.map ofOpt)).isNan = false := by
  rw [mixture_log_pdf_guard]
  split <;> rfl

/-- Without the guard, a row of `-inf` gives NaN: the guard is necessary. -/
theorem mixture_unguarded_nan : (mixLogPdf false [FVal.ninf]).isNan = true := by
  rw [mixLogPdf_unguarded_nan]; rfl

/-! ## H. every `log` / `log1p` argument is positive in its branch (ℝ-definedness) -/

/-- **No NaN from valid arguments, at the level of ℝ-definedness**: for `a < b`, `0 < scale`, and `q` strictly
inside `(0,1)` where a branch formula (not an override) is used, every argument of `log`/`log1p` occurring in
`_log_diff` (left/right case), `mass_case_central`, `_log_sum`, `ppf_left`, `ppf_right` and `logpdf` is
positive. -/
theorem no_nan_from_valid_args {Φ φ : ℝ → ℝ} (h : StdNormalLike Φ φ) {a b q scale : ℝ} (hab : a < b)
    (hq0 : 0 < q) (hq1 : q < 1) (hs : 0 < scale) :
    -- `_log_ndtr`: log Φ
    0 < Φ a ∧ 0 < Φ b ∧ 0 < Φ (-a) ∧ 0 < Φ (-b) ∧
    -- `_log_diff` in mass_case_left(a, b) and mass_case_left(-b, -a): log1p(-exp(lq - lp))
    0 < 1 + -Real.exp (Real.log (Φ a) - Real.log (Φ b)) ∧
    0 < 1 + -Real.exp (Real.log (Φ (-b)) - Real.log (Φ (-a))) ∧
    -- mass_case_central: log1p(-Φ(a) - Φ(-b))
    0 < 1 + (-Φ a - Φ (-b)) ∧
    -- ppf_left: log q ; ppf_right: log1p(-q)
    0 < q ∧ 0 < 1 + -q ∧
    -- np.logaddexp
    0 < Real.exp (Real.log (Φ a)) + Real.exp (Real.log q + logGaussMass Φ a b) ∧
    -- logpdf: log(scale)
    0 < scale := by
  have hM := mass_pos h hab
  refine ⟨h.pos a, h.pos b, h.pos _, h.pos _, logDiff_arg_pos (Real.log_lt_log (h.pos a) (h.strictMono hab)),
    logDiff_arg_pos (Real.log_lt_log (h.pos _) (h.strictMono (neg_lt_neg hab))), ?_, hq0, by linarith,
    logaddexp_arg_pos _ _, hs⟩
  rw [h.symm b]; linarith

/-! ## I. the hypotheses are satisfiable (non-vacuity) -/

/-- The standard normal cdf `1/2 + ∫₀ˣ exp(-t²/2)/√(2π)` and its density satisfy the bundle, and the density
is `exp ∘ _norm_logpdf` as the `logpdf` theorems require. -/
theorem hypotheses_satisfied_by_standard_normal :
    StdNormalLike gaussCdf gaussPdf ∧ ∀ z, gaussPdf z = Real.exp (normLogpdf z) :=
  ⟨gauss_stdNormalLike, fun _ => rfl⟩

/-- A second model of the bundle (the theorems that do not mention `_norm_logpdf` hold for every such cdf). -/
theorem hypotheses_satisfied_by_logistic :
    StdNormalLike Real.sigmoid (fun x => Real.sigmoid x * (1 - Real.sigmoid x)) :=
  logistic_stdNormalLike

/-- An `_ndtri_exp` that meets `InvertsLogCdf` exists for every cdf (choice). -/
noncomputable def invOf (Φ : ℝ → ℝ) (y : ℝ) : ℝ :=
  open Classical in if hy : ∃ x, Real.log (Φ x) = y then Classical.choose hy else 0

theorem invOf_inverts (Φ : ℝ → ℝ) (erf erfc : ℝ → ℝ) : InvertsLogCdf ⟨Φ, erf, erfc, invOf Φ⟩ := by
  intro y hy
  simp only [invOf, hy, dif_pos]
  exact Classical.choose_spec hy

/-! ### non-vacuity examples -/

-- the hypotheses of the mass / ppf / logpdf theorems are jointly satisfiable, here at concrete arguments
example : logGaussMass gaussCdf (-1) 2 = Real.log (gaussCdf 2 - gaussCdf (-1)) :=
  (log_gauss_mass_cases_total_and_equal gauss_stdNormalLike (by norm_num)).1

example : ∃ x, ppfValue ⟨gaussCdf, id, id, invOf gaussCdf⟩ (1 / 3) (-1) 2 = some x ∧ ((-1 : ℚ) : ℝ) ≤ x ∧ x ≤ (2 : ℚ) ∧
    gaussCdf x = gaussCdf ((-1 : ℚ) : ℝ) + ((1 / 3 : ℚ) : ℝ) * (gaussCdf ((2 : ℚ) : ℝ) - gaussCdf ((-1 : ℚ) : ℝ)) :=
  ppf_in_interval gauss_stdNormalLike _ rfl (invOf_inverts _ _ _) (1 / 3) (-1) 2 (by norm_num) (by norm_num) (by norm_num)

example : ∫ x in ((3 : ℝ) + (-1) * 2)..(3 + 5 * 2), Real.exp (logpdfIn gaussCdf x (-1) 5 3 2) = 1 :=
  logpdf_integrates_to_one gauss_stdNormalLike (fun _ => rfl) (by norm_num) 3 (by norm_num)

-- the case split really has three inhabited cases
example : massCase (.fin (-3)) (.fin (-1)) = .left ∧ massCase (.fin 1) (.fin 3) = .right ∧
    massCase (.fin (-1)) (.fin 1) = .central ∧ massCase (.fin 0) (.fin 1) = .central ∧
    massCase (.fin (-1)) (.fin 0) = .left := by decide

-- every `ppf` case is inhabited
example : ppfCase (1 / 2) (.fin (-1)) (.fin 1) = .left ∧ ppfCase (1 / 2) (.fin 0) (.fin 1) = .right ∧
    ppfCase 0 (.fin 0) (.fin 1) = .lo ∧ ppfCase 1 (.fin 0) (.fin 1) = .hi ∧ ppfCase (1 / 2) (.fin 1) (.fin 1) = .nan := by
  decide +kernel

-- bisection on f(x) = x, c = 1/3: after 3 rounds the bracket [0, 1] has become [1/4, 3/8]
example : bracket (fun m => decide (m < 1 / 3)) 3 0 1 = (1 / 4, 3 / 8) := by decide +kernel

-- a mixture row with one finite and one `-inf` component
example : mixLogPdf true [FVal.fin 0, FVal.ninf] = FVal.fin (Real.log (Real.exp 0 + 0)) := by
  have := mixLogPdf_guarded [some 0, none]
  simpa [ofOpt, expO] using this

end OptunaVerif.C18
