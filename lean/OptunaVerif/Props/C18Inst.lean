import OptunaVerif.Props.C18
import OptunaVerif.Lemmas.TruncNormErf
import OptunaVerif.Lemmas.TruncNormTail
/-!
# C18 (instances) — the abstract hypotheses of `Props/C18.lean` discharged at the real thing

An independent audit found three places where `Props/C18.lean` assumes (a form of) what it concludes:

1. `ppf_formula_inverts_cdf` / `ppf_in_interval` take `InvertsLogCdf I` (`_ndtri_exp` is an EXACT inverse of `log ∘ Φ`);
   the bisection theorems are about abstract oracles, never instantiated at `log ∘ Φ`.
2. `gen_ndtr_meaning` takes `ErfLike I`, whose field `ndtr_eq` is the conclusion; `ErfLike` was never exhibited.
3. `no_nan_from_valid_args` is about a hand-transcribed list of eleven `log` arguments.

This file (nothing in `Props/C18.lean` is weakened or changed):

* **A** `logArgs` / `sqrtArgs` / `divisors` / `calls2`: syntactic traversals of the translated formulas;
  `no_nan_from_valid_args_generated`: for EVERY generated body (the table `genFns` lists every `E`-valued definition of
  `Generated/TruncNormGen.lean`; the harness checks the table against the file on every run) and every environment in
  the function's argument range, every `log` / `log1p` / `logaddexp` argument found by the traversal is positive, every
  `sqrt` argument non-negative, every divisor non-zero, and every call of another translated function is inside that
  function's argument range.
* **B** the bisection at the real oracle `above m := y < log Φ(m)`, `below m := log Φ(m) < y` (`Φ` any `StdNormalLike`
  cdf, in particular `gaussCdf`): bracket invariant, error `100 / 2^k` after `k` rounds when the root lies in
  `[-100, 100]`, the wrong-end behaviour when it does not (F24 at this oracle); `ppf_formula_bisect` and
  `ppf_in_interval_bisect_partial`: `ppf` with `_ndtri_exp` := the `k`-round bisection, error term explicit.
  What is proved is the REAL-ARITHMETIC bisection (exact midpoints, exact comparisons with `log Φ`), not the float run.
* **C** `erf x := 2/√π ∫₀ˣ exp(-t²)`, `erfc := 1 - erf`; `erfLike_gaussian`: `ErfLike` holds for `gaussCdf` and this
  `erf` (change of variables `t = √2 s`), so `gen_ndtr_meaning` / `gen_ndtr_single_arms_agree` have a proved instance.
  `gauss_ppf_cdf_error` (cdf-level error, density ≤ 1) and `gauss_ppf_in_interval_tpe_double_partial`: the TPE-reachable case
  `a ≤ 0 ≤ b`, every double `q ∈ (0,1)`, no hypothesis left except that the bisection is the real-arithmetic one
  (tail bound `Φ(-100) ≤ exp(-5000) ≤ 2⁻⁵⁰⁰⁰`, `Lemmas/TruncNormTail.lean`).
-/
set_option linter.unusedSimpArgs false
set_option linter.unusedVariables false
namespace OptunaVerif.C18Inst
open OptunaVerif OptunaVerif.TruncNorm OptunaVerif.TruncNormIR OptunaVerif.TruncNormQ
open OptunaVerif.Generated.TruncNorm

/-! ## A. every `log` argument of every generated body is positive -/

/-- the arguments that must be POSITIVE for the formula to be defined over ℝ: `log(x)` gives `x`, `log1p(x)` gives `1 + x`,
`np.logaddexp(x, y)` gives `exp(x) + exp(y)`; all subterms are visited (also the arguments of calls). -/
def logArgs : E → List E
  | .var _ | .num _ | .pi => []
  | .neg e | .sq e => logArgs e
  | .add x y | .sub x y | .mul x y | .div x y => logArgs x ++ logArgs y
  | .call1 .log x => x :: logArgs x
  | .call1 .log1p x => .add (.num 1) x :: logArgs x
  | .call1 _ x => logArgs x
  | .call2 .logaddexp x y => .add (.call1 .exp x) (.call1 .exp y) :: (logArgs x ++ logArgs y)
  | .call2 _ x y => logArgs x ++ logArgs y

/-- the arguments of `sqrt` (must be non-negative) -/
def sqrtArgs : E → List E
  | .var _ | .num _ | .pi => []
  | .neg e | .sq e => sqrtArgs e
  | .add x y | .sub x y | .mul x y | .div x y => sqrtArgs x ++ sqrtArgs y
  | .call1 .sqrt x => x :: sqrtArgs x
  | .call1 _ x => sqrtArgs x
  | .call2 _ x y => sqrtArgs x ++ sqrtArgs y

/-- the divisors (must be non-zero) -/
def divisors : E → List E
  | .var _ | .num _ | .pi => []
  | .neg e | .sq e => divisors e
  | .div x y => y :: (divisors x ++ divisors y)
  | .add x y | .sub x y | .mul x y => divisors x ++ divisors y
  | .call1 _ x => divisors x
  | .call2 _ x y => divisors x ++ divisors y

/-- the calls of binary translated functions, with their argument formulas -/
def calls2 : E → List (Fn2 × E × E)
  | .var _ | .num _ | .pi => []
  | .neg e | .sq e => calls2 e
  | .add x y | .sub x y | .mul x y | .div x y => calls2 x ++ calls2 y
  | .call1 _ x => calls2 x
  | .call2 f x y => (f, x, y) :: (calls2 x ++ calls2 y)

/-- the argument range of a binary translated function (what its own body needs — see `genFns`):
`_log_diff(log_p, log_q)`: `log_q < log_p`; `mass_case_left(a, b)`, `_log_gauss_mass(a, b)`: `a < b`. -/
def pre2 : Fn2 → ℝ → ℝ → Prop
  | .logaddexp, _, _ => True
  | .logSum, _, _ => True
  | .logDiff, lp, lq => lq < lp
  | .massLeft, a, b => a < b
  | .logGaussMass, a, b => a < b

/-- a translated function: its Python name, its body, the range of its arguments -/
structure GenFn where
  name : String
  body : E
  pre : (String → ℝ) → Prop

/-- EVERY `E`-valued definition of `Generated/TruncNormGen.lean` (`def … : E` and the members of `def … : List E`), with
the argument range under which the Python function is called:
`_log_diff`: `log_q < log_p`; the three mass cases and `_log_gauss_mass`: `a < b`; `ppf_left`: `a < b`, `0 < q`;
`ppf_right`: `a < b`, `q < 1`; `logpdf`: `a < b`, `0 < scale`; everything else: all reals.
(`verif/props/c18.py::generated_bodies_covered` compares the names with the generated file on every run.) -/
def genFns : List GenFn := [
  ⟨"logSumBody", logSumBody, fun _ => True⟩,
  ⟨"logDiffBody", logDiffBody, fun env => env "log_q" < env "log_p"⟩,
  ⟨"ndtrBody", ndtrBody, fun _ => True⟩,
  ⟨"normLogpdfBody", normLogpdfBody, fun _ => True⟩,
  ⟨"ndtrSingleArg", ndtrSingleArg, fun _ => True⟩,
  ⟨"ndtrSingleArms[0]", ndtrSingleArms.getD 0 .pi, fun _ => True⟩,
  ⟨"ndtrSingleArms[1]", ndtrSingleArms.getD 1 .pi, fun _ => True⟩,
  ⟨"ndtrSingleArms[2]", ndtrSingleArms.getD 2 .pi, fun _ => True⟩,
  ⟨"logNdtrArms[0]", logNdtrArms.getD 0 .pi, fun _ => True⟩,
  ⟨"logNdtrArms[1]", logNdtrArms.getD 1 .pi, fun _ => True⟩,
  ⟨"massLeftBody", massLeftBody, fun env => env "a" < env "b"⟩,
  ⟨"massRightBody", massRightBody, fun env => env "a" < env "b"⟩,
  ⟨"massCentralBody", massCentralBody, fun env => env "a" < env "b"⟩,
  ⟨"ppfLeftBody", ppfLeftBody, fun env => env "a" < env "b" ∧ 0 < env "q"⟩,
  ⟨"ppfRightBody", ppfRightBody, fun env => env "a" < env "b" ∧ env "q" < 1⟩,
  ⟨"logpdfStdBody", logpdfStdBody, fun env => 0 < env "scale"⟩,
  ⟨"logpdfBody", logpdfBody, fun env => env "a" < env "b" ∧ 0 < env "scale"⟩]

/-- the table is complete for the two list-valued definitions: no arm is left out -/
theorem genFns_covers_arm_lists : ndtrSingleArms.length = 3 ∧ logNdtrArms.length = 2 := by decide

/-- what "defined over ℝ" means for one body in one environment -/
def Defined (I : Interp) (env : String → ℝ) (e : E) : Prop :=
  (∀ x ∈ logArgs e, 0 < eval I env x) ∧ (∀ x ∈ sqrtArgs e, 0 ≤ eval I env x) ∧
  (∀ x ∈ divisors e, eval I env x ≠ 0) ∧ (∀ c ∈ calls2 e, pre2 c.1 (eval I env c.2.1) (eval I env c.2.2))

section defined
variable {φ : ℝ → ℝ} (I : Interp) (env : String → ℝ)

theorem sqrt2_pos : 0 < Real.sqrt 2 := Real.sqrt_pos.mpr (by norm_num)

theorem defined_logSum : Defined I env logSumBody := by
  refine ⟨?_, ?_, ?_, ?_⟩ <;>
    simp only [logSumBody, logArgs, sqrtArgs, divisors, calls2, List.mem_cons, List.mem_nil_iff, List.append_nil, or_false,
      forall_eq, eval, fn1, pre2, List.not_mem_nil, false_imp_iff, implies_true]
  exact add_pos (Real.exp_pos _) (Real.exp_pos _)

theorem defined_logDiff (hp : env "log_q" < env "log_p") : Defined I env logDiffBody := by
  refine ⟨?_, ?_, ?_, ?_⟩ <;>
    simp only [logDiffBody, logArgs, sqrtArgs, divisors, calls2, List.mem_cons, List.mem_nil_iff, List.append_nil, List.nil_append,
      or_false, forall_eq, eval, fn1, pre2, List.not_mem_nil, false_imp_iff, implies_true]
  have := logDiff_arg_pos hp
  push_cast; linarith

theorem defined_ndtr : Defined I env ndtrBody := by
  refine ⟨?_, ?_, ?_, ?_⟩ <;>
    simp only [ndtrBody, logArgs, sqrtArgs, divisors, calls2, List.mem_cons, List.mem_nil_iff, List.append_nil, List.nil_append,
      List.cons_append, or_false, forall_eq, forall_eq_or_imp, eval, fn1, fn2, pre2, List.not_mem_nil, false_imp_iff, implies_true, and_true, true_and,
      List.getD_cons_zero, List.getD_cons_succ, List.getD_eq_getElem?_getD, List.getElem?_cons_zero, List.getElem?_cons_succ, Option.getD_some]
  · norm_num
  · exact sqrt2_pos.ne'
theorem defined_normLogpdf : Defined I env normLogpdfBody := by
  refine ⟨?_, ?_, ?_, ?_⟩ <;>
    simp only [normLogpdfBody, logArgs, sqrtArgs, divisors, calls2, List.mem_cons, List.mem_nil_iff, List.append_nil, List.nil_append,
      List.cons_append, or_false, forall_eq, forall_eq_or_imp, eval, fn1, fn2, pre2, List.not_mem_nil, false_imp_iff, implies_true, and_true, true_and,
      List.getD_cons_zero, List.getD_cons_succ, List.getD_eq_getElem?_getD, List.getElem?_cons_zero, List.getElem?_cons_succ, Option.getD_some]
  · exact Real.sqrt_pos.mpr (by positivity)
  · positivity
  · norm_num
theorem defined_ndtrSingleArg : Defined I env ndtrSingleArg := by
  refine ⟨?_, ?_, ?_, ?_⟩ <;>
    simp only [ndtrSingleArg, logArgs, sqrtArgs, divisors, calls2, List.mem_cons, List.mem_nil_iff, List.append_nil, List.nil_append,
      List.cons_append, or_false, forall_eq, forall_eq_or_imp, eval, fn1, fn2, pre2, List.not_mem_nil, false_imp_iff, implies_true, and_true, true_and,
      List.getD_cons_zero, List.getD_cons_succ, List.getD_eq_getElem?_getD, List.getElem?_cons_zero, List.getElem?_cons_succ, Option.getD_some]
  · norm_num
  · exact sqrt2_pos.ne'
theorem defined_ndtrSingleArm0 : Defined I env (ndtrSingleArms.getD 0 .pi) := by
  refine ⟨?_, ?_, ?_, ?_⟩ <;>
    simp only [ndtrSingleArms, logArgs, sqrtArgs, divisors, calls2, List.mem_cons, List.mem_nil_iff, List.append_nil, List.nil_append,
      List.cons_append, or_false, forall_eq, forall_eq_or_imp, eval, fn1, fn2, pre2, List.not_mem_nil, false_imp_iff, implies_true, and_true, true_and,
      List.getD_cons_zero, List.getD_cons_succ, List.getD_eq_getElem?_getD, List.getElem?_cons_zero, List.getElem?_cons_succ, Option.getD_some]

theorem defined_ndtrSingleArm1 : Defined I env (ndtrSingleArms.getD 1 .pi) := by
  refine ⟨?_, ?_, ?_, ?_⟩ <;>
    simp only [ndtrSingleArms, logArgs, sqrtArgs, divisors, calls2, List.mem_cons, List.mem_nil_iff, List.append_nil, List.nil_append,
      List.cons_append, or_false, forall_eq, forall_eq_or_imp, eval, fn1, fn2, pre2, List.not_mem_nil, false_imp_iff, implies_true, and_true, true_and,
      List.getD_cons_zero, List.getD_cons_succ, List.getD_eq_getElem?_getD, List.getElem?_cons_zero, List.getElem?_cons_succ, Option.getD_some]

theorem defined_ndtrSingleArm2 : Defined I env (ndtrSingleArms.getD 2 .pi) := by
  refine ⟨?_, ?_, ?_, ?_⟩ <;>
    simp only [ndtrSingleArms, logArgs, sqrtArgs, divisors, calls2, List.mem_cons, List.mem_nil_iff, List.append_nil, List.nil_append,
      List.cons_append, or_false, forall_eq, forall_eq_or_imp, eval, fn1, fn2, pre2, List.not_mem_nil, false_imp_iff, implies_true, and_true, true_and,
      List.getD_cons_zero, List.getD_cons_succ, List.getD_eq_getElem?_getD, List.getElem?_cons_zero, List.getElem?_cons_succ, Option.getD_some]

theorem defined_logNdtrArm0 : Defined I env (logNdtrArms.getD 0 .pi) := by
  refine ⟨?_, ?_, ?_, ?_⟩ <;>
    simp only [logNdtrArms, logArgs, sqrtArgs, divisors, calls2, List.mem_cons, List.mem_nil_iff, List.append_nil, List.nil_append,
      List.cons_append, or_false, forall_eq, forall_eq_or_imp, eval, fn1, fn2, pre2, List.not_mem_nil, false_imp_iff, implies_true, and_true, true_and,
      List.getD_cons_zero, List.getD_cons_succ, List.getD_eq_getElem?_getD, List.getElem?_cons_zero, List.getElem?_cons_succ, Option.getD_some]

theorem defined_logNdtrArm1 (h : StdNormalLike I.Φ φ) : Defined I env (logNdtrArms.getD 1 .pi) := by
  refine ⟨?_, ?_, ?_, ?_⟩ <;>
    simp only [logNdtrArms, logArgs, sqrtArgs, divisors, calls2, List.mem_cons, List.mem_nil_iff, List.append_nil, List.nil_append,
      List.cons_append, or_false, forall_eq, forall_eq_or_imp, eval, fn1, fn2, pre2, List.not_mem_nil, false_imp_iff, implies_true, and_true, true_and,
      List.getD_cons_zero, List.getD_cons_succ, List.getD_eq_getElem?_getD, List.getElem?_cons_zero, List.getElem?_cons_succ, Option.getD_some]
  exact h.pos _
theorem defined_massLeft (h : StdNormalLike I.Φ φ) (hp : env "a" < env "b") : Defined I env massLeftBody := by
  refine ⟨?_, ?_, ?_, ?_⟩ <;>
    simp only [massLeftBody, logArgs, sqrtArgs, divisors, calls2, List.mem_cons, List.mem_nil_iff, List.append_nil, List.nil_append,
      List.cons_append, or_false, forall_eq, forall_eq_or_imp, eval, fn1, fn2, pre2, List.not_mem_nil, false_imp_iff, implies_true, and_true, true_and,
      List.getD_cons_zero, List.getD_cons_succ, List.getD_eq_getElem?_getD, List.getElem?_cons_zero, List.getElem?_cons_succ, Option.getD_some]
  exact Real.log_lt_log (h.pos _) (h.strictMono hp)
theorem defined_massRight (hp : env "a" < env "b") : Defined I env massRightBody := by
  refine ⟨?_, ?_, ?_, ?_⟩ <;>
    simp only [massRightBody, logArgs, sqrtArgs, divisors, calls2, List.mem_cons, List.mem_nil_iff, List.append_nil, List.nil_append,
      List.cons_append, or_false, forall_eq, forall_eq_or_imp, eval, fn1, fn2, pre2, List.not_mem_nil, false_imp_iff, implies_true, and_true, true_and,
      List.getD_cons_zero, List.getD_cons_succ, List.getD_eq_getElem?_getD, List.getElem?_cons_zero, List.getElem?_cons_succ, Option.getD_some]
  linarith
theorem defined_massCentral (h : StdNormalLike I.Φ φ) (hp : env "a" < env "b") : Defined I env massCentralBody := by
  refine ⟨?_, ?_, ?_, ?_⟩ <;>
    simp only [massCentralBody, logArgs, sqrtArgs, divisors, calls2, List.mem_cons, List.mem_nil_iff, List.append_nil, List.nil_append,
      List.cons_append, or_false, forall_eq, forall_eq_or_imp, eval, fn1, fn2, pre2, List.not_mem_nil, false_imp_iff, implies_true, and_true, true_and,
      List.getD_cons_zero, List.getD_cons_succ, List.getD_eq_getElem?_getD, List.getElem?_cons_zero, List.getElem?_cons_succ, Option.getD_some]
  have := h.symm (env "b"); have := h.strictMono hp; push_cast; linarith
theorem defined_ppfLeft (hp : env "a" < env "b" ∧ 0 < env "q") : Defined I env ppfLeftBody := by
  refine ⟨?_, ?_, ?_, ?_⟩ <;>
    simp only [ppfLeftBody, logArgs, sqrtArgs, divisors, calls2, List.mem_cons, List.mem_nil_iff, List.append_nil, List.nil_append,
      List.cons_append, or_false, forall_eq, forall_eq_or_imp, eval, fn1, fn2, pre2, List.not_mem_nil, false_imp_iff, implies_true, and_true, true_and,
      List.getD_cons_zero, List.getD_cons_succ, List.getD_eq_getElem?_getD, List.getElem?_cons_zero, List.getElem?_cons_succ, Option.getD_some]
  · exact hp.2
  · exact hp.1
theorem defined_ppfRight (hp : env "a" < env "b" ∧ env "q" < 1) : Defined I env ppfRightBody := by
  refine ⟨?_, ?_, ?_, ?_⟩ <;>
    simp only [ppfRightBody, logArgs, sqrtArgs, divisors, calls2, List.mem_cons, List.mem_nil_iff, List.append_nil, List.nil_append,
      List.cons_append, or_false, forall_eq, forall_eq_or_imp, eval, fn1, fn2, pre2, List.not_mem_nil, false_imp_iff, implies_true, and_true, true_and,
      List.getD_cons_zero, List.getD_cons_succ, List.getD_eq_getElem?_getD, List.getElem?_cons_zero, List.getElem?_cons_succ, Option.getD_some]
  · push_cast; linarith [hp.2]
  · exact hp.1
theorem defined_logpdfStd (hp : 0 < env "scale") : Defined I env logpdfStdBody := by
  refine ⟨?_, ?_, ?_, ?_⟩ <;>
    simp only [logpdfStdBody, logArgs, sqrtArgs, divisors, calls2, List.mem_cons, List.mem_nil_iff, List.append_nil, List.nil_append,
      List.cons_append, or_false, forall_eq, forall_eq_or_imp, eval, fn1, fn2, pre2, List.not_mem_nil, false_imp_iff, implies_true, and_true, true_and,
      List.getD_cons_zero, List.getD_cons_succ, List.getD_eq_getElem?_getD, List.getElem?_cons_zero, List.getElem?_cons_succ, Option.getD_some]
  exact hp.ne'
theorem defined_logpdf (hp : env "a" < env "b" ∧ 0 < env "scale") : Defined I env logpdfBody := by
  refine ⟨?_, ?_, ?_, ?_⟩ <;>
    simp only [logpdfBody, logArgs, sqrtArgs, divisors, calls2, List.mem_cons, List.mem_nil_iff, List.append_nil, List.nil_append,
      List.cons_append, or_false, forall_eq, forall_eq_or_imp, eval, fn1, fn2, pre2, List.not_mem_nil, false_imp_iff, implies_true, and_true, true_and,
      List.getD_cons_zero, List.getD_cons_succ, List.getD_eq_getElem?_getD, List.getElem?_cons_zero, List.getElem?_cons_succ, Option.getD_some]
  · exact hp.2
  · exact hp.1

end defined

/-- **no_nan_from_valid_args_generated** — quantified over the GENERATED bodies (replaces the hand-transcribed list of
`C18.no_nan_from_valid_args`): for every translated function `g` of `Generated/TruncNormGen.lean` and every environment in
`g`'s argument range, every argument of `log` / `log1p` / `np.logaddexp` that the syntactic traversal `logArgs` finds in
`g.body` is positive, every `sqrt` argument is non-negative, every divisor is non-zero, and every call of another
translated function is made inside THAT function's argument range (so the statement composes along the call graph:
`pre2_is_body_pre`).  `_ndtr`, `_ndtr_single`, `_log_ndtr` stand for `Φ`, `Φ`, `log ∘ Φ` of any `StdNormalLike` cdf. -/
theorem no_nan_from_valid_args_generated {φ : ℝ → ℝ} (I : Interp) (h : StdNormalLike I.Φ φ) :
    ∀ g ∈ genFns, ∀ env : String → ℝ, g.pre env → Defined I env g.body := by
  intro g hg env hpre
  simp only [genFns, List.mem_cons, List.mem_nil_iff, or_false] at hg
  rcases hg with rfl | rfl | rfl | rfl | rfl | rfl | rfl | rfl | rfl | rfl | rfl | rfl | rfl | rfl | rfl | rfl | rfl
  · exact defined_logSum I env
  · exact defined_logDiff I env hpre
  · exact defined_ndtr I env
  · exact defined_normLogpdf I env
  · exact defined_ndtrSingleArg I env
  · exact defined_ndtrSingleArm0 I env
  · exact defined_ndtrSingleArm1 I env
  · exact defined_ndtrSingleArm2 I env
  · exact defined_logNdtrArm0 I env
  · exact defined_logNdtrArm1 I env h
  · exact defined_massLeft I env h hpre
  · exact defined_massRight I env hpre
  · exact defined_massCentral I env h hpre
  · exact defined_ppfLeft I env hpre
  · exact defined_ppfRight I env hpre
  · exact defined_logpdfStd I env hpre
  · exact defined_logpdf I env hpre

/-- the argument range demanded at a call site IS the argument range of the callee's body (for `_log_gauss_mass`, whose
masks-and-writes glue is pinned by shape hash, of each of its three case bodies) -/
theorem pre2_is_body_pre (x y : ℝ) :
    (pre2 .logDiff x y ↔ C18.envOf [("log_p", x), ("log_q", y)] "log_q" < C18.envOf [("log_p", x), ("log_q", y)] "log_p") ∧
    (pre2 .massLeft x y ↔ C18.envOf [("a", x), ("b", y)] "a" < C18.envOf [("a", x), ("b", y)] "b") ∧
    (pre2 .logGaussMass x y ↔ C18.envOf [("a", x), ("b", y)] "a" < C18.envOf [("a", x), ("b", y)] "b") := by
  simp [pre2, C18.envOf]

-- non-vacuity: what the traversal finds, and an environment in range
example : logArgs ppfRightBody = [.add (.num 1) (.neg (.var "q"))] ∧ logArgs logpdfBody = [.var "scale"] ∧
    logArgs logNdtrArms[1]! = [.call1 .ndtrSingle (.var "a")] ∧ sqrtArgs ndtrBody = [.num 2] ∧
    divisors logpdfStdBody = [.var "scale"] ∧
    calls2 massLeftBody = [(.logDiff, .call1 .logNdtr (.var "b"), .call1 .logNdtr (.var "a"))] ∧
    (genFns.map (fun g => (logArgs g.body).length)).sum = 8 ∧ genFns.length = 17 := by decide
example : Defined ⟨gaussCdf, id, id, id⟩ (C18.envOf [("q", 1 / 3), ("a", -1), ("b", 2)]) ppfLeftBody :=
  no_nan_from_valid_args_generated ⟨gaussCdf, id, id, id⟩ gauss_stdNormalLike
    ⟨"ppfLeftBody", ppfLeftBody, fun env => env "a" < env "b" ∧ 0 < env "q"⟩ (by simp [genFns]) _
    (by simp [C18.envOf]; norm_num)
-- the predicate is not trivially true: outside the argument range (`q = 0`) `log(q)` is flagged
example : ¬ Defined ⟨gaussCdf, id, id, id⟩ (C18.envOf [("q", 0), ("a", -1), ("b", 2)]) ppfLeftBody := by
  intro hd
  have := hd.1 (.var "q") (by decide)
  simp [eval, C18.envOf] at this

/-! ## B. `_bisect` at the real oracle `log ∘ Φ`; `ppf` with `_ndtri_exp` := the k-round bisection -/

section bisect
variable {Φ φ : ℝ → ℝ}

/-- `_log_ndtr` in the real-number model -/
noncomputable def logCdf (Φ : ℝ → ℝ) (x : ℝ) : ℝ := Real.log (Φ x)

theorem logCdf_strictMono (h : StdNormalLike Φ φ) : StrictMono (logCdf Φ) :=
  fun x y hxy => Real.log_lt_log (h.pos x) (h.strictMono hxy)

open Classical in
/-- the test `f(a) > c` of `_bisect(_log_ndtr_single, -100, +100, y)`, decided in exact real arithmetic -/
noncomputable def aboveO (Φ : ℝ → ℝ) (y : ℝ) (m : ℚ) : Bool := decide (y < logCdf Φ (m : ℝ))

open Classical in
/-- the test `f(m) < c` -/
noncomputable def belowO (Φ : ℝ → ℝ) (y : ℝ) (m : ℚ) : Bool := decide (logCdf Φ (m : ℝ) < y)

theorem aboveO_iff (Φ : ℝ → ℝ) (y : ℝ) (m : ℚ) : aboveO Φ y m = true ↔ y < logCdf Φ (m : ℝ) := by simp [aboveO]
theorem belowO_iff (Φ : ℝ → ℝ) (y : ℝ) (m : ℚ) : belowO Φ y m = true ↔ logCdf Φ (m : ℝ) < y := by simp [belowO]

/-- `_ndtri_exp_single(y)` with `k` rounds of the loop (the generated bracket `(-100, 100)`), every comparison exact -/
noncomputable def ndtriExpK (Φ : ℝ → ℝ) (k : ℕ) (y : ℝ) : ℚ := bisect (aboveO Φ y) (belowO Φ y) k bracketLo bracketHi

/-- with the GENERATED number of rounds this is `TruncNormQ.ndtriExp` at the real oracle -/
theorem ndtriExpK_generated (Φ : ℝ → ℝ) (y : ℝ) : ndtriExpK Φ bisectIters y = ndtriExp (aboveO Φ y) (belowO Φ y) := rfl

/-- **bisect_bracket_invariant_logcdf** — `C18.bisect_bracket_invariant` instantiated at `f = log ∘ Φ`, target
`y = log Φ(xs)`: when the root `xs` lies in `[-100, 100]`, after any number `n` of rounds the bracket contains it and is
`200 / 2ⁿ` wide. -/
theorem bisect_bracket_invariant_logcdf (h : StdNormalLike Φ φ) (xs : ℝ) (hlo : -100 ≤ xs) (hhi : xs ≤ 100) (n : ℕ) :
    ((bracket (belowO Φ (logCdf Φ xs)) n bracketLo bracketHi).1 : ℝ) ≤ xs ∧
    xs ≤ ((bracket (belowO Φ (logCdf Φ xs)) n bracketLo bracketHi).2 : ℝ) ∧
    (bracket (belowO Φ (logCdf Φ xs)) n bracketLo bracketHi).2 - (bracket (belowO Φ (logCdf Φ xs)) n bracketLo bracketHi).1
      = 200 / 2 ^ n := by
  have := C18.bisect_bracket_invariant (logCdf Φ) (logCdf_strictMono h) _ xs rfl _ (belowO_iff Φ _) n bracketLo bracketHi
    (by simp only [bracketLo]; push_cast; linarith) (by simp only [bracketHi]; push_cast; linarith)
  refine ⟨this.1, this.2.1, ?_⟩
  rw [this.2.2]; simp only [bracketLo, bracketHi]; norm_num

/-- **ndtri_exp_error_logcdf** — the `k`-round `_ndtri_exp_single` at the real oracle: if the root of
`log Φ(x) = y` lies in the bracket `[-100, 100]`, the returned point is within `100 / 2^k` of it. -/
theorem ndtri_exp_error_logcdf (h : StdNormalLike Φ φ) (xs : ℝ) (hlo : -100 ≤ xs) (hhi : xs ≤ 100) (k : ℕ) :
    |((ndtriExpK Φ k (logCdf Φ xs) : ℚ) : ℝ) - xs| ≤ 100 / 2 ^ k := by
  have hf := logCdf_strictMono h
  have hno : aboveO Φ (logCdf Φ xs) bracketLo = false := by
    cases hab : aboveO Φ (logCdf Φ xs) bracketLo with
    | false => rfl
    | true =>
      have h1 := (aboveO_iff Φ _ _).mp hab
      have h2 : logCdf Φ ((bracketLo : ℚ) : ℝ) ≤ logCdf Φ xs :=
        hf.monotone (by simp only [bracketLo]; push_cast; linarith)
      linarith
  unfold ndtriExpK bisect
  simp only [hno, Bool.false_eq_true, if_false]
  have := bisectLoop_error_mono (logCdf Φ) hf _ xs rfl _ (belowO_iff Φ _) k bracketLo bracketHi
    (by simp only [bracketLo]; push_cast; linarith) (by simp only [bracketHi]; push_cast; linarith)
  have e : (((bracketHi : ℚ) : ℝ) - ((bracketLo : ℚ) : ℝ)) / 2 ^ (k + 1) = 100 / 2 ^ k := by
    simp only [bracketLo, bracketHi]; rw [pow_succ]; push_cast; field_simp; norm_num
  rw [e] at this
  exact this

/-- … with the generated iteration count: within `200 / 2¹⁰¹` (`C18.ndtri_exp_error` at this oracle) -/
theorem ndtri_exp_generated_error_logcdf (h : StdNormalLike Φ φ) (xs : ℝ) (hlo : -100 ≤ xs) (hhi : xs ≤ 100) :
    |((ndtriExp (aboveO Φ (logCdf Φ xs)) (belowO Φ (logCdf Φ xs)) : ℚ) : ℝ) - xs| ≤ 200 / 2 ^ 101 :=
  C18.ndtri_exp_error (logCdf Φ) (logCdf_strictMono h) _ xs rfl _ _ (aboveO_iff Φ _) (belowO_iff Φ _) hlo hhi

/-- **ndtri_exp_root_left_of_bracket_logcdf** — finding F24 at the real oracle: when the root lies LEFT of the bracket
(`xs < -100`), `_bisect` swaps its ends and the `k`-round result is `100 - 200 / 2^(k+1)`, next to the FAR end `+100`. -/
theorem ndtri_exp_root_left_of_bracket_logcdf (h : StdNormalLike Φ φ) (xs : ℝ) (hx : xs < -100) (k : ℕ) :
    ndtriExpK Φ k (logCdf Φ xs) = 100 - 200 / 2 ^ (k + 1) := by
  have := C18.bisect_root_outside_bracket_wrong_end (logCdf Φ) (logCdf_strictMono h).monotone (logCdf Φ xs) _ _
    (aboveO_iff Φ _) (belowO_iff Φ _) k bracketLo bracketHi (by simp only [bracketLo, bracketHi]; norm_num)
    (logCdf_strictMono h (by simp only [bracketLo]; push_cast; linarith))
  unfold ndtriExpK
  rw [this]; simp only [bracketLo, bracketHi]; norm_num

/-- the interpretation in which `_ndtri_exp` IS the `k`-round real-arithmetic bisection on `log ∘ Φ` (no `InvertsLogCdf`) -/
noncomputable def bisInterp (Φ erf erfc : ℝ → ℝ) (k : ℕ) : Interp := ⟨Φ, erf, erfc, fun y => ((ndtriExpK Φ k y : ℚ) : ℝ)⟩

/-- **ppf_formula_bisect** — `C18.ppf_formula_inverts_cdf` with the hypothesis `InvertsLogCdf` REPLACED by the `k`-round
bisection and an explicit error term: for `a < b`, `0 < q < 1` and `xq` the quantile (`Φ xq = Φ a + q (Φ b − Φ a)`), the
translated `ppf_left` is within `100 / 2^k` of `xq` when `xq ∈ [-100, 100]`, the translated `ppf_right` when
`-xq ∈ [-100, 100]` (it bisects for `-xq`). -/
theorem ppf_formula_bisect (h : StdNormalLike Φ φ) (erf erfc : ℝ → ℝ) (k : ℕ) {q a b xq : ℝ} (hab : a < b)
    (hq0 : 0 < q) (hq1 : q < 1) (hx : Φ xq = Φ a + q * (Φ b - Φ a)) :
    let env := C18.envOf [("q", q), ("a", a), ("b", b)]
    (-100 ≤ xq → xq ≤ 100 → |eval (bisInterp Φ erf erfc k) env ppfLeftBody - xq| ≤ 100 / 2 ^ k) ∧
    (-100 ≤ -xq → -xq ≤ 100 → |eval (bisInterp Φ erf erfc k) env ppfRightBody - xq| ≤ 100 / 2 ^ k) := by
  intro env
  have hqv : env "q" = q := by simp [env, C18.envOf]
  have ha : env "a" = a := by simp [env, C18.envOf]
  have hb : env "b" = b := by simp [env, C18.envOf]
  constructor
  · intro h1 h2
    rw [C18.gen_ppf_left_meaning, hqv, ha, hb]
    show |(fun y => ((ndtriExpK Φ k y : ℚ) : ℝ)) (ppfLeftTarget Φ q a b) - xq| ≤ _
    rw [ppfLeftTarget_eq h hab hq0, ← hx]
    exact ndtri_exp_error_logcdf h xq h1 h2 k
  · intro h1 h2
    rw [C18.gen_ppf_right_meaning, hqv, ha, hb]
    show |-(fun y => ((ndtriExpK Φ k y : ℚ) : ℝ)) (ppfRightTarget Φ q a b) - xq| ≤ _
    have ht : Φ (-b) + (1 - q) * (Φ b - Φ a) = Φ (-xq) := by
      rw [h.symm xq, h.symm b, hx]; ring
    rw [ppfRightTarget_eq h hab hq1, ht]
    have := ndtri_exp_error_logcdf h (-xq) h1 h2 k
    rw [abs_le] at this ⊢
    simp only [logCdf] at this
    constructor <;> linarith [this.1, this.2]

/-- **ppf_in_interval_bisect_partial** — `C18.ppf_in_interval` without `InvertsLogCdf`: `ppf` as the executable model
dispatches it (`q == 0 → a`, `q == 1 → b`, `a < 0 → ppf_left`, else `ppf_right`, translated formulas), with `_ndtri_exp` the
`k`-round bisection on `log ∘ Φ`.  If the quantile `xq` lies in the bisection bracket `[-100, 100]` (hypothesis `hroot` —
what the code's bracket assumes; it FAILS for e.g. `ppf(0.9, 99.99, ∞)`, finding F24), then the returned `x` satisfies
`|x − xq| ≤ ε_k` and `a − ε_k ≤ x ≤ b + ε_k`, `ε_k = 100 / 2^k` (`k = 100` in the source: `ε = 200 / 2¹⁰¹`).
PARTIAL: this is the real-arithmetic bisection (exact midpoints, exact `log Φ`); the float run (rounded `_log_ndtr_single`,
the early exit `a == m or b == m`, finding F25) is tied numerically by the harness, not proved. -/
theorem ppf_in_interval_bisect_partial (h : StdNormalLike Φ φ) (erf erfc : ℝ → ℝ) (k : ℕ) (q a b : Rat) (hab : a < b)
    (hq0 : 0 ≤ q) (hq1 : q ≤ 1)
    (hroot : ∀ x : ℝ, Φ x = Φ a + q * (Φ b - Φ a) → -100 ≤ x ∧ x ≤ 100) :
    ∃ x xq : ℝ, C18.ppfValue (bisInterp Φ erf erfc k) q a b = some x ∧ Φ xq = Φ a + q * (Φ b - Φ a) ∧
      (a : ℝ) ≤ xq ∧ xq ≤ b ∧ |x - xq| ≤ 100 / 2 ^ k ∧ (a : ℝ) - 100 / 2 ^ k ≤ x ∧ x ≤ b + 100 / 2 ^ k := by
  have habR : (a : ℝ) < b := by exact_mod_cast hab
  have hq0R : (0 : ℝ) ≤ q := by exact_mod_cast hq0
  have hq1R : (q : ℝ) ≤ 1 := by exact_mod_cast hq1
  have hε : (0 : ℝ) ≤ 100 / 2 ^ k := by positivity
  have hne : XVal.eqB (.fin a) (.fin b) = false := by
    simp [XVal.eqB, ne_of_lt hab]
  unfold C18.ppfValue ppfCase
  simp only [hne, Bool.false_eq_true, if_false]
  by_cases h1 : q = 1
  · subst h1
    refine ⟨b, b, by simp, by push_cast; ring, habR.le, le_refl _, by simpa using hε, by linarith, by linarith⟩
  · by_cases h0 : q = 0
    · subst h0
      refine ⟨a, a, by simp, by push_cast; ring, le_refl _, habR.le, by simpa using hε, by linarith, by linarith⟩
    · have hq0' : (0 : ℝ) < q := lt_of_le_of_ne hq0R (by exact_mod_cast Ne.symm h0)
      have hq1' : (q : ℝ) < 1 := lt_of_le_of_ne hq1R (by exact_mod_cast h1)
      obtain ⟨xq, hxq, _⟩ := quantile_existsUnique h habR hq0R hq1R
      obtain ⟨m1, m2⟩ := quantile_mem h habR hq0R hq1R hxq
      obtain ⟨r1, r2⟩ := hroot xq hxq
      have key := ppf_formula_bisect h erf erfc k habR hq0' hq1' hxq
      simp only at key
      simp only [beq_iff_eq, h1, h0, if_false]
      by_cases hc : condX ppfCaseLeft (env2 (.fin a) (.fin b)) = true
      · simp only [hc, if_true]
        have he := key.1 r1 r2
        refine ⟨_, xq, rfl, hxq, m1, m2, he, ?_, ?_⟩ <;> (rw [abs_le] at he; linarith [he.1, he.2])
      · simp only [hc]
        have he := key.2 (by linarith) (by linarith)
        refine ⟨_, xq, rfl, hxq, m1, m2, he, ?_, ?_⟩ <;> (rw [abs_le] at he; linarith [he.1, he.2])

/-- … when the bracket covers the truncation interval (`-100 ≤ a`, `b ≤ 100`) the hypothesis `hroot` holds -/
theorem ppf_in_interval_bisect_covered_partial (h : StdNormalLike Φ φ) (erf erfc : ℝ → ℝ) (k : ℕ) (q a b : Rat) (hab : a < b)
    (hq0 : 0 ≤ q) (hq1 : q ≤ 1) (ha : (-100 : ℝ) ≤ a) (hb : (b : ℝ) ≤ 100) :
    ∃ x xq : ℝ, C18.ppfValue (bisInterp Φ erf erfc k) q a b = some x ∧ Φ xq = Φ a + q * (Φ b - Φ a) ∧
      (a : ℝ) ≤ xq ∧ xq ≤ b ∧ |x - xq| ≤ 100 / 2 ^ k ∧ (a : ℝ) - 100 / 2 ^ k ≤ x ∧ x ≤ b + 100 / 2 ^ k := by
  refine ppf_in_interval_bisect_partial h erf erfc k q a b hab hq0 hq1 ?_
  intro x hx
  have habR : (a : ℝ) < b := by exact_mod_cast hab
  obtain ⟨m1, m2⟩ := quantile_mem h habR (by exact_mod_cast hq0) (by exact_mod_cast hq1) hx
  exact ⟨by linarith, by linarith⟩

/-- … and in the case the TPE sampler reaches, `a ≤ 0 ≤ b` in standardised coordinates (the kernel centre lies inside
the domain): `hroot` holds for EVERY width of `[a, b]` as soon as `q` and `1 − q` are not smaller than
`τ = Φ(-100) / (1/2 − Φ(-100))` (hypotheses `hqlo`, `hqhi`, for any `StdNormalLike` cdf).  For the standard normal they are
DISCHARGED for every double `q ∈ (0, 1)` in `gauss_ppf_in_interval_tpe_double_partial` (`Φ(-100) ≤ 2⁻⁵⁰⁰⁰`). -/
theorem ppf_in_interval_bisect_tpe_partial (h : StdNormalLike Φ φ) (erf erfc : ℝ → ℝ) (k : ℕ) (q a b : Rat) (hab : a < b)
    (hq0 : 0 ≤ q) (hq1 : q ≤ 1) (ha : (a : ℝ) ≤ 0) (hb : (0 : ℝ) ≤ b)
    (hqlo : Φ (-100) ≤ q * (1 / 2 - Φ (-100))) (hqhi : Φ (-100) ≤ (1 - q) * (1 / 2 - Φ (-100))) :
    ∃ x xq : ℝ, C18.ppfValue (bisInterp Φ erf erfc k) q a b = some x ∧ Φ xq = Φ a + q * (Φ b - Φ a) ∧
      (a : ℝ) ≤ xq ∧ xq ≤ b ∧ |x - xq| ≤ 100 / 2 ^ k ∧ (a : ℝ) - 100 / 2 ^ k ≤ x ∧ x ≤ b + 100 / 2 ^ k := by
  refine ppf_in_interval_bisect_partial h erf erfc k q a b hab hq0 hq1 ?_
  intro x hx
  have habR : (a : ℝ) < b := by exact_mod_cast hab
  have hq0R : (0 : ℝ) ≤ q := by exact_mod_cast hq0
  have hq1R : (q : ℝ) ≤ 1 := by exact_mod_cast hq1
  obtain ⟨m1, m2⟩ := quantile_mem h habR hq0R hq1R hx
  have h0 : Φ 0 = 1 / 2 := by
    have := h.symm 0
    simp only [neg_zero] at this
    linarith
  have hP : Φ 100 = 1 - Φ (-100) := by
    have := h.symm 100
    linarith
  constructor
  · by_cases hc : (-100 : ℝ) ≤ a
    · linarith
    · rw [← h.strictMono.le_iff_le, hx]
      have h1 : Φ a < Φ (-100) := h.strictMono (not_le.mp hc)
      have h2 : Φ 0 ≤ Φ b := h.strictMono.monotone hb
      have h3 := h.pos a
      nlinarith
  · by_cases hc : (b : ℝ) ≤ 100
    · linarith
    · rw [← h.strictMono.le_iff_le, hx, hP]
      have h1 : Φ 100 < Φ b := h.strictMono (not_le.mp hc)
      have h2 : Φ a ≤ Φ 0 := h.strictMono.monotone ha
      have h3 := h.lt_one b
      nlinarith

end bisect

/-! ## C. `ErfLike` exhibited for the standard normal; everything instantiated at `gaussCdf` -/

/-- **erfLike_gaussian** — the hypothesis of `C18.gen_ndtr_meaning` / `gen_ndtr_single_arms_agree` is a THEOREM for the
standard normal cdf `gaussCdf x = 1/2 + ∫₀ˣ exp(-t²/2)/√(2π)` and `erf x = 2/√π ∫₀ˣ exp(-t²)`, `erfc = 1 - erf`
(`Lemmas/TruncNormErf.lean`: oddness, and `Φ(a) = 1/2 + 1/2 erf(a/√2)` by the change of variables `t = √2 s`). -/
theorem erfLike_gaussian (inv : ℝ → ℝ) : ErfLike ⟨gaussCdf, erfR, erfcR, inv⟩ :=
  ⟨fun _ => rfl, erfR_neg, gaussCdf_eq_erf⟩

/-- `_ndtr(a) = 0.5 + 0.5 * erf(a / 2**0.5)` as translated today IS the standard normal cdf — no hypothesis left -/
theorem gen_ndtr_meaning_gaussian (inv : ℝ → ℝ) (env : String → ℝ) :
    eval ⟨gaussCdf, erfR, erfcR, inv⟩ env ndtrBody = gaussCdf (env "a") :=
  C18.gen_ndtr_meaning _ env (erfLike_gaussian inv)

/-- all three arms of `_ndtr_single` as translated today compute the standard normal cdf — no hypothesis left -/
theorem gen_ndtr_single_arms_agree_gaussian (inv : ℝ → ℝ) (a : ℝ) :
    ∀ arm ∈ ndtrSingleArms,
      eval ⟨gaussCdf, erfR, erfcR, inv⟩
        (fun n => if n = "x" then eval ⟨gaussCdf, erfR, erfcR, inv⟩ (fun _ => a) ndtrSingleArg else a) arm = gaussCdf a :=
  C18.gen_ndtr_single_arms_agree _ (erfLike_gaussian inv) a

-- non-vacuity: erf is not the zero function / not trivially fitted: odd, strictly increasing, inside (-1, 1)
example : erfR 0 = 0 ∧ StrictMono erfR ∧ (∀ x, -1 < erfR x ∧ erfR x < 1) :=
  ⟨erfR_zero, erfR_strictMono, fun x => ⟨(erfR_range x).1, (erfR_range x).2.1⟩⟩

/-- the interpretation the code is about: standard normal cdf, the integral `erf`, `_ndtri_exp` = `k` rounds of bisection -/
noncomputable def gaussInterp (k : ℕ) : Interp := bisInterp gaussCdf erfR erfcR k

/-- **gauss_ppf_cdf_error** — `ppf_formula_inverts_cdf` for the standard normal with NO abstract hypothesis: with
`_ndtri_exp` the `k`-round bisection, `Φ(ppf_left)` resp. `Φ(ppf_right)` misses the target `Φ a + q (Φ b − Φ a)` by at most
`100 / 2^k` (the density is ≤ 1), whenever the quantile is inside the bisection bracket. -/
theorem gauss_ppf_cdf_error (k : ℕ) {q a b xq : ℝ} (hab : a < b) (hq0 : 0 < q) (hq1 : q < 1)
    (hx : gaussCdf xq = gaussCdf a + q * (gaussCdf b - gaussCdf a)) (hlo : -100 ≤ xq) (hhi : xq ≤ 100) :
    let env := C18.envOf [("q", q), ("a", a), ("b", b)]
    |gaussCdf (eval (gaussInterp k) env ppfLeftBody) - (gaussCdf a + q * (gaussCdf b - gaussCdf a))| ≤ 100 / 2 ^ k ∧
    |gaussCdf (eval (gaussInterp k) env ppfRightBody) - (gaussCdf a + q * (gaussCdf b - gaussCdf a))| ≤ 100 / 2 ^ k := by
  intro env
  have key := ppf_formula_bisect gauss_stdNormalLike erfR erfcR k hab hq0 hq1 hx
  simp only at key
  rw [← hx]
  exact ⟨le_trans (gaussCdf_lipschitz _ _) (key.1 hlo hhi),
    le_trans (gaussCdf_lipschitz _ _) (key.2 (by linarith) (by linarith))⟩

-- non-vacuity: `ppf(1/3, -1, 2)` of the standard normal with the source's 100 rounds: within 100/2^100 of the quantile
example : ∃ x xq : ℝ, C18.ppfValue (gaussInterp 100) (1 / 3) (-1) 2 = some x ∧
    gaussCdf xq = gaussCdf ((-1 : ℚ) : ℝ) + ((1 / 3 : ℚ) : ℝ) * (gaussCdf ((2 : ℚ) : ℝ) - gaussCdf ((-1 : ℚ) : ℝ)) ∧
    ((-1 : ℚ) : ℝ) ≤ xq ∧ xq ≤ ((2 : ℚ) : ℝ) ∧ |x - xq| ≤ 100 / 2 ^ 100 ∧
    ((-1 : ℚ) : ℝ) - 100 / 2 ^ 100 ≤ x ∧ x ≤ ((2 : ℚ) : ℝ) + 100 / 2 ^ 100 :=
  ppf_in_interval_bisect_covered_partial gauss_stdNormalLike erfR erfcR 100 (1 / 3) (-1) 2 (by norm_num) (by norm_num)
    (by norm_num) (by norm_num) (by norm_num)
-- the bracket invariant and the wrong-end theorem have inhabited hypotheses at the standard normal
example : |((ndtriExpK gaussCdf 100 (logCdf gaussCdf 3) : ℚ) : ℝ) - 3| ≤ 100 / 2 ^ 100 :=
  ndtri_exp_error_logcdf gauss_stdNormalLike 3 (by norm_num) (by norm_num) 100
example : ndtriExpK gaussCdf 100 (logCdf gaussCdf (-101)) = 100 - 200 / 2 ^ 101 :=
  ndtri_exp_root_left_of_bracket_logcdf gauss_stdNormalLike (-101) (by norm_num) 100

theorem small_le_mul (t r : ℝ) (ht0 : 0 ≤ t) (ht : t ≤ 1 / 4) (h : 4 * t ≤ r) : t ≤ r * (1 / 2 - t) := by
  have hr : 0 ≤ r := by linarith
  nlinarith [mul_nonneg hr (show (0 : ℝ) ≤ 1 / 4 - t by linarith)]

set_option exponentiation.threshold 6000 in
/-- **gauss_ppf_in_interval_tpe_double_partial** — the case the TPE sampler reaches, for the standard normal, with NO
hypothesis about `Φ`, the inverse or the location of the quantile: `a ≤ 0 ≤ b` (standardised bounds of a kernel whose centre
lies in the domain; ANY width, also `|a|, |b| > 100`), `q` any number with `2⁻¹⁰⁷⁴ ≤ q ≤ 1 − 2⁻⁵³` — which every double in
`(0, 1)` satisfies.  Then the quantile is inside the bisection bracket (tail bound `Φ(-100) ≤ 2⁻⁵⁰⁰⁰`,
`Lemmas/TruncNormTail.lean`), and `ppf` with the `k`-round real-arithmetic bisection returns `x` with `|x − xq| ≤ 100 / 2^k`,
`a − 100/2^k ≤ x ≤ b + 100/2^k`.  PARTIAL only in that the bisection is the real-arithmetic one (see
`ppf_in_interval_bisect_partial`). -/
theorem gauss_ppf_in_interval_tpe_double_partial (k : ℕ) (q a b : Rat) (hab : a < b) (ha : a ≤ 0) (hb : 0 ≤ b)
    (hq0 : 1 / 2 ^ 1074 ≤ q) (hq1 : q ≤ 1 - 1 / 2 ^ 53) :
    ∃ x xq : ℝ, C18.ppfValue (gaussInterp k) q a b = some x ∧
      gaussCdf xq = gaussCdf a + q * (gaussCdf b - gaussCdf a) ∧
      (a : ℝ) ≤ xq ∧ xq ≤ b ∧ |x - xq| ≤ 100 / 2 ^ k ∧ (a : ℝ) - 100 / 2 ^ k ≤ x ∧ x ≤ b + 100 / 2 ^ k := by
  have ht := gaussCdf_neg_100_le
  have ht0 := (gaussCdf_pos (-100)).le
  have hq0R : (1 / 2 ^ 1074 : ℝ) ≤ q := by
    have := (Rat.cast_le (K := ℝ)).mpr hq0
    push_cast at this; exact this
  have hq1R : (q : ℝ) ≤ 1 - 1 / 2 ^ 53 := by
    have := (Rat.cast_le (K := ℝ)).mpr hq1
    push_cast at this; exact this
  have n1 : (4 : ℝ) * (1 / 2 ^ 5000) ≤ 1 / 2 ^ 1074 := by norm_num
  have n2 : (4 : ℝ) * (1 / 2 ^ 5000) ≤ 1 / 2 ^ 53 := by norm_num
  have n3 : (1 : ℝ) / 2 ^ 5000 ≤ 1 / 4 := by norm_num
  have n4 : (0 : ℝ) < 1 / 2 ^ 1074 := by positivity
  have n5 : (0 : ℝ) < 1 / 2 ^ 53 := by positivity
  refine ppf_in_interval_bisect_tpe_partial gauss_stdNormalLike erfR erfcR k q a b hab
    (by have : (0 : ℝ) ≤ q := by linarith
        exact_mod_cast this)
    (by have : (q : ℝ) ≤ 1 := by linarith
        exact_mod_cast this)
    (by exact_mod_cast ha) (by exact_mod_cast hb) ?_ ?_
  · exact small_le_mul _ _ ht0 (by linarith) (by linarith)
  · exact small_le_mul _ _ ht0 (by linarith) (by linarith)

-- non-vacuity: a kernel far narrower than its distance to the bounds: a = -5000, b = 3 (|a| > 100), q = 2⁻¹⁰⁰
set_option exponentiation.threshold 6000 in
example : ∃ x xq : ℝ, C18.ppfValue (gaussInterp 100) (1 / 2 ^ 100) (-5000) 3 = some x ∧
    gaussCdf xq = gaussCdf ((-5000 : ℚ) : ℝ) + ((1 / 2 ^ 100 : ℚ) : ℝ) * (gaussCdf ((3 : ℚ) : ℝ) - gaussCdf ((-5000 : ℚ) : ℝ)) ∧
    ((-5000 : ℚ) : ℝ) ≤ xq ∧ xq ≤ ((3 : ℚ) : ℝ) ∧ |x - xq| ≤ 100 / 2 ^ 100 ∧
    ((-5000 : ℚ) : ℝ) - 100 / 2 ^ 100 ≤ x ∧ x ≤ ((3 : ℚ) : ℝ) + 100 / 2 ^ 100 :=
  gauss_ppf_in_interval_tpe_double_partial 100 (1 / 2 ^ 100) (-5000) 3 (by norm_num) (by norm_num) (by norm_num)
    (by norm_num) (by norm_num)

end OptunaVerif.C18Inst
