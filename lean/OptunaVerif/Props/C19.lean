import OptunaVerif.Lemmas.HeartbeatInv
import OptunaVerif.Lemmas.Storage
/-!
# C19 — stale-trial recovery fails and retries each dead trial at most once

Theorems about `Model/Heartbeat.lean` (the small-step model of `fail_stale_trials`,
`RetryFailedTrialCallback` and the stale query).  `reach P n as` is the configuration after an
**arbitrary** schedule `as` (any interleaving of sweep steps of `n` workers — for every `n` —, deaths
of workers at any point, and storage calls of everybody else: claims, creations, heartbeats,
finishes, attribute / parameter writes, enqueues, clock ticks), started from the empty study.
`events` is the log of what the sweeps did (`read`, `won`, `lost` = `UpdateFinishedTrialError`
swallowed, `callback`, `enqueued`).
-/
namespace OptunaVerif.C19
open OptunaVerif OptunaVerif.Heartbeat

def reach (P : Params) (n : Nat) (as : List Act) : Cfg := run P (init n) as

theorem reach_inv (P : Params) (n : Nat) (as : List Act) : Inv P (reach P n as) :=
  inv_run (inv_init P n) as

theorem reach_snoc (P : Params) (n : Nat) (as : List Act) (a : Act) :
    reach P n (as ++ [a]) = step P (reach P n as) a := by
  simp [reach, run, List.foldl_append]

/-! ## failed by exactly one -/

/-- **failed_by_exactly_one (a)**: over the whole run, all workers and all their sweeps together
move a given trial to FAIL at most once. -/
theorem failed_by_at_most_one (P : Params) (n : Nat) (as : List Act) (t : Nat) :
    cnt (Event.isWon t) (reach P n as).events ≤ 1 :=
  (reach_inv P n as).1.wonOnce t

/-- … hence the winner is unique. -/
theorem winner_unique (P : Params) (n : Nat) (as : List Act) (t w w' : Nat)
    (h : Event.won w t ∈ (reach P n as).events) (h' : Event.won w' t ∈ (reach P n as).events) : w = w' := by
  by_cases he : w = w'
  · exact he
  · have := cnt_two (Event.isWon t) _ _ _ h h' (by intro hh; cases hh; exact he rfl)
      (by simp [Event.isWon]) (by simp [Event.isWon])
    have := failed_by_at_most_one P n as t
    omega

/-- **failed_by_exactly_one (b)**: the compare-and-set decides.  When a worker that noticed `t`
reaches it: if `t` is still unfinished, exactly this step moves it to FAIL and the worker records
the win; if it is finished (somebody else was first), the worker gets `UpdateFinishedTrialError`,
changes nothing and does not put `t` on its callback list. -/
theorem cas_decides (P : Params) (c : Cfg) (w t : Nat) (ord todo won : List Nat) (x : HTrial)
    (hw : c.workers[w]? = some (.failing (t :: todo) won)) (hx : c.trials[t]? = some x) :
    (x.core.state.isFinished = false →
        (sweepStep P c w ord).events = .won w t :: c.events ∧
        (sweepStep P c w ord).trials[t]? = some (setState .fail x) ∧
        (sweepStep P c w ord).workers[w]? = some (Phase.norm P.hasCb (.failing todo (won ++ [t])))) ∧
    (x.core.state.isFinished = true →
        (sweepStep P c w ord).events = .lost w t :: c.events ∧
        (sweepStep P c w ord).trials = c.trials ∧
        (sweepStep P c w ord).workers[w]? = some (Phase.norm P.hasCb (.failing todo won))) := by
  have hwl : w < c.workers.length := getElem?_lt_length hw
  constructor
  · intro hnf
    simp only [sweepStep, hw, hx, hnf]
    refine ⟨by simp, ?_, ?_⟩
    · simp [updAt_getElem?, hx]
    · simp [updAt_getElem?, hw]
  · intro hf
    simp only [sweepStep, hw, hx, hf]
    refine ⟨by simp, by simp [Cfg.setPhase], ?_⟩
    simp [Cfg.setPhase, updAt_getElem?, hw]

/-- **failed_by_exactly_one (c)**: once a worker has dealt with a noticed trial — won it or lost
it — the trial is finished (after a win: FAIL), now and in every later configuration. -/
theorem noticed_ends_finished (P : Params) (n : Nat) (as : List Act) (w t : Nat) :
    (Event.won w t ∈ (reach P n as).events → ∃ x, (reach P n as).trials[t]? = some x ∧ x.core.state = .fail) ∧
    (Event.lost w t ∈ (reach P n as).events →
      ∃ x, (reach P n as).trials[t]? = some x ∧ x.core.state.isFinished = true) :=
  ⟨fun h => (reach_inv P n as).1.evOk _ h, fun h => (reach_inv P n as).1.evOk _ h⟩

/-- **failed_by_exactly_one (d)**: only the winner runs the callback: every callback invocation for
`t` was made by the one worker whose compare-and-set moved `t` to FAIL. -/
theorem callback_only_by_winner (P : Params) (n : Nat) (as : List Act) (w t : Nat) (b : Bool)
    (h : Event.callback w t b ∈ (reach P n as).events) : Event.won w t ∈ (reach P n as).events :=
  (reach_inv P n as).1.evOk _ h

/-- **failed_by_exactly_one**: over any run, the compare-and-set to FAIL succeeds at most once per
trial; if worker `w` made it, the trial is FAIL, and whoever else ran into that trial — any worker
`w'` for which a callback for `t` is logged — is `w` itself: every other noticing worker got
`UpdateFinishedTrialError` and skipped the callback. -/
theorem failed_by_exactly_one (P : Params) (n : Nat) (as : List Act) (t w : Nat)
    (h : Event.won w t ∈ (reach P n as).events) :
    cnt (Event.isWon t) (reach P n as).events = 1 ∧
    (∃ x, (reach P n as).trials[t]? = some x ∧ x.core.state = .fail) ∧
    (∀ w', Event.won w' t ∈ (reach P n as).events → w' = w) ∧
    (∀ w' b, Event.callback w' t b ∈ (reach P n as).events → w' = w) := by
  refine ⟨?_, (noticed_ends_finished P n as w t).1 h, fun w' h' => winner_unique P n as t w' w h' h, ?_⟩
  · have h1 := failed_by_at_most_one P n as t
    have h2 : 0 < cnt (Event.isWon t) (reach P n as).events := by
      simp only [cnt, List.countP_pos_iff]
      exact ⟨_, h, by simp [Event.isWon]⟩
    omega
  · intro w' b hc
    exact winner_unique P n as t w' w (callback_only_by_winner P n as w' t b hc) h

/-- The compare-and-set of the sweep is the storage contract's `set_trial_state_values(t, FAIL)`
(`Model/Storage.lean`, tied to every backend by C01): on a live finished trial it answers
`UpdateFinishedTrialError` and changes nothing; on a live unfinished one it answers `True` and the
trial is FAIL afterwards. -/
theorem cas_is_contract (s : Storage.Spec) (tid : Nat) (t : Storage.TrialS) (h : s.trial? tid = some t) :
    (t.state.isFinished = true →
      Storage.step s (.setTrialStateValues tid .fail none) = (s, .err .updateFinished)) ∧
    (t.state.isFinished = false →
      (Storage.step s (.setTrialStateValues tid .fail none)).2 = .bool true ∧
      ((Storage.step s (.setTrialStateValues tid .fail none)).1.trials[tid]?).map (·.state) = some .fail) := by
  have hraw : s.trials[tid]? = some t := ((Storage.trial?_some_iff s tid t).1 h).1
  constructor
  · intro hf
    simp [Storage.step, Storage.Spec.writable, h, hf]
  · intro hnf
    simp [Storage.step, Storage.Spec.writable, h, hnf, Storage.Spec.updTrial, updAt_getElem?, hraw]

/-! ## callback at most once, one retry per failure -/

/-- **callback_at_most_once**: the failure callback is invoked at most once per trial — over all
workers, sweeps and death points. -/
theorem callback_at_most_once (P : Params) (n : Nat) (as : List Act) (t : Nat) :
    cnt (Event.isCb t) (reach P n as).events ≤ 1 := by
  have h := (reach_inv P n as).2.cbPot t
  have := failed_by_at_most_one P n as t
  omega

/-- A callback never runs for a trial no sweep has failed. -/
theorem callback_needs_win (P : Params) (n : Nat) (as : List Act) (t : Nat) :
    cnt (Event.isCb t) (reach P n as).events ≤ cnt (Event.isWon t) (reach P n as).events := by
  have h := (reach_inv P n as).2.cbPot t
  omega

/-- **one_retry_per_failure** (events): at most one retry trial is enqueued per failed trial. -/
theorem one_retry_per_failure (P : Params) (n : Nat) (as : List Act) (t : Nat) :
    cnt (Event.isEnq t) (reach P n as).events ≤ 1 := by
  have h := (reach_inv P n as).2.enqPot t
  have h2 := cnt_le_of_imp (Event.isCbRetry t) (Event.isCb t) (reach P n as).events (by
    intro e he
    cases e with
    | callback w t' b => cases b <;> simp [Event.isCbRetry, Event.isCb] at he ⊢; exact he
    | _ => simp [Event.isCbRetry] at he)
  have := callback_at_most_once P n as t
  omega

/-- The trial a retry was made for: the last entry of its `retry_history`. -/
def parent (x : HTrial) : Option Nat := x.core.retryHistory.bind (fun h => h.getLast?)

/-- **one_retry_per_failure** (state): in every reachable state, two trials that are retries of the
same trial are the same trial. -/
theorem retry_parent_unique (P : Params) (n : Nat) (as : List Act) (t n₁ n₂ : Nat) (y₁ y₂ : HTrial)
    (h₁ : (reach P n as).trials[n₁]? = some y₁) (h₂ : (reach P n as).trials[n₂]? = some y₂)
    (p₁ : parent y₁ = some t) (p₂ : parent y₂ = some t) : n₁ = n₂ := by
  have hI := (reach_inv P n as).1
  have key : ∀ (k : Nat) (y : HTrial), (reach P n as).trials[k]? = some y → parent y = some t →
      ∃ w r, Event.enqueued w t k r ∈ (reach P n as).events := by
    intro k y hy hp
    unfold parent at hp
    cases hrh : y.core.retryHistory with
    | none => simp [hrh] at hp
    | some h =>
      simp [hrh] at hp
      obtain ⟨w, t', r, hm, hr⟩ := hI.born k y h hy hrh
      obtain ⟨_, ⟨x, _, _, hrx⟩, _⟩ := hI.evOk _ hm
      have : t' = t := by
        rw [hrx] at hr
        simp [retryOf] at hr
        rw [← hr] at hp
        simpa using hp
      subst this
      exact ⟨w, r, hm⟩
  obtain ⟨w₁, r₁, m₁⟩ := key n₁ y₁ h₁ p₁
  obtain ⟨w₂, r₂, m₂⟩ := key n₂ y₂ h₂ p₂
  by_cases he : n₁ = n₂
  · exact he
  · have := cnt_two (Event.isEnq t) _ _ _ m₁ m₂ (by intro hh; cases hh; exact he rfl)
      (by simp [Event.isEnq]) (by simp [Event.isEnq])
    have := one_retry_per_failure P n as t
    omega

/-! ## the retry chain -/

/-- **retry_chain_bounded**: with `max_retry = m`, no trial ever has a `retry_history` longer than
`m`, i.e. a chain of retries of one original trial has at most `m` members. -/
theorem retry_chain_bounded (P : Params) (n : Nat) (as : List Act) (m : Nat) (hm : P.maxRetry = some m)
    (k : Nat) (y : HTrial) (hy : (reach P n as).trials[k]? = some y) : y.core.hist.length ≤ m :=
  (reach_inv P n as).1.bounded m hm k y hy

/-- **retry_history_is_chain**: a trial `k` with a `retry_history` `h` is the retry of a trial
`p < k` that is FAIL, `h` is `p`'s own history followed by `p`, and `failed_trial` is the head of
`h` (the original trial).  A trial without `retry_history` has no `failed_trial`. -/
theorem retry_history_is_chain (P : Params) (n : Nat) (as : List Act) (k : Nat) (y : HTrial)
    (hy : (reach P n as).trials[k]? = some y) :
    match y.core.retryHistory with
    | none => y.core.failedTrial = none
    | some h =>
      y.core.failedTrial = h.head? ∧
      ∃ p x, p < k ∧ (reach P n as).trials[p]? = some x ∧ x.core.state = .fail ∧ h = x.core.hist ++ [p] := by
  have hI := (reach_inv P n as).1
  cases hrh : y.core.retryHistory with
  | none => exact hI.noHist k y hy hrh
  | some h =>
    refine ⟨(hI.headOk k y h hy hrh).1, ?_⟩
    obtain ⟨w, t, r, hm, hr⟩ := hI.born k y h hy hrh
    obtain ⟨hlt, ⟨x, hx, hf, hrx⟩, _⟩ := hI.evOk _ hm
    refine ⟨t, x, hlt, hx, hf, ?_⟩
    rw [hrx] at hr
    simp [retryOf] at hr
    exact hr.symm

/-- The history of trial `k` lists strictly increasing numbers below `k` (so it has no repetition:
a chain never loops). -/
theorem retry_history_increasing (P : Params) (n : Nat) (as : List Act) (k : Nat) (y : HTrial)
    (hy : (reach P n as).trials[k]? = some y) :
    y.core.hist.Pairwise (· < ·) ∧ ∀ a ∈ y.core.hist, a < k := by
  induction k using Nat.strongRecOn generalizing y with
  | _ k ih =>
    have hc := retry_history_is_chain P n as k y hy
    cases hrh : y.core.retryHistory with
    | none => simp [Rec.hist, hrh]
    | some h =>
      rw [hrh] at hc
      obtain ⟨_, p, x, hp, hx, _, hh⟩ := hc
      obtain ⟨ih1, ih2⟩ := ih p hp x hx
      simp only [Rec.hist, hrh, Option.getD_some]
      rw [hh]
      refine ⟨?_, ?_⟩
      · rw [List.pairwise_append]
        refine ⟨ih1, by simp, ?_⟩
        intro a ha b hb
        simp at hb; subst hb
        exact ih2 a ha
      · intro a ha
        rcases List.mem_append.mp ha with ha | ha
        · have := ih2 a ha; omega
        · simp at ha; omega

/-! ## the retry carries parameters and attributes -/

/-- **retry_carries_params_and_attrs**: every retry that was enqueued is the WAITING copy of the
failed trial *as that trial is recorded (now and for ever)*: same parameters (with distributions),
user attributes and other system attributes (e.g. `fixed_params`), `retry_history` extended by the
failed trial's number, `failed_trial` = the original trial of the chain. -/
theorem retry_carries_params_and_attrs (P : Params) (n : Nat) (as : List Act) (w t k : Nat) (r : Rec)
    (h : Event.enqueued w t k r ∈ (reach P n as).events) :
    ∃ x, (reach P n as).trials[t]? = some x ∧ x.core.state = .fail ∧ r.state = .waiting ∧
      r.params = x.core.params ∧ r.userAttrs = x.core.userAttrs ∧ r.otherSys = x.core.otherSys ∧
      r.retryHistory = some (x.core.hist ++ [t]) ∧ r.failedTrial = some (x.core.failedTrial.getD t) := by
  obtain ⟨_, ⟨x, hx, hf, hr⟩, _⟩ := (reach_inv P n as).1.evOk _ h
  subst hr
  exact ⟨x, hx, hf, rfl, rfl, rfl, rfl, rfl, rfl⟩

/-- … and that record is what `add_trial` appends: when a worker is inside the callback for `t`
(whatever happened since it took its copy), its next step appends exactly the WAITING copy of the
*current* record of `t`, which is FAIL. -/
theorem enqueue_appends_copy (P : Params) (n : Nat) (as : List Act) (w t : Nat) (snap : Rec)
    (todo ord : List Nat) (hw : (reach P n as).workers[w]? = some (.enqueue t snap todo)) :
    ∃ x, (reach P n as).trials[t]? = some x ∧ x.core.state = .fail ∧
      (step P (reach P n as) (.sweep w ord)).trials =
        (reach P n as).trials ++ [⟨retryOf t x.core, none⟩] := by
  obtain ⟨⟨x, hx, hxs⟩, hf, _⟩ := (reach_inv P n as).2.snapOk w t snap todo hw
  refine ⟨x, hx, by rw [hxs]; exact hf, ?_⟩
  simp only [step, sweepStep, hw, hxs]

/-! ## untouched if not stale -/

/-- What "not stale" means: no recorded heartbeat, a heartbeat within the grace period, or not RUNNING. -/
theorem not_stale_cases (g : Nat) (x : HTrial)
    (h : x.hb = none ∨ (∃ a, x.hb = some a ∧ a ≤ g) ∨ x.core.state ≠ .running) : x.isStale g = false := by
  cases hs : x.isStale g with
  | false => rfl
  | true =>
    obtain ⟨h1, a, h2, h3⟩ := (isStale_iff g x).mp hs
    rcases h with h | ⟨b, hb, hle⟩ | h
    · rw [h] at h2; cases h2
    · rw [hb] at h2; cases h2; omega
    · exact absurd h1 h

/-- The stale read notices exactly the trials that are RUNNING with a heartbeat row older than the
grace period, and changes no trial. -/
theorem sweep_reads_exactly_stale (P : Params) (c : Cfg) (w : Nat) (ord : List Nat)
    (hw : c.workers[w]? = some .idle) :
    ∃ ids, (sweepStep P c w ord).workers[w]? = some (Phase.norm P.hasCb (.failing ids [])) ∧
      (sweepStep P c w ord).trials = c.trials ∧
      ∀ t, t ∈ ids ↔ ∃ x, c.trials[t]? = some x ∧ x.core.state = .running ∧ ∃ a, x.hb = some a ∧ P.grace < a := by
  refine ⟨orderBy ord (staleIds P.grace c.trials), ?_, ?_, ?_⟩
  · simp [sweepStep, hw, Cfg.setPhase, updAt_getElem?]
  · simp [sweepStep, hw, Cfg.setPhase]
  · intro t
    rw [mem_orderBy, mem_staleIds]
    constructor
    · rintro ⟨x, hx, hs⟩; exact ⟨x, hx, (isStale_iff _ _).mp hs⟩
    · rintro ⟨x, hx, hs⟩; exact ⟨x, hx, (isStale_iff _ _).mpr hs⟩

/-- How a sweep step may change the list of trials: not at all, by one successful compare-and-set
on the id at the head of the worker's to-do list, or by appending one trial. -/
theorem sweep_trials_cases (P : Params) (c : Cfg) (w : Nat) (ord : List Nat) :
    (sweepStep P c w ord).trials = c.trials ∨
    (∃ t todo won x, c.workers[w]? = some (.failing (t :: todo) won) ∧ c.trials[t]? = some x ∧
        ¬ x.core.state.isFinished = true ∧ (sweepStep P c w ord).trials = updAt c.trials t (setState .fail)) ∨
    (∃ y, (sweepStep P c w ord).trials = c.trials ++ [y]) := by
  unfold sweepStep
  split
  · exact Or.inl rfl
  · exact Or.inl rfl
  · exact Or.inl rfl
  · exact Or.inl rfl
  · rename_i t todo won hw
    split
    · exact Or.inl rfl
    · rename_i x hx
      split
      · exact Or.inl rfl
      · rename_i hnf
        exact Or.inr (Or.inl ⟨t, todo, won, x, hw, hx, hnf, rfl⟩)
  · exact Or.inl rfl
  · split
    · exact Or.inl rfl
    · split <;> exact Or.inl rfl
  · exact Or.inr (Or.inr ⟨_, rfl⟩)

/-- **finished trials are never touched** (in any configuration whatsoever): no sweep step changes
the record or the heartbeat row of a finished trial. -/
theorem finished_untouched (P : Params) (c : Cfg) (w : Nat) (ord : List Nat) (t : Nat) (x : HTrial)
    (hx : c.trials[t]? = some x) (hf : x.core.state.isFinished = true) :
    (sweepStep P c w ord).trials[t]? = some x := by
  have hlt : t < c.trials.length := getElem?_lt_length hx
  rcases sweep_trials_cases P c w ord with h | ⟨t', todo, won, x', _, hx', hnf, h⟩ | ⟨y, h⟩
  · rw [h]; exact hx
  · rw [h, updAt_getElem?]
    by_cases he : t = t'
    · subst he; rw [hx] at hx'; cases hx'; exact absurd hf hnf
    · simp [he, hx]
  · rw [h, List.getElem?_append_left hlt]; exact hx

/-- Some worker has read `t` as stale and has not yet tried to fail it. -/
def Pending (c : Cfg) (t : Nat) : Prop := ∃ (w : Nat) (ph : Phase), c.workers[w]? = some ph ∧ t ∈ ph.failTodo

/-- A sweep step leaves every trial alone that no worker has pending. -/
theorem sweep_touches_only_pending (P : Params) (c : Cfg) (w : Nat) (ord : List Nat) (t : Nat) (x : HTrial)
    (hx : c.trials[t]? = some x) (hp : ¬ Pending c t) : (sweepStep P c w ord).trials[t]? = some x := by
  have hlt : t < c.trials.length := getElem?_lt_length hx
  rcases sweep_trials_cases P c w ord with h | ⟨t', todo, won, x', hw, _, _, h⟩ | ⟨y, h⟩
  · rw [h]; exact hx
  · rw [h, updAt_getElem?]
    by_cases he : t = t'
    · subst he
      exact absurd ⟨w, _, hw, by simp [Phase.failTodo]⟩ hp
    · simp [he, hx]
  · rw [h, List.getElem?_append_left hlt]; exact hx

/-- A trial becomes pending only through a stale read at which it was stale. -/
theorem pending_origin (P : Params) (c : Cfg) (a : Act) (t : Nat) (h : Pending (step P c a) t) :
    Pending c t ∨ ∃ w ord, a = .sweep w ord ∧ c.workers[w]? = some .idle ∧ t ∈ staleIds P.grace c.trials := by
  obtain ⟨w', ph', hw', ht'⟩ := h
  -- generic: a re-phasing of worker `w` to a phase whose `failTodo` is a sublist of the old one
  have shrink : ∀ (w : Nat) (ph pn : Phase), c.workers[w]? = some ph → pn.failTodo.Sublist ph.failTodo →
      (updAt c.workers w (fun _ => pn))[w']? = some ph' → Pending c t := by
    intro w ph pn hw hs hget
    rw [updAt_getElem?] at hget
    by_cases he : w' = w
    · subst he
      simp [hw] at hget; subst hget
      exact ⟨w', ph, hw, hs.subset ht'⟩
    · simp [he] at hget
      exact ⟨w', ph', hget, ht'⟩
  cases a with
  | env op => exact Or.inl ⟨w', ph', hw', ht'⟩
  | die w =>
    simp only [step, Cfg.setPhase] at hw'
    cases hw : c.workers[w]? with
    | none =>
      rw [updAt_getElem?] at hw'
      by_cases he : w' = w
      · subst he; simp [hw] at hw'
      · simp [he] at hw'; exact Or.inl ⟨w', ph', hw', ht'⟩
    | some ph => exact Or.inl (shrink w ph .dead hw (by simp [Phase.failTodo]) hw')
  | sweep w ord =>
    simp only [step] at hw'
    unfold sweepStep at hw'
    split at hw'
    · exact Or.inl ⟨w', ph', hw', ht'⟩
    · exact Or.inl ⟨w', ph', hw', ht'⟩
    · rename_i hw
      simp only [Cfg.setPhase] at hw'
      rw [updAt_getElem?] at hw'
      by_cases he : w' = w
      · subst he
        simp [hw] at hw'; subst hw'
        right
        refine ⟨w', ord, rfl, hw, ?_⟩
        have := (norm_failing_failTodo P.hasCb (orderBy ord (staleIds P.grace c.trials)) []).subset ht'
        exact (mem_orderBy _ _ _).mp this
      · simp [he] at hw'; exact Or.inl ⟨w', ph', hw', ht'⟩
    · rename_i won hw
      exact Or.inl (shrink w _ _ hw (norm_failing_failTodo _ _ _) hw')
    · rename_i t' todo won hw
      have hsub : ∀ won', (Phase.norm P.hasCb (.failing todo won')).failTodo.Sublist
          (Phase.failing (t' :: todo) won).failTodo :=
        fun won' => (norm_failing_failTodo _ _ _).trans (List.sublist_cons_self _ _)
      split at hw'
      · exact Or.inl (shrink w _ _ hw (hsub _) hw')
      · split at hw'
        · exact Or.inl (shrink w _ _ hw (hsub _) hw')
        · exact Or.inl (shrink w _ _ hw (hsub _) hw')
    · rename_i hw
      exact Or.inl (shrink w _ _ hw (by simp [Phase.failTodo]) hw')
    · rename_i t' todo hw
      split at hw'
      · exact Or.inl (shrink w _ _ hw (by rw [norm_calling_failTodo]; simp [Phase.failTodo]) hw')
      · split at hw'
        · exact Or.inl (shrink w _ _ hw (by rw [norm_calling_failTodo]; simp [Phase.failTodo]) hw')
        · exact Or.inl (shrink w _ _ hw (by simp [Phase.failTodo]) hw')
    · rename_i t' snap todo hw
      exact Or.inl (shrink w _ _ hw (by rw [norm_calling_failTodo]; simp [Phase.failTodo]) hw')

theorem init_not_pending (n t : Nat) : ¬ Pending (init n) t := by
  rintro ⟨w, ph, hw, ht⟩
  simp only [init] at hw
  rw [List.getElem?_replicate] at hw
  split at hw
  · simp at hw; subst hw; simp [Phase.failTodo] at ht
  · simp at hw

/-- **untouched_if_not_stale**: take any schedule `as` and any trial number `t`.  If at every stale
read of the run `t` is not stale at that moment (no heartbeat row, or a heartbeat within the grace
period, or not RUNNING — see `not_stale_cases`), then no sweep step of the whole run, by any worker,
changes trial `t` (neither its record nor its heartbeat row). -/
theorem untouched_if_not_stale (P : Params) (n : Nat) (as : List Act) (t : Nat)
    (hns : ∀ k w ord, as[k]? = some (.sweep w ord) →
      (reach P n (as.take k)).workers[w]? = some .idle →
      t ∉ staleIds P.grace (reach P n (as.take k)).trials) :
    ∀ k w ord x, as[k]? = some (.sweep w ord) → (reach P n (as.take k)).trials[t]? = some x →
      (reach P n (as.take (k + 1))).trials[t]? = some x := by
  have np : ∀ k, ¬ Pending (reach P n (as.take k)) t := by
    intro k
    induction k with
    | zero => simpa [reach, run] using init_not_pending n t
    | succ k ih =>
      rw [List.take_add_one]
      cases hk : as[k]? with
      | none => simpa using ih
      | some a =>
        simp only [Option.toList_some]
        rw [reach_snoc]
        intro hp
        rcases pending_origin P _ a t hp with h | ⟨w, ord, ha, hw, hst⟩
        · exact ih h
        · subst ha; exact hns k w ord hk hw hst
  intro k w ord x hk hx
  rw [List.take_add_one, hk]
  simp only [Option.toList_some]
  rw [reach_snoc]
  exact sweep_touches_only_pending P _ w ord t x hx (np k)

/-! ## failed by AT LEAST one — under the hypotheses that make it true

`failed_by_exactly_one` above starts from a logged win: without one it only says "at most one winner" (alias
`failed_by_at_most_one_winner`).  Nothing forces a stale trial to be failed at all: every sweeper may die first, or another
actor may finish the trial first (then the sweepers lose their compare-and-set, which is correct).  What makes "at least one"
true is stated here exactly, on the reachable configurations (`reach`, `reach_inv`):
a LIVE sweeper `w` stands at the trial (`failing (t :: todo) won`: it read `t` as stale and its next storage call is the
compare-and-set for `t`), the trial is still unfinished in that configuration (nobody finished it first — for a trial read as
stale this means it is still RUNNING), and `w` takes that step. -/

/-- the ghost log only grows -/
theorem events_step (P : Params) (c : Cfg) (a : Act) (e : Event) (h : e ∈ c.events) : e ∈ (step P c a).events := by
  cases a with
  | die w => exact h
  | env op => exact h
  | sweep w ord =>
    simp only [step, sweepStep]
    repeat' split
    all_goals simp [Cfg.setPhase, h]

theorem events_run (P : Params) (c : Cfg) (as : List Act) (e : Event) (h : e ∈ c.events) : e ∈ (run P c as).events := by
  induction as generalizing c with
  | nil => exact h
  | cons a rest ih => exact ih _ (events_step P c a e h)

theorem reach_append (P : Params) (n : Nat) (as bs : List Act) : reach P n (as ++ bs) = run P (reach P n as) bs := by
  simp [reach, run, List.foldl_append]

/-- **failed_by_at_least_one**: if in a reachable configuration the live sweeper `w` stands at trial `t`, `t` is still
unfinished there, and the next action is `w`'s sweep step, then that step moves `t` to FAIL and logs the win — and the win
stays logged whatever happens afterwards (`more`: any further actions of anybody, deaths included). -/
theorem failed_by_at_least_one (P : Params) (n : Nat) (as : List Act) (w t : Nat) (todo won ord : List Nat) (x : HTrial)
    (more : List Act)
    (hw : (reach P n as).workers[w]? = some (.failing (t :: todo) won))
    (hx : (reach P n as).trials[t]? = some x) (hnf : x.core.state.isFinished = false) :
    Event.won w t ∈ (reach P n (as ++ .sweep w ord :: more)).events ∧
    (reach P n (as ++ [.sweep w ord])).trials[t]? = some (setState .fail x) := by
  have hcas := (cas_decides P (reach P n as) w t ord todo won x hw hx).1 hnf
  have hstep : reach P n (as ++ [.sweep w ord]) = sweepStep P (reach P n as) w ord := reach_snoc P n as _
  refine ⟨?_, by rw [hstep]; exact hcas.2.1⟩
  have : reach P n (as ++ .sweep w ord :: more) = run P (sweepStep P (reach P n as) w ord) more := by
    rw [reach_append]; rfl
  rw [this]
  apply events_run
  rw [hcas.1]; simp

/-- **failed_by_exactly_one_of_swept**: under the same hypotheses exactly one worker — `w` — fails the trial: in every later
configuration the compare-and-set to FAIL has succeeded exactly once for `t`, `t` is FAIL, every logged winner and every
logged callback invocation for `t` is `w`'s. -/
theorem failed_by_exactly_one_of_swept (P : Params) (n : Nat) (as : List Act) (w t : Nat) (todo won ord : List Nat)
    (x : HTrial) (more : List Act)
    (hw : (reach P n as).workers[w]? = some (.failing (t :: todo) won))
    (hx : (reach P n as).trials[t]? = some x) (hnf : x.core.state.isFinished = false) :
    cnt (Event.isWon t) (reach P n (as ++ .sweep w ord :: more)).events = 1 ∧
    (∃ y, (reach P n (as ++ .sweep w ord :: more)).trials[t]? = some y ∧ y.core.state = .fail) ∧
    (∀ w', Event.won w' t ∈ (reach P n (as ++ .sweep w ord :: more)).events → w' = w) ∧
    (∀ w' b, Event.callback w' t b ∈ (reach P n (as ++ .sweep w ord :: more)).events → w' = w) :=
  failed_by_exactly_one P n _ t w (failed_by_at_least_one P n as w t todo won ord x more hw hx hnf).1

/-- what `failed_by_exactly_one` says when no win is assumed: at most one winner (the name `failed_by_at_most_one` is the
counting form above) -/
theorem failed_by_at_most_one_winner (P : Params) (n : Nat) (as : List Act) (t w w' : Nat)
    (h : Event.won w t ∈ (reach P n as).events) (h' : Event.won w' t ∈ (reach P n as).events) : w = w' :=
  winner_unique P n as t w w' h h'

/-! ## non-vacuity: a two-worker race, a death inside the callback, a chain cut by `max_retry` -/

def demoP : Params := { grace := 100, hasCb := true, maxRetry := some 1 }

/-- trial 0 is created, beats, 500 s pass; workers 0 and 1 both read it as stale; 1 wins the
compare-and-set, 0 loses; 1 runs the callback and enqueues trial 1; trial 1 is claimed, beats, goes
stale, worker 0 fails it and its callback hits `max_retry = 1`. -/
def demo : List Act :=
  [ .env .create, .env (.setParam 0 "x" "0.5"), .env (.setUserAttr 0 "u" "1"), .env (.beat 0), .env (.tick 500),
    .sweep 0 [], .sweep 1 [], .sweep 1 [], .sweep 0 [], .sweep 1 [], .sweep 1 [],
    .env (.claim 1), .env (.beat 1), .env (.tick 500),
    .sweep 0 [], .sweep 0 [], .sweep 0 [] ]

example : (reach demoP 2 demo).events.reverse =
    [ .read 0 [0], .read 1 [0], .won 1 0, .lost 0 0, .callback 1 0 true,
      .enqueued 1 0 1 { state := .waiting, params := [("x", "0.5")], userAttrs := [("u", "1")],
                        failedTrial := some 0, retryHistory := some [0], otherSys := [] },
      .read 0 [1], .won 0 1, .callback 0 1 false ] := by decide

example : ((reach demoP 2 demo).trials.map (fun x => x.core.state)) = [.fail, .fail] := by decide

/-- the winner dies inside the callback: the trial stays FAIL, nobody else retries it -/
example : (reach demoP 2 (demo.take 10 ++ [.die 1, .sweep 1 [], .sweep 0 [], .sweep 0 []])).trials.length = 1 := by
  decide

/-- a trial without a heartbeat row, one with a fresh heartbeat and a finished one are not noticed -/
example : (reach demoP 1 [.env .create, .env .create, .env .create, .env (.beat 1), .env (.beat 2),
    .env (.tick 500), .env (.beat 1), .env (.finish 2 .complete), .sweep 0 []]).events = [.read 0 []] := by decide

/-- and when the hypotheses fail nobody wins: all sweepers dead before the compare-and-set ⇒ the stale trial stays RUNNING -/
example : (reach demoP 2 (demo.take 7 ++ [.die 0, .die 1, .sweep 0 [], .sweep 1 []])).trials.map (fun x => x.core.state) =
    [.running] := by decide


/-- `failed_by_at_least_one` on the demo: after the two reads (7 actions) worker 1 stands at trial 0, still RUNNING -/
example : (reach demoP 2 (demo.take 7)).workers[1]? = some (.failing [0] []) ∧
    ((reach demoP 2 (demo.take 7)).trials[0]?).map (fun x => x.core.state.isFinished) = some false := by decide

end OptunaVerif.C19
