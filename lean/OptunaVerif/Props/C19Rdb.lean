import OptunaVerif.Lemmas.RdbHbTransfer
import OptunaVerif.Props.C19
import OptunaVerif.Props.C01Rdb
import Mathlib.Logic.Equiv.List
import Std.Data.String.ToNat
/-!
# C19 on the SQL side — the heartbeat tables of `RDBStorage` refine the abstract sweep model

`Model/RdbHeartbeat.lean` puts `record_heartbeat`, `_get_stale_trial_ids`, `fail_stale_trials` and
`RetryFailedTrialCallback.__call__` on top of the relational model of `RDBStorage` (`Model/RdbLogic.lean`, eleven
tables + the `heartbeat` column, timestamps in µs on the database clock).  The staleness test, the query filter, the
grace-period default, the handling of the compare-and-set answers and the retry arithmetic are the definitions
*generated* from the Python source (`Generated/StaleGen.lean`).  Proved here:

* `stale_query_exact` — for EVERY table state satisfying the table invariant, the stale query returns exactly the
  RUNNING trials of the study with a heartbeat row older than the grace period (strictly, in µs), in id order;
* `sweep_step_refines_heartbeat_model`, `sweep_refines_heartbeat_model`, `history_refines_heartbeat_model` — one
  storage call of a sweep / one whole `fail_stale_trials` call / EVERY history of sweeps of any number of workers,
  deaths, heartbeats, clock ticks and storage calls of other actors is a run of the abstract model of
  `Model/Heartbeat.lean` on the abstraction; hence the theorems of `Props/C19.lean` hold of the tables
  (`rdb_failed_by_exactly_one`, `rdb_callback_at_most_once`, `rdb_one_retry_per_failure`, `rdb_retry_chain_bounded`,
  `rdb_retry_carries_params_and_attrs`, `rdb_sweep_never_raises`);
* `untouched_if_not_stale`, `sweep_step_touches_only_noticed` — at the level of table rows;
* `retry_enqueues_one_waiting_copy` — the retry, field by field, with the exact system attributes.

Assumed (`POk`, `EnvOk`): the JSON codec round-trips a number and a list of numbers; the constructor accepted
`heartbeat_interval` / `grace_period`; nobody deletes a study, puts a trial of the study back to WAITING, writes the
callback's two system attributes, or adds a trial to the study that is not a plain queued one.
-/
namespace OptunaVerif.C19Rdb
open OptunaVerif OptunaVerif.Storage OptunaVerif.Rdb OptunaVerif.RdbHb
open OptunaVerif.Generated

/-! ## the generated code says what the property needs -/

/-- **stale_test_strict_microseconds** (against the generated `rowVerdict`): a trial with one heartbeat row is stale
iff `now - heartbeat > grace_period` seconds, strictly, with no truncation (µs); without a row it is skipped. -/
theorem stale_test_strict_microseconds (now ts g : Int) :
    StaleGen.rowVerdict now [] g = .skip ∧
    StaleGen.rowVerdict now [ts] g = (if now - ts > g * 1000000 then .stale else .fresh) :=
  ⟨rowVerdict_le_one now g [] (by simp), rowVerdict_le_one now g [ts] (by simp)⟩

example : StaleGen.rowVerdict 120000000 [0] 120 = .fresh ∧ StaleGen.rowVerdict 120000001 [0] 120 = .stale ∧
    StaleGen.rowVerdict (86400000000 + 10000000) [0] 120 = .stale ∧ StaleGen.rowVerdict 0 [5000000] 120 = .fresh := by decide

/-- **query_filters_running_of_study** (against the generated `queryFilter`) -/
theorem query_filters_running_of_study (st : TState) (study sid : Nat) :
    StaleGen.queryFilter st study sid = true ↔ st = .running ∧ study = sid := queryFilter_iff st study sid

example : StaleGen.queryFilter .waiting 3 3 = false ∧ StaleGen.queryFilter .running 3 4 = false ∧ StaleGen.queryFilter .running 3 3 = true := by decide

/-- **grace_default** (against the generated `effectiveGrace` and constructor tests): `grace_period`, or twice the
heartbeat interval; positive for every storage the constructor accepts. -/
theorem grace_default (hbInterval : Int) (gp : Option Int) :
    StaleGen.effectiveGrace hbInterval gp = (match gp with | none => 2 * hbInterval | some g => g) ∧
    (StaleGen.heartbeatIntervalRejected (some hbInterval) = false → StaleGen.gracePeriodRejected gp = false →
      0 < StaleGen.effectiveGrace hbInterval gp) :=
  ⟨effectiveGrace_eq hbInterval gp, effectiveGrace_pos hbInterval gp⟩

example : StaleGen.effectiveGrace 60 none = 120 ∧ StaleGen.effectiveGrace 60 (some 7) = 7 ∧
    StaleGen.heartbeatIntervalRejected (some 0) = true ∧ StaleGen.gracePeriodRejected (some (-1)) = true := by decide

/-- **retry_arithmetic** (against the generated callback data): `RetryFailedTrialCallback` gives up iff
`max_retry < len(retry_history) + 1`, and otherwise hands `add_trial` a WAITING template with the failed trial's
parameters, user attributes and (iff `inherit_intermediate_values`) intermediate values, whose system attributes are
`{"failed_trial": number, "retry_history": [], **system_attrs}` with `retry_history` extended by the number. -/
theorem retry_arithmetic (C : Codec) (hC : C.Lawful) (cb : CbCfg) (t : TrialS) (hw : WfSys C t.systemAttrs) :
    retryTemplate C cb t =
      if Heartbeat.exceeds (cb.maxRetry.map Int.toNat) (recOf C t) then .gaveUp else .enqueue (retryTmpl C cb t) :=
  retryTemplate_eq C hC cb t hw

/-! ## the stale query, for every table state -/

/-- **stale_query_exact**: in every table state that satisfies the table invariant (`HInv`: unique ids, foreign keys,
UNIQUE (trial_id) on `trial_heartbeats`, NOT NULL `heartbeat`), for every database time `now`, study id, heartbeat
interval and grace period, `_get_stale_trial_ids` answers (no exception) a list that is strictly increasing (table
order, no repetition) and contains an id **iff** it is the id of a `trials` row of that study in state RUNNING that has
a `trial_heartbeats` row whose `heartbeat` is more than the grace period (µs, strict) before `now`. -/
theorem stale_query_exact (s : HState) (hs : HInv s) (now hbInterval : Int) (gp : Option Int) (sid : Nat) :
    ∃ ids, getStaleTrialIds s now hbInterval gp sid = .ok ids ∧ ids.Pairwise (· < ·) ∧
      ∀ tid, tid ∈ ids ↔
        ∃ r ∈ s.db.trials, r.id = tid ∧ r.study = sid ∧ r.state = .running ∧
          ∃ b ∈ s.db.beats, b.owner = tid ∧ ∃ ts, stampOf s.stamps b.id = some ts ∧
            now - ts > (match gp with | none => 2 * hbInterval | some g => g) * 1000000 := by
  refine ⟨_, getStaleTrialIds_eq s hs.inv.1 now hbInterval gp sid, ?_, ?_⟩
  · rw [List.pairwise_map]
    exact ((hs.inv.1.trialsSorted.sublist List.filter_sublist).sublist List.filter_sublist).imp (by intro a b h; exact h)
  · intro tid
    simp only [List.mem_map, List.mem_filter, mem_staleCandidates, staleRow_iff s hs.inv.1]
    rw [effectiveGrace_eq]
    constructor
    · rintro ⟨r, ⟨⟨hr, hst, hsd⟩, b, hb, ho, ts, hts, hgt⟩, hid⟩
      exact ⟨r, hr, hid, hsd, hst, b, hb, by rw [← hid]; exact ho, ts, hts, hgt⟩
    · rintro ⟨r, hr, hid, hsd, hst, b, hb, ho, ts, hts, hgt⟩
      exact ⟨r, ⟨⟨hr, hst, hsd⟩, b, hb, by rw [hid]; exact ho, ts, hts, hgt⟩, hid⟩

/-- … so a trial **without a heartbeat row** is never returned, -/
theorem stale_never_without_heartbeat (s : HState) (hs : HInv s) (now hbInterval : Int) (gp : Option Int) (sid tid : Nat)
    (ids : List Nat) (h : getStaleTrialIds s now hbInterval gp sid = .ok ids) (hno : ∀ b ∈ s.db.beats, b.owner ≠ tid) : tid ∉ ids := by
  obtain ⟨ids', h', _, hiff⟩ := stale_query_exact s hs now hbInterval gp sid
  rw [h] at h'; cases h'
  intro hm
  obtain ⟨_, _, _, _, _, b, hb, ho, _⟩ := (hiff tid).mp hm
  exact hno b hb ho

/-- a trial whose heartbeat is **within the grace period** (age ≤ grace, including an age of exactly the grace period
and a heartbeat from the future) is never returned, -/
theorem stale_never_fresh (s : HState) (hs : HInv s) (now hbInterval : Int) (gp : Option Int) (sid tid : Nat)
    (ids : List Nat) (h : getStaleTrialIds s now hbInterval gp sid = .ok ids)
    (b : KRow Unit Unit) (hb : b ∈ s.db.beats) (ho : b.owner = tid) (ts : Int) (hts : stampOf s.stamps b.id = some ts)
    (hfresh : now - ts ≤ StaleGen.effectiveGrace hbInterval gp * 1000000) : tid ∉ ids := by
  rw [getStaleTrialIds_eq s hs.inv.1] at h
  simp only [Except.ok.injEq] at h
  subst h
  intro hm
  obtain ⟨r, hr, hid⟩ := List.mem_map.mp hm
  obtain ⟨b', hb', ho', ts', hts', hgt⟩ := (staleRow_iff s hs.inv.1 now _ r).mp (List.mem_filter.mp hr).2
  rw [hid] at ho'
  have e1 := beats_ofOwner_eq_singleton _ _ hs.inv.1.beats b hb
  have e2 := beats_ofOwner_eq_singleton _ _ hs.inv.1.beats b' hb'
  rw [ho] at e1; rw [ho', e1] at e2
  simp only [List.cons.injEq, and_true] at e2
  subst e2
  rw [hts] at hts'; cases hts'
  omega

/-- a trial that is **not RUNNING** (finished, or still WAITING) is never returned, nor is a trial of another study. -/
theorem stale_never_finished_or_foreign (s : HState) (hs : HInv s) (now hbInterval : Int) (gp : Option Int) (sid : Nat)
    (ids : List Nat) (h : getStaleTrialIds s now hbInterval gp sid = .ok ids) (r : TrialRow) (hr : r ∈ s.db.trials)
    (hn : r.state ≠ .running ∨ r.study ≠ sid) : r.id ∉ ids := by
  obtain ⟨ids', h', _, hiff⟩ := stale_query_exact s hs now hbInterval gp sid
  rw [h] at h'; cases h'
  intro hm
  obtain ⟨r', hr', hid, hsd, hst, _⟩ := (hiff r.id).mp hm
  have : r' = r := by
    rcases pairwise_mem_cases hs.inv.1.trialsSorted hr' hr with e | e | e
    · exact e
    · omega
    · omega
  subst this
  rcases hn with hn | hn
  · exact hn hst
  · exact hn hsd

/-! ### non-vacuity: five trials, one of each kind -/

/-- study 0 with trials 0..4 (0: RUNNING, heartbeat 130 s old; 1: RUNNING, heartbeat exactly 120 s old; 2: RUNNING, no
heartbeat; 3: COMPLETE, old heartbeat; 4: RUNNING, heartbeat from the future) and study 1 with trial 5 (RUNNING, old) -/
def demoState : HState :=
  let ops : List Op := [.createStudy "a" [1], .createStudy "b" [1], .createTrial 0 none false, .createTrial 0 none false,
    .createTrial 0 none false, .createTrial 0 none false, .createTrial 0 none false, .createTrial 1 none false,
    .setTrialStateValues 3 .complete (some [.fin 1])]
  let db := Rdb.run ops
  let s0 : HState := { db := db, stamps := [] }
  let s1 := (recordHeartbeat s0 (1000 * 1000000) 0).1
  let s2 := (recordHeartbeat s1 (1010 * 1000000) 1).1
  let s3 := (recordHeartbeat s2 (100 * 1000000) 3).1
  let s4 := (recordHeartbeat s3 (2000 * 1000000) 4).1
  (recordHeartbeat s4 (100 * 1000000) 5).1

set_option maxRecDepth 8000 in
example : getStaleTrialIds demoState (1130 * 1000000) 60 none 0 = .ok [0] ∧
    getStaleTrialIds demoState (1130 * 1000000 + 1) 60 none 0 = .ok [0, 1] ∧
    getStaleTrialIds demoState (1130 * 1000000) 60 none 1 = .ok [5] ∧
    getStaleTrialIds demoState (1130 * 1000000) 60 (some 1031) 0 = .ok [] := by decide

/-! ## the refinement -/

/-- **sweep_step_refines_heartbeat_model**: in any configuration satisfying the invariant `RInv`, one storage call of
worker `w`'s `fail_stale_trials` on the tables is exactly one step of the abstract sweep on the abstraction (the stale
ids in table order), and the invariant is kept. -/
theorem sweep_step_refines_heartbeat_model (P : Params) (hP : POk P) (c : Cfg) (h : RInv P c) (w : Nat) :
    absCfg P (sweepStep P c w) = Heartbeat.sweepStep (absParams P) (absCfg P c) w [] ∧ RInv P (sweepStep P c w) :=
  sweep_sim P hP c h w

/-- **sweep_refines_heartbeat_model**: one whole call `fail_stale_trials(study)` by worker `w`, nobody acting in
between, is a run of the abstract sweep: some number `k` of steps of that worker. -/
theorem sweep_refines_heartbeat_model (P : Params) (hP : POk P) (c : Cfg) (h : RInv P c) (w : Nat) :
    ∃ k, absCfg P (failStaleTrials P c w) =
        Heartbeat.run (absParams P) (absCfg P c) (List.replicate k (.sweep w [])) ∧ RInv P (failStaleTrials P c w) :=
  failStaleTrials_sim P hP c h w

/-- **fail_stale_trials_returns**: the whole call ends — afterwards the worker is not inside a sweep (the number of
storage calls is bounded by three per stale id plus two). -/
theorem fail_stale_trials_returns (P : Params) (c : Cfg) (w : Nat) (hw : w < c.workers.length) :
    (failStaleTrials P c w).busy w = false := failStaleTrials_returns P c w hw

/-- a database in which the study exists, has no trial yet, and nobody has recorded a heartbeat -/
structure Fresh (P : Params) (db : Rdb.State) : Prop where
  abs : ∃ a, Abs db a ∧ (a.study? P.sid).isSome = true
  empty : studyList db P.sid = []
  noBeats : db.beats = []

/-- the configuration after a history of actions, started from such a database with `n` idle workers -/
def reach (P : Params) (db : Rdb.State) (now : Int) (n : Nat) (as : List Act) : Cfg := run P (startCfg db now n) as

/-- **history_refines_heartbeat_model**: EVERY history — sweep storage calls of any number of workers in any
interleaving, deaths at any point, `record_heartbeat`, clock ticks, and admissible `BaseStorage` calls of anybody on any
study — leads to tables whose abstraction is the configuration the abstract model of `Props/C19.lean` reaches by the
corresponding schedule from the empty study. -/
theorem history_refines_heartbeat_model (P : Params) (hP : POk P) (db : Rdb.State) (hf : Fresh P db) (now : Int) (n : Nat)
    (as : List Act) (hok : RunOk P (startCfg db now n) as) :
    absCfg P (reach P db now n as) = C19.reach (absParams P) n (absRun P (startCfg db now n) as) ∧
    RInv P (reach P db now n as) := by
  obtain ⟨a, ha, hl⟩ := hf.abs
  obtain ⟨h0, e0⟩ := start_ok P db a ha hl hf.empty hf.noBeats now n
  obtain ⟨h1, h2⟩ := run_sim' P hP (startCfg db now n) h0 as hok
  refine ⟨?_, h2⟩
  unfold reach C19.reach
  rw [h1, e0]

/-- what the corollaries below are about: a configuration that satisfies the invariant and whose abstraction is
reachable in the abstract model (every `reach` above is one) -/
def Reached (P : Params) (n : Nat) (c : Cfg) : Prop := RInv P c ∧ ∃ as', absCfg P c = C19.reach (absParams P) n as'

theorem reached_of_history (P : Params) (hP : POk P) (db : Rdb.State) (hf : Fresh P db) (now : Int) (n : Nat)
    (as : List Act) (hok : RunOk P (startCfg db now n) as) : Reached P n (reach P db now n as) := by
  obtain ⟨h1, h2⟩ := history_refines_heartbeat_model P hP db hf now n as hok
  exact ⟨h2, _, h1⟩

/-! ## the theorems of `Props/C19.lean`, about the tables -/

/-- **rdb_failed_by_exactly_one**: over any history, `set_trial_state_values(t, FAIL)` of a sweep answers `True` at most
once per trial — over all workers and all their sweeps.  If worker `w` got that answer, the trial is FAIL in the tables,
no other worker got it, and every callback invocation for `t` was made by `w`. -/
theorem rdb_failed_by_exactly_one (P : Params) (n : Nat) (c : Cfg) (hr : Reached P n c) (t : Nat) :
    c.events.countP (Event.isWon t) ≤ 1 ∧
    ∀ w, Event.won w t ∈ c.events →
      (∃ p ∈ studyList c.hs.db P.sid, p.1 = t ∧ p.2.state = .fail) ∧
      (∀ w', Event.won w' t ∈ c.events → w' = w) ∧
      (∀ w' b, Event.callback w' t b ∈ c.events → w' = w) := by
  obtain ⟨h, as', habs⟩ := hr
  refine ⟨won_count P c h t 1 (fun k => by rw [habs]; exact C19.failed_by_at_most_one _ n as' k), ?_⟩
  intro w hw
  have ht : t ∈ (studyList c.hs.db P.sid).map (·.1) := h.evIn _ hw t (by simp [Event.ids])
  have hw' : Heartbeat.Event.won w (numOf (studyList c.hs.db P.sid) t) ∈ (C19.reach (absParams P) n as').events := by
    rw [← habs]; exact mem_abs_events P c _ _ hw rfl
  obtain ⟨_, ⟨x, hx, hxf⟩, huniq, hcb⟩ := C19.failed_by_exactly_one _ n as' _ w hw'
  refine ⟨?_, ?_, ?_⟩
  · rw [← habs] at hx
    obtain ⟨p, hp, hpt, e⟩ := abs_trial_of_listed P c h t ht x hx
    exact ⟨p, hp, hpt, by rw [e] at hxf; exact hxf⟩
  · intro w' hw2
    exact huniq w' (by rw [← habs]; exact mem_abs_events P c _ _ hw2 rfl)
  · intro w' b hcb2
    exact hcb w' b (by rw [← habs]; exact mem_abs_events P c _ _ hcb2 rfl)

/-- **rdb_callback_at_most_once**: the failure callback is invoked at most once per trial. -/
theorem rdb_callback_at_most_once (P : Params) (n : Nat) (c : Cfg) (hr : Reached P n c) (t : Nat) :
    c.events.countP (Event.isCb t) ≤ 1 := by
  obtain ⟨h, as', habs⟩ := hr
  exact cb_count P c h t 1 (fun k => by rw [habs]; exact C19.callback_at_most_once _ n as' k)

/-- **rdb_one_retry_per_failure**: at most one retry trial is enqueued per failed trial. -/
theorem rdb_one_retry_per_failure (P : Params) (n : Nat) (c : Cfg) (hr : Reached P n c) (t : Nat) :
    c.events.countP (Event.isEnq t) ≤ 1 := by
  obtain ⟨h, as', habs⟩ := hr
  exact enq_count P c h t 1 (fun k => by rw [habs]; exact C19.one_retry_per_failure _ n as' k)

/-- **rdb_retry_chain_bounded**: with `max_retry = m` no trial of the study ever has a `retry_history` longer than `m`
(a negative `max_retry` counts as 0). -/
theorem rdb_retry_chain_bounded (P : Params) (n : Nat) (c : Cfg) (hr : Reached P n c) (m : Int) (hm : P.cb.maxRetry = some m)
    (p : Nat × TrialS) (hp : p ∈ studyList c.hs.db P.sid) : (histOf P.codec p.2.systemAttrs).length ≤ m.toNat := by
  obtain ⟨h, as', habs⟩ := hr
  have hx := trials_abs_get P c h p hp
  rw [habs] at hx
  have := C19.retry_chain_bounded (absParams P) n as' m.toNat (by simp [absParams, hm]) _ _ hx
  exact this

/-- **rdb_retry_carries_params_and_attrs**: every retry that was enqueued is the WAITING copy of the failed trial as
that trial is recorded in the tables now: same parameters (as tokens of internal value and distribution), same user
attributes, same other system attributes, `retry_history` = the failed trial's history followed by its number,
`failed_trial` = the failed trial's `failed_trial` if it has one, else its number; and that trial is FAIL. -/
theorem rdb_retry_carries_params_and_attrs (P : Params) (n : Nat) (c : Cfg) (hr : Reached P n c) (w t k : Nat) (tmpl : Template)
    (he : Event.enqueued w t k tmpl ∈ c.events) :
    ∃ p ∈ studyList c.hs.db P.sid, p.1 = t ∧ p.2.state = .fail ∧ tmpl.state = .waiting ∧
      tmpl.params.map (fun q => (q.1, ptok q.2)) = p.2.params.map (fun q => (q.1, ptok q.2)) ∧
      tmpl.userAttrs = p.2.userAttrs ∧
      tmpl.systemAttrs.filter (fun q => !reserved q.1) = p.2.systemAttrs.filter (fun q => !reserved q.1) ∧
      (tmpl.systemAttrs.get? StaleGen.historyKey).bind P.codec.decList = some (histOf P.codec p.2.systemAttrs ++ [p.2.number]) ∧
      (tmpl.systemAttrs.get? StaleGen.retriedKey).bind P.codec.decNat =
        some (((p.2.systemAttrs.get? StaleGen.retriedKey).bind P.codec.decNat).getD p.2.number) := by
  obtain ⟨h, as', habs⟩ := hr
  have ht : t ∈ (studyList c.hs.db P.sid).map (·.1) := h.evIn _ he t (by simp [Event.ids])
  have he' := mem_abs_events P c _ _ he rfl
  rw [habs] at he'
  obtain ⟨x, hx, hf, h1, h2, h3, h4, h5, h6⟩ := C19.retry_carries_params_and_attrs _ n as' _ _ _ _ he'
  rw [← habs] at hx
  obtain ⟨p, hp, hpt, e⟩ := abs_trial_of_listed P c h t ht x hx
  subst e
  have hnum := number_eq_numOf c.hs.db h.inv P.sid p hp
  rw [hpt] at hnum
  refine ⟨p, hp, hpt, hf, h1, h2, h3, h4, ?_, ?_⟩
  · rw [hnum]; exact h5
  · rw [hnum]; exact h6

/-- **rdb_sweep_never_raises**: along every such history no exception leaves `fail_stale_trials` — the stale query
never trips its `assert`, `set_trial_state_values` answers `True` or the swallowed `UpdateFinishedTrialError`,
`get_trial` finds the trial, the callback does not fail, `create_new_trial` accepts the template. -/
theorem rdb_sweep_never_raises (P : Params) (n : Nat) (c : Cfg) (hr : Reached P n c) (w : Nat) (what : String) :
    Event.raised w what ∉ c.events := by
  intro hm
  have := hr.1.noRaise _ hm
  simp [Event.isRaised] at this

/-! ## untouched if not stale, at the level of table rows -/

/-- **sweep_step_touches_only_noticed**: one storage call of a sweep leaves every row of every table of every existing
trial (of any study) as it was, with its primary keys and heartbeat, unless that trial is the id at the head of the
worker's list of stale ids it still has to fail. -/
theorem sweep_step_touches_only_noticed (P : Params) (hP : POk P) (c : Cfg) (h : RInv P c) (w tid : Nat)
    (htid : tid ∈ c.hs.db.trialIds) :
    rowsOf (sweepStep P c w).hs tid = rowsOf c.hs tid ∨ ∃ todo won, c.workers[w]? = some (.failing (tid :: todo) won) :=
  sweepStep_rows P hP c h w tid htid

/-- **untouched_if_not_stale** (table level): one whole `fail_stale_trials` by an idle worker leaves every row of every
table of every existing trial exactly as it was unless the call's stale read returned the trial — so, by
`stale_query_exact`, unless the trial is a RUNNING trial of the study with a heartbeat row older than the grace period:
trials without a recorded heartbeat, with a heartbeat within the grace period, finished or WAITING ones, and trials of
other studies keep all their rows. -/
theorem untouched_if_not_stale (P : Params) (hP : POk P) (c : Cfg) (h : RInv P c) (w : Nat) (hw : c.workers[w]? = some .idle)
    (ids : List Nat) (hids : getStaleTrialIds c.hs c.now P.hbInterval P.gracePeriod P.sid = .ok ids)
    (tid : Nat) (htid : tid ∈ c.hs.db.trialIds) (hns : tid ∉ ids) :
    rowsOf (failStaleTrials P c w).hs tid = rowsOf c.hs tid :=
  failStaleTrials_rows P hP c h w hw ids hids tid htid hns

/-! ## the retry -/

/-- **retry_enqueues_one_waiting_copy**: when a worker is inside the callback for trial `t` (holding the copy `snap`),
its next storage call appends exactly one trial to the study: the new id is the next `trial_id`, its number the count
of the study's trials, it is WAITING without values, its parameters (values and distributions) and user attributes are
`snap`'s, its intermediate values are `snap`'s iff `inherit_intermediate_values`, its system attributes are exactly
`{"failed_trial": snap.number, "retry_history": [], **snap.system_attrs}` with `retry_history` := the old history + `[snap.number]`;
`snap` is what the tables hold for `t`, which is finished; every other trial of the study is listed as before; one
`enqueued` event is logged and the worker goes on with its callback list. -/
theorem retry_enqueues_one_waiting_copy (P : Params) (hP : POk P) (c : Cfg) (h : RInv P c) (w t : Nat) (snap : TrialS)
    (todo : List Nat) (hw : c.workers[w]? = some (.enqueue t snap todo)) :
    (t, snap) ∈ studyList c.hs.db P.sid ∧ snap.state.isFinished = true ∧
    studyList (sweepStep P c w).hs.db P.sid = studyList c.hs.db P.sid ++
      [(c.hs.db.nTrial, mkTrial P.sid (studyList c.hs.db P.sid).length (some (retryTmpl P.codec P.cb snap)))] ∧
    (sweepStep P c w).events = .enqueued w t c.hs.db.nTrial (retryTmpl P.codec P.cb snap) :: c.events ∧
    (sweepStep P c w).workers[w]? = some (Phase.norm P.hasCb (.calling todo)) ∧
    (retryTmpl P.codec P.cb snap).state = .waiting ∧ (retryTmpl P.codec P.cb snap).values = none ∧
    (retryTmpl P.codec P.cb snap).params = snap.params ∧ (retryTmpl P.codec P.cb snap).userAttrs = snap.userAttrs ∧
    (retryTmpl P.codec P.cb snap).inter = (if P.cb.inherit then snap.inter else []) ∧
    (retryTmpl P.codec P.cb snap).systemAttrs =
      (dictUpdate [(StaleGen.retriedKey, P.codec.encNat snap.number), (StaleGen.historyKey, P.codec.encList [])] snap.systemAttrs).set
        StaleGen.historyKey (P.codec.encList (histOf P.codec snap.systemAttrs ++ [snap.number])) := by
  obtain ⟨hmem, hsf, hex, htodo⟩ := h.phases w _ hw
  obtain ⟨a, ha, hlive⟩ := h.abs
  have hinv := ha.inv
  have hL := studyList_abs c.hs.db a ha P.sid hlive
  have hwf := h.wf (t, snap) hmem
  obtain ⟨st, hst⟩ := Option.isSome_iff_exists.mp hlive
  have htmpl : retryTemplate P.codec P.cb snap = .enqueue (retryTmpl P.codec P.cb snap) := by
    rw [retryTemplate_eq P.codec hP.lawful P.cb snap hwf, hex]; rfl
  have hwfop := retryTmpl_wf P.codec P.cb c.hs.db hinv.1 P.sid (t, snap) hmem hwf P.sid
  have hnc := no_conflict c.hs.db a ha P.sid st hst (t, snap) hmem (retryTmpl P.codec P.cb snap) rfl
  obtain ⟨hres, habs'⟩ := create_ok c.hs.db a ha P.sid st hst (retryTmpl P.codec P.cb snap) hwfop hnc
  have hN : a.trials.length = c.hs.db.nTrial := ha.nTrials
  have hrel : sweepStep P c w =
      ((c.setDb (Rdb.step c.hs.db (.createTrial P.sid (some (retryTmpl P.codec P.cb snap)) false)).1).setPhase w
        (Phase.norm P.hasCb (.calling todo))).log (.enqueued w t c.hs.db.nTrial (retryTmpl P.codec P.cb snap)) := by
    simp only [sweepStep, hw, htmpl]
    rw [show Rdb.step c.hs.db (.createTrial P.sid (some (retryTmpl P.codec P.cb snap)) false) =
        ((Rdb.step c.hs.db (.createTrial P.sid (some (retryTmpl P.codec P.cb snap)) false)).1, .out (.newId c.hs.db.nTrial)) from
      Prod.ext rfl (by rw [hres, hN])]
  refine ⟨hmem, hsf, ?_, ?_, ?_, rfl, rfl, rfl, rfl, rfl, rfl⟩
  · rw [hrel]
    show studyList (Rdb.step c.hs.db (.createTrial P.sid (some (retryTmpl P.codec P.cb snap)) false)).1 P.sid = _
    rw [studyList_abs _ _ habs' P.sid hlive, trialsOf_appendTrial, ← hL, hN]
    simp [mkTrial]
  · rw [hrel]; rfl
  · rw [hrel, workers_log]
    exact workers_setPhase _ w _ (Heartbeat.getElem?_lt_length hw)

/-! ## non-vacuity: a lawful codec, a fresh study, a history with a stale trial that is failed and retried -/

/-- a codec whose laws are provable (numbers as decimal text, lists through Mathlib's `Encodable (List ℕ)`); the
driver uses the JSON text of `jsonCodec`, which the tie checks on every case -/
def toyCodec : Codec :=
  { encNat := fun n => Nat.repr n,
    encList := fun l => Nat.repr (Encodable.encode l),
    decNat := fun s => s.toNat?,
    decList := fun s => s.toNat?.bind (fun n => Encodable.decode n) }

theorem toyCodec_lawful : toyCodec.Lawful :=
  ⟨fun n => Nat.toNat?_repr n, fun l => by simp [toyCodec, Nat.toNat?_repr]⟩

def demoP : Params :=
  { sid := 0, hbInterval := 60, gracePeriod := none, hasCb := true, cb := { maxRetry := some 1, inherit := false }, codec := toyCodec }

theorem demoP_ok : POk demoP := ⟨toyCodec_lawful, by decide, by decide⟩

def demoDb : Rdb.State := Rdb.run [.createStudy "s" [1]]

theorem demoDb_fresh : Fresh demoP demoDb := by
  refine ⟨⟨_, (C01Rdb.rdbLogic_refines_spec [.createStudy "s" [1]] (by intro op hop; simp at hop; subst hop; simp [WfOp])).1, by decide⟩,
    by decide, by decide⟩

/-- trial 0 is created (an `ask`), records a heartbeat, 121 s pass, worker 0 and worker 1 both read it as stale;
worker 0 fails it, runs the callback and enqueues the retry; worker 1 then loses the compare-and-set -/
def demoHistory : List Act :=
  [.call (.createTrial 0 none false), .call (.setTrialUserAttr 0 "u" "1"), .beat 0, .tick 121000000,
   .sweep 0, .sweep 1, .sweep 0, .sweep 0, .sweep 0, .sweep 1]

theorem demoHistory_ok : RunOk demoP (startCfg demoDb 0 2) demoHistory := by
  refine ⟨⟨trivial, trivial⟩, ⟨trivial, trivial⟩, ?_, trivial, trivial, trivial, trivial, trivial, trivial, trivial, trivial⟩
  show 0 ∈ State.trialIds _
  decide

/-- the hypotheses of the refinement and of its corollaries are met by a history in which a sweep has work to do -/
example : Reached demoP 2 (reach demoP demoDb 0 2 demoHistory) :=
  reached_of_history demoP demoP_ok demoDb demoDb_fresh 0 2 demoHistory demoHistory_ok

/-- the abstract schedule this history stands for … -/
theorem demo_absRun : absRun demoP (startCfg demoDb 0 2) demoHistory =
    [.env .create, .env (.setUserAttr 0 "u" "1"), .env (.beat 0), .env (.tick 121000000),
     .sweep 0 [], .sweep 1 [], .sweep 0 [], .sweep 0 [], .sweep 0 [], .sweep 1 []] := by
  decide

/-- … and what the abstraction of the tables therefore shows at the end: both workers noticed the stale trial, worker 0
failed it, ran the callback once and enqueued the retry, worker 1 got `UpdateFinishedTrialError` -/
example : (absCfg demoP (reach demoP demoDb 0 2 demoHistory)).events.reverse =
    [.read 0 [0], .read 1 [0], .won 0 0, .callback 0 0 true,
     .enqueued 0 0 1 { state := .waiting, params := [], userAttrs := [("u", "1")], failedTrial := some 0,
                       retryHistory := some [0], otherSys := [] },
     .lost 1 0] := by
  rw [(history_refines_heartbeat_model demoP demoP_ok demoDb demoDb_fresh 0 2 demoHistory demoHistory_ok).1, demo_absRun]
  decide

end OptunaVerif.C19Rdb
