import OptunaVerif.Lemmas.Heap
import OptunaVerif.Generated.HeapMethods
/-!
# C20 — objects read from a study are snapshots: later writes never change them

Model: `Model/Heap.lean` (append-only heap of objects, slots where getters find them, user-owned
deep copies, storage methods as lists of heap primitives).  The primitive lists of today's
`InMemoryStorage`, `JournalStorageReplayResult`/`JournalStorage` and `_CachedStorage` are in
`Generated/HeapMethods.lean`, regenerated from the Python source by `verif/translators/theap.py` on
every run.

Shape of the argument.
* `disciplined` (Model) is the decidable **fresh_mutation_discipline** of one method.
* `Heap.call_frozen` (Lemmas): a disciplined call changes no object that existed when it started.
* here: induction over *histories* (arbitrary later calls by any thread — calls are atomic, every
  method body runs under the storage lock — interleaved with the user writing into deep copies they
  own) gives `published_objects_immutable`, `deep_copies_stable_under_writes`,
  `deepcopy_results_independent`; `generated_methods_disciplined` ties them to the source.
All statements quantify over every world, method, argument, history and depth of comparison.
-/
namespace OptunaVerif.C20
open OptunaVerif.Heap OptunaVerif.Generated

/-! ## histories -/

/-- One event of a history keeps every storage object that existed before it (user-owned objects
may be written by their owner). -/
theorem stepEv_frozen {w : World} (_wf : WF w) {e : Ev} (he : e.disciplined = true) :
    ∀ a, a < w.heap.length → a ∉ w.uo →
      (stepEv w e).heap[a]? = w.heap[a]? ∧ a < (stepEv w e).heap.length ∧ a ∉ (stepEv w e).uo := by
  intro a ha hu
  cases e with
  | call body ar =>
    obtain ⟨hf, hl, _⟩ := call_frozen (by simpa [Ev.disciplined] using he) ar w
    obtain ⟨_, _, hn⟩ := call_mono body ar w
    refine ⟨hf a ha, by simp only [stepEv]; omega, fun hin => ?_⟩
    rcases hn a hin with h | h
    · exact hu h
    · omega
  | userMut t k v =>
    simp only [stepEv]
    split
    · rename_i ht
      have hne : t ≠ a := fun h => hu (h ▸ ht)
      exact ⟨upd_get_ne w.heap k _ hne, by simpa [upd_length] using ha, hu⟩
    · exact ⟨rfl, ha, hu⟩

/-- **old_objects_unchanged** — induction over histories: whatever is called afterwards (disciplined
methods, any arguments, any number of calls) and whatever users do to their own copies, every
storage object that exists now is bit-for-bit the same for ever. -/
theorem old_objects_unchanged {w : World} (wf : WF w) (evs : List Ev) (hd : ∀ e ∈ evs, e.disciplined = true) :
    ∀ a, a < w.heap.length → a ∉ w.uo → (runEvs w evs).heap[a]? = w.heap[a]? := by
  induction evs generalizing w with
  | nil => intro a _ _; rfl
  | cons e es ih =>
    intro a ha hu
    obtain ⟨h1, h2, h3⟩ := stepEv_frozen wf (hd e (by simp)) a ha hu
    have := ih (stepEv_wf wf e) (fun e' he' => hd e' (by simp [he'])) a h2 h3
    simpa [runEvs, h1] using this

/-- the same for *all* objects (user-owned copies included) when the history consists of calls only -/
theorem old_objects_unchanged_by_calls {w : World} (evs : List Ev)
    (hd : ∀ e ∈ evs, e.disciplined = true ∧ e.isCall = true) :
    ∀ a, a < w.heap.length → (runEvs w evs).heap[a]? = w.heap[a]? := by
  induction evs generalizing w with
  | nil => intro a _; rfl
  | cons e es ih =>
    intro a ha
    obtain ⟨hdis, hcall⟩ := hd e (by simp)
    cases e with
    | userMut t k v => simp [Ev.isCall] at hcall
    | call body ar =>
      obtain ⟨hf, hl, _⟩ := call_frozen (by simpa [Ev.disciplined] using hdis) ar w
      have := ih (w := stepEv w (.call body ar)) (fun e' he' => hd e' (by simp [he'])) a (by simp only [stepEv]; omega)
      simpa [runEvs, stepEv, hf a ha] using this

/-! ## the property -/

/-- **published_objects_immutable.**  Take any well-formed world, any disciplined method (a getter,
or a setter that also returns something) and any arguments.  Every reference the call hands out
without deep copy denotes — at every depth of comparison — the same value after *any* later history
of disciplined calls (reads and writes by this or any other thread) and user writes into their own
deep copies.  (A disciplined method cannot hand out the storage's container: `r` is a reference.) -/
theorem published_objects_immutable {w : World} (wf : WF w) {body : List Prim} (hb : disciplined body = true)
    (ar : Args) (evs : List Ev) (hd : ∀ e ∈ evs, e.disciplined = true) :
    ∀ r ∈ (callM body ar w).2, (∀ a, r ≠ .copy a) →
      (∃ a, r = .addr a) ∧
      ∀ fuel, denote fuel (runEvs (callM body ar w).1 evs) r = denote fuel (callM body ar w).1 r := by
  intro r hr hnc
  obtain ⟨_, _, hoa⟩ := call_frozen hb ar w
  have wf1 := call_wf body ar wf
  cases r with
  | view ss => exact absurd rfl (hoa _ hr ss)
  | copy a => exact absurd rfl (hnc a)
  | addr a =>
    refine ⟨⟨a, rfl⟩, fun fuel => ?_⟩
    obtain ⟨halt, hauo⟩ := (call_rets body ar wf).1 a hr
    exact pickle_congr wf1.refs (old_objects_unchanged wf1 evs hd) fuel a halt hauo

/-- **deep_copies_stable_under_writes.**  Every handle returned by a disciplined call — deep copies
included — keeps its value under any later history of storage calls. -/
theorem deep_copies_stable_under_writes {w : World} (wf : WF w) {body : List Prim} (hb : disciplined body = true)
    (ar : Args) (evs : List Ev) (hd : ∀ e ∈ evs, e.disciplined = true ∧ e.isCall = true) :
    ∀ r ∈ (callM body ar w).2, ∀ fuel,
      denote fuel (runEvs (callM body ar w).1 evs) r = denote fuel (callM body ar w).1 r := by
  intro r hr fuel
  obtain ⟨_, _, hoa⟩ := call_frozen hb ar w
  have wf1 := call_wf body ar wf
  have hrefs : ∀ a o, (callM body ar w).1.heap[a]? = some o → ∀ k d, (k, Cell.ref d) ∈ o →
      d < (callM body ar w).1.heap.length ∧ (a ∉ ([] : List Nat) → d ∉ ([] : List Nat)) :=
    fun a o ho k d hm => ⟨(wf1.refs a o ho k d hm).1, fun _ => by simp⟩
  have hag := fun a ha (_ : a ∉ ([] : List Nat)) => old_objects_unchanged_by_calls (w := (callM body ar w).1) evs hd a ha
  cases r with
  | view ss => exact absurd rfl (hoa _ hr ss)
  | copy a =>
    exact pickle_congr hrefs hag fuel a ((call_rets body ar wf).2 a hr).1 (by simp)
  | addr a =>
    exact pickle_congr hrefs hag fuel a ((call_rets body ar wf).1 a hr).1 (by simp)

/-- A user writing into an object they own changes the deep value of no storage object. -/
theorem user_mutation_invisible {w : World} (wf : WF w) (t k v : Nat) :
    ∀ a, a < w.heap.length → a ∉ w.uo → ∀ fuel,
      pickle fuel (stepEv w (.userMut t k v)).heap a = pickle fuel w.heap a := by
  intro a ha hu fuel
  refine pickle_congr wf.refs (fun b hb hbu => ?_) fuel a ha hu
  exact (stepEv_frozen wf (e := .userMut t k v) rfl b hb hbu).1

theorem runEvs_uo_mono {w : World} (evs : List Ev) : ∀ x, x ∈ w.uo → x ∈ (runEvs w evs).uo := by
  induction evs generalizing w with
  | nil => intro x h; exact h
  | cons e es ih =>
    intro x hx
    apply ih (w := stepEv w e)
    cases e with
    | call body ar => exact (call_mono body ar w).2.1 x hx
    | userMut t k v => simp only [stepEv]; split <;> exact hx

/-- **deepcopy_results_independent.**  Let a call (of *any* method) return a deep copy, let *any*
history follow (any methods, disciplined or not; any user writes).  Then
1. the copy still belongs to the user (so writing into it is an allowed event), and
2. whatever the user then writes into whatever they own, every object the storage can hand out —
   the object in any slot, and the container view over any slots — has the same deep value as
   before the write.  So nothing the study returns later can depend on what was done to the copy. -/
theorem deepcopy_results_independent {w : World} (wf : WF w) (body : List Prim) (ar : Args)
    (evs : List Ev) (t k v : Nat) :
    (∀ a, Ret.copy a ∈ (callM body ar w).2 → a ∈ (runEvs (callM body ar w).1 evs).uo) ∧
    (∀ s a, (s, a) ∈ (runEvs (callM body ar w).1 evs).slots → ∀ fuel,
      pickle fuel (stepEv (runEvs (callM body ar w).1 evs) (.userMut t k v)).heap a =
        pickle fuel (runEvs (callM body ar w).1 evs).heap a) ∧
    (∀ ss fuel, denote fuel (stepEv (runEvs (callM body ar w).1 evs) (.userMut t k v)) (.view ss) =
        denote fuel (runEvs (callM body ar w).1 evs) (.view ss)) := by
  have wf1 := call_wf body ar wf
  have wf2 := runEvs_wf wf1 evs
  have hslot : ∀ s a, (s, a) ∈ (runEvs (callM body ar w).1 evs).slots → ∀ fuel,
      pickle fuel (stepEv (runEvs (callM body ar w).1 evs) (.userMut t k v)).heap a =
        pickle fuel (runEvs (callM body ar w).1 evs).heap a := by
    intro s a hs fuel
    obtain ⟨h1, h2⟩ := wf2.slotsIn s a hs
    exact user_mutation_invisible wf2 t k v a h1 h2 fuel
  refine ⟨fun a ha => runEvs_uo_mono evs a ((call_rets body ar wf).2 a ha).2, hslot, fun ss fuel => ?_⟩
  have hsl : (stepEv (runEvs (callM body ar w).1 evs) (.userMut t k v)).slots = (runEvs (callM body ar w).1 evs).slots := by
    simp only [stepEv]; split <;> rfl
  simp only [denote, hsl]
  apply pickleCells_congr
  intro k' d hm
  obtain ⟨s, hs⟩ := listCells_mem hm
  exact hslot s d hs fuel

/-- The deep copy handed out is made of brand-new objects only: nothing that existed before the call
is part of it (so it shares nothing with the storage or with earlier results). -/
theorem deepcopy_result_is_new {w : World} (wf : WF w) {body : List Prim} (hb : returnsOnlyDeep body = true)
    (ar : Args) : ∀ r ∈ (callM body ar w).2, ∃ a, r = .copy a ∧ a ∈ (callM body ar w).1.uo := by
  -- every handle appended by a primitive other than `ret` is a copy
  have key : ∀ (ps : List Prim) (fr : Frame), (ps.all (fun p => p != .ret)) = true →
      (∀ r ∈ fr.rets, ∃ a, r = Ret.copy a) → ∀ r ∈ (run ar fr ps).rets, ∃ a, r = Ret.copy a := by
    intro ps
    induction ps with
    | nil => intro fr _ h; exact h
    | cons p ps ih =>
      intro fr hall h
      simp only [List.all_cons, Bool.and_eq_true] at hall
      refine ih (step ar fr p) hall.2 ?_
      intro r hr
      cases p with
      | ret => simp at hall
      | retDeep =>
        simp only [step] at hr
        split at hr
        · rcases List.mem_append.mp hr with hr | hr
          · exact h r hr
          · exact ⟨_, by simpa using hr⟩
        · exact h r hr
      | load => exact h r hr
      | loadAll => exact h r hr
      | collect => exact h r hr
      | allocNew => exact h r hr
      | unpublish => exact h r hr
      | allocCopy => simp only [step] at hr; split at hr <;> exact h r hr
      | newField f => simp only [step] at hr; split at hr <;> exact h r hr
      | mutCur => simp only [step] at hr; split at hr <;> exact h r hr
      | setScalar f => simp only [step] at hr; split at hr <;> exact h r hr
      | publish => simp only [step] at hr; split at hr <;> exact h r hr
      | loadField f => simp only [step] at hr; split at hr <;> (try split at hr) <;> exact h r hr
      | copyField f => simp only [step] at hr; split at hr <;> (try split at hr) <;> exact h r hr
      | mutField f => simp only [step] at hr; split at hr <;> (try split at hr) <;> exact h r hr
  intro r hr
  obtain ⟨a, rfl⟩ := key body (enter w) hb (by intro r hr; simp [enter] at hr) r hr
  exact ⟨a, rfl, ((call_rets body ar wf).2 a hr).2⟩

/-- **deep_copy_has_the_value_of_the_original.**  What `return copy.deepcopy(x)` hands out has, at
every depth up to the size of the heap (which bounds the depth of any acyclic object graph), exactly
the deep value of the stored object at the time of the call. -/
theorem deep_copy_has_the_value_of_the_original {w : World} (wf : WF w) (ar : Args) {a : Nat}
    (hs : w.slots.lookup ar.src = some a) (n : Nat) (hn : n ≤ w.heap.length + 1) :
    ∃ r, (callM [.load, .retDeep] ar w).2 = [.copy r] ∧
      pickle n (callM [.load, .retDeep] ar w).1.heap r = pickle n w.heap a := by
  have ha : a < w.heap.length := (wf.slotsIn ar.src a (lookup_mem hs)).1
  have hc : Closed w.heap := fun b o hb k d hm => (wf.refs b o hb k d hm).1
  refine ⟨(deepCopy (w.heap.length + 1) w.heap a).2, ?_, ?_⟩
  · simp [callM, run, enter, step, hs, Frame.world]
  · have := deepCopy_faithful (w.heap.length + 1) n hn w.heap a hc ha
    simpa [callM, run, enter, step, hs, Frame.world] using this

/-! ## today's source satisfies the discipline (obligations over the generated tables) -/

/-- Every control-flow path of every object-handling method of `InMemoryStorage`,
`JournalStorageReplayResult`, `JournalStorage`, `_CachedStorage` (and the derived getters of
`BaseStorage`) as translated from the source **now** mutates in place only what it allocated itself
and never returns a container.  Removing a `copy.copy(trial.params)`, going back to
`study.user_attrs[key] = value`, or returning `self._studies[study_id].trials` changes the generated
list and makes this `decide` fail. -/
theorem generated_methods_disciplined : ∀ m ∈ HeapMethods.methods, disciplined m.body = true := by decide +kernel

/-- The `Study`/`Trial` getters that promise deep copies (`Study.trials`, `best_trial`, `user_attrs`,
`Trial.params`, the trial cached by `Trial.__init__`, `tell`'s result, ...) return nothing but deep
copies. -/
theorem generated_deep_api_returns_copies :
    ∀ m ∈ HeapMethods.deepApi, returnsOnlyDeep m.body = true ∧ disciplined m.body = true := by decide +kernel

/-- an event of a history of today's storages: a call of a generated method with any arguments, or
a user write -/
def fromSource : Ev → Prop
  | .call body _ => ∃ m ∈ HeapMethods.methods, m.body = body
  | .userMut .. => True

/-- **storage_reads_are_snapshots** — the property for the code as it is now: whatever a generated
method returns without copying stays the same under every later history of generated methods. -/
theorem storage_reads_are_snapshots {w : World} (wf : WF w) {m : Method} (hm : m ∈ HeapMethods.methods)
    (ar : Args) (evs : List Ev) (hsrc : ∀ e ∈ evs, fromSource e) :
    ∀ r ∈ (callM m.body ar w).2, (∀ a, r ≠ .copy a) → ∀ fuel,
      denote fuel (runEvs (callM m.body ar w).1 evs) r = denote fuel (callM m.body ar w).1 r := by
  intro r hr hnc fuel
  have hd : ∀ e ∈ evs, e.disciplined = true := by
    intro e he
    cases e with
    | userMut t k v => rfl
    | call body ar' =>
      obtain ⟨m', hm', rfl⟩ := hsrc _ he
      exact generated_methods_disciplined m' hm'
  exact (published_objects_immutable wf (generated_methods_disciplined m hm) ar evs hd r hr hnc).2 fuel

/-- an event of a history of today's storages AND of the public deep-copy API: a call of a generated storage method or of one of
the `deepApi` bodies (`Study.trials`, `best_trial`, `user_attrs`, `Trial.params`, …) with any arguments, or a user write -/
def fromSourceOrApi : Ev → Prop
  | .call body _ => (∃ m ∈ HeapMethods.methods, m.body = body) ∨ (∃ m ∈ HeapMethods.deepApi, m.body = body)
  | .userMut .. => True

/-- **api_reads_are_snapshots** — `storage_reads_are_snapshots` for histories that INTERLEAVE the storage methods with the
`deepApi` bodies (and user writes), and for a first call of either kind: (1) whatever the call returns without copying stays
the same under every such later history; (2) if the call is a `deepApi` getter, everything it returns is a deep copy made of
new objects that the user owns — and still owns after the history (so `deepcopy_results_independent` applies to it).
Both rest on the two `decide`-d tables `generated_methods_disciplined` / `generated_deep_api_returns_copies`. -/
theorem api_reads_are_snapshots {w : World} (wf : WF w) {m : Method}
    (hm : m ∈ HeapMethods.methods ∨ m ∈ HeapMethods.deepApi)
    (ar : Args) (evs : List Ev) (hsrc : ∀ e ∈ evs, fromSourceOrApi e) :
    (∀ r ∈ (callM m.body ar w).2, (∀ a, r ≠ .copy a) → ∀ fuel,
      denote fuel (runEvs (callM m.body ar w).1 evs) r = denote fuel (callM m.body ar w).1 r) ∧
    (m ∈ HeapMethods.deepApi → ∀ r ∈ (callM m.body ar w).2,
      ∃ a, r = .copy a ∧ a ∈ (callM m.body ar w).1.uo ∧ a ∈ (runEvs (callM m.body ar w).1 evs).uo) := by
  have hmd : disciplined m.body = true := by
    rcases hm with hm | hm
    · exact generated_methods_disciplined m hm
    · exact (generated_deep_api_returns_copies m hm).2
  have hd : ∀ e ∈ evs, e.disciplined = true := by
    intro e he
    cases e with
    | userMut t k v => rfl
    | call body ar' =>
      rcases hsrc _ he with ⟨m', hm', rfl⟩ | ⟨m', hm', rfl⟩
      · exact generated_methods_disciplined m' hm'
      · exact (generated_deep_api_returns_copies m' hm').2
  refine ⟨fun r hr hnc fuel => (published_objects_immutable wf hmd ar evs hd r hr hnc).2 fuel, ?_⟩
  intro hapi r hr
  obtain ⟨a, rfl, ha⟩ := deepcopy_result_is_new wf (generated_deep_api_returns_copies m hapi).1 ar r hr
  exact ⟨a, rfl, ha, runEvs_uo_mono evs a ha⟩

/-! ## non-vacuity, and the discipline is what makes the difference -/

/-- a trial in slot 7 with a `user_attrs` dict (field 2) holding key 1 ↦ 10 -/
def w0 : World := { heap := [[(1, .sc 10)], [(2, .ref 0), (6, .sc 1)]], slots := [(7, 1)], uo := [] }
def args0 : Args := { src := 7, dst := 7, srcs := [7], key := 5, val := 99 }

theorem w0_wf : WF w0 := by
  refine ⟨?_, ?_, ?_, ?_⟩
  · intro a o h k d hm
    match a, h with
    | 0, h => simp [enter, w0] at h; subst h; simp at hm
    | 1, h =>
      simp [enter, w0] at h; subst h
      have : d = 0 := by have := hm; simp at this; exact this.2
      subst this; simp [enter, w0]
    | a + 2, h => simp [enter, w0] at h
  · intro s a h
    have : a = 1 := by simpa [enter, w0] using (congrArg Prod.snd (by simpa [enter, w0] using h : (s, a) = (7, 1)))
    subst this; simp [enter, w0]
  · intro a h; simp [enter, w0] at h
  · intro a h; simp [enter] at h

/-- `get_trial` then today's `set_trial_user_attr`: the old reference still denotes the old value,
and a new read sees the write (the history is not a no-op). -/
example :
    let r := (callM [.load, .ret] args0 w0)
    let w2 := runEvs r.1 [.call [.load, .allocCopy, .copyField 2, .mutField 2, .publish] args0]
    r.2 = [.addr 1] ∧ denote 3 w2 (.addr 1) = denote 3 r.1 (.addr 1) ∧
      (callM [.load, .ret] args0 w2).2 = [.addr 2] ∧ denote 3 w2 (.addr 2) ≠ denote 3 w2 (.addr 1) := by decide

/-- **discipline_is_necessary (setter)** — an EXAMPLE of a breach, not a necessity proof (the discipline is sufficient; a body
outside it is not thereby shown to break snapshots, this one is shown to by evaluation): the setter with the dict copy removed
(`trial.user_attrs[key] = value` on the copied trial) is rejected by the discipline, and it does
change what a previously returned trial denotes. -/
theorem undisciplined_setter_breaks_snapshot :
    disciplined [.load, .allocCopy, .mutField 2, .publish] = false ∧
    ∃ r ∈ (callM [.load, .ret] args0 w0).2,
      denote 3 (runEvs (callM [.load, .ret] args0 w0).1 [.call [.load, .allocCopy, .mutField 2, .publish] args0]) r
        ≠ denote 3 (callM [.load, .ret] args0 w0).1 r := by
  refine ⟨by decide, .addr 1, by decide, by decide⟩

/-- the old study-attribute setter (`study.user_attrs[key] = value`, finding F8) is rejected too -/
example : disciplined [.load, .mutCur] = false := by decide

/-- **discipline_is_necessary (getter)** — again an EXAMPLE of a breach, not a necessity proof: a getter returning the
container itself is rejected, and
what it returned changes with the next write. -/
theorem live_container_is_not_a_snapshot :
    disciplined [.loadAll, .ret] = false ∧
    ∃ r ∈ (callM [.loadAll, .ret] args0 w0).2,
      denote 3 (runEvs (callM [.loadAll, .ret] args0 w0).1
        [.call [.load, .allocCopy, .setScalar 6, .publish] args0]) r
        ≠ denote 3 (callM [.loadAll, .ret] args0 w0).1 r := by
  refine ⟨by decide, .view [7], by decide, by decide⟩

/-- a deep copy really is a copy (same value, different objects), it is the user's, and writing into
it leaves the stored trial alone while the copy itself changes -/
example :
    let r := callM [.load, .retDeep] args0 w0
    let w2 := stepEv r.1 (.userMut 2 1 77)
    r.2 = [.copy 3] ∧ denote 3 r.1 (.copy 3) = denote 3 w0 (.addr 1) ∧ 3 ∈ r.1.uo ∧ 2 ∈ r.1.uo ∧
      denote 3 w2 (.addr 1) = denote 3 w0 (.addr 1) ∧ denote 3 w2 (.copy 3) ≠ denote 3 r.1 (.copy 3) := by decide

/-- `Trial.__init__` keeping the storage's object (no deep copy) is not a deep-copy getter -/
example : returnsOnlyDeep [.load, .ret] = false := by decide

example : HeapMethods.methods.length > 40 ∧ HeapMethods.deepApi.length > 10 := by decide +kernel

/-- `api_reads_are_snapshots` is about something: histories that interleave both kinds of calls exist (every `deepApi` body and
every storage method body is an admissible event) -/
example : ∀ m ∈ HeapMethods.deepApi, ∀ ar, fromSourceOrApi (.call m.body ar) := fun m hm _ => Or.inr ⟨m, hm, rfl⟩
example : ∀ m ∈ HeapMethods.methods, ∀ ar, fromSourceOrApi (.call m.body ar) := fun m hm _ => Or.inl ⟨m, hm, rfl⟩

end OptunaVerif.C20
