import optuna
from concurrent.futures import ThreadPoolExecutor
import grpc
from optuna.storages import GrpcStorageProxy, InMemoryStorage
from optuna.storages._grpc import servicer as grpc_servicer
from optuna.storages._grpc.auto_generated import api_pb2_grpc

optuna.logging.set_verbosity(optuna.logging.ERROR)
server = grpc.server(ThreadPoolExecutor(max_workers=4))
api_pb2_grpc.add_StorageServiceServicer_to_server(grpc_servicer.OptunaStorageProxyService(InMemoryStorage()), server)
port = server.add_insecure_port("localhost:0")
server.start()
proxy = GrpcStorageProxy(host="localhost", port=port)
objective = lambda t: t.suggest_int("x", 0, 1) + t.suggest_int("y", 0, 1)
ref = optuna.create_study(sampler=optuna.samplers.BruteForceSampler(seed=0))
ref.optimize(objective, n_trials=4)
print("in-memory:", [t.params for t in ref.trials])
study = optuna.create_study(storage=proxy, sampler=optuna.samplers.BruteForceSampler(seed=0))
try:
    study.optimize(objective, n_trials=4)
    print("proxy:", [t.params for t in study.trials])
except ValueError as e:
    print("proxy: ValueError:", e, "| params order seen through the proxy:", list(study.trials[0].params))
server.stop(0)
