# replay on the real GridSampler (optuna from /repo): (a) failed point not retried, (b) killed RUNNING trial re-evaluated at the end,
# (c) re-running optimize on an exhausted study evaluates ONE duplicate point
import sys, warnings; sys.path.insert(0, "/repo")
import optuna; optuna.logging.set_verbosity(optuna.logging.ERROR); warnings.simplefilter("ignore")
G = {"x": [0, 1, 2]}
def cells(st): return [(t.number, t.system_attrs.get("grid_id"), t.state.name) for t in st.get_trials(deepcopy=False)]
def obj(t):
    x = t.suggest_int("x", 0, 2)
    if t.number == 1: raise ValueError("boom")
    return x
st = optuna.create_study(sampler=optuna.samplers.GridSampler(G))
st.optimize(obj, n_trials=10, catch=(ValueError,)); print("(a)", cells(st))
st = optuna.create_study(sampler=optuna.samplers.GridSampler(G))
st.optimize(lambda t: t.suggest_int("x", 0, 2), n_trials=1); st.ask()              # trial 1 asked and never told = killed worker
st.sampler = optuna.samplers.GridSampler(G); st.optimize(lambda t: t.suggest_int("x", 0, 2), n_trials=10); print("(b)", cells(st))
st.sampler = optuna.samplers.GridSampler(G); st.optimize(lambda t: t.suggest_int("x", 0, 2), n_trials=10); print("(c)", cells(st))
