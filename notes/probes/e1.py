import optuna, warnings, copy
optuna.logging.set_verbosity(optuna.logging.ERROR)
warnings.simplefilter("ignore")
# C02: numeric string
for ret in ['5', ['5'], 10**400, b'5', [1.0, 2.0], float('nan'), None]:
    s = optuna.create_study()
    try:
        s.optimize(lambda t: ret, n_trials=1)
        print(repr(ret)[:20], "returned", [ (t.state.name, t.values) for t in s.trials])
    except BaseException as e:
        print(repr(ret)[:20], "raised", type(e).__name__, str(e)[:60], [ (t.state.name, t.values) for t in s.trials])
# n_jobs=2 exception propagation
s = optuna.create_study()
def f(t): raise ValueError("boom")
try:
    s.optimize(f, n_trials=1, n_jobs=2)
    print("n_jobs=2: returned normally", [t.state.name for t in s.trials])
except Exception as e:
    print("n_jobs=2 raised", type(e).__name__)
try:
    s.optimize(f, n_trials=5, n_jobs=2)
    print("n_jobs=2,n=5: returned normally", [t.state.name for t in s.trials])
except Exception as e:
    print("n_jobs=2,n=5 raised", type(e).__name__, [t.state.name for t in s.trials])
# C20 aliasing
s = optuna.create_study()
t = s.ask()
snap = s.get_trials(deepcopy=False)[0]
before = copy.deepcopy(snap)
t.suggest_float("x", 0, 1)
print("C20 in-memory snapshot changed:", before.params != snap.params, snap.params)
t.report(1.0, 0)
print("   iv", snap.intermediate_values)
