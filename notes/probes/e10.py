import os, tempfile, time, warnings, types
import optuna.storages.journal._file as F
warnings.simplefilter("ignore")
d=tempfile.mkdtemp(); p=os.path.join(d,"j.log"); open(p,"w").close()
# dead holder left the lock
os.symlink(p, p+".lock")
X=F.JournalFileSymlinkLock(p, grace_period=1); Y=F.JournalFileSymlinkLock(p, grace_period=1)
clock=[0.0]
class T:  # virtual time
    @staticmethod
    def monotonic(): return clock[0]
    @staticmethod
    def sleep(s): clock[0]+=max(s,0.6)
state={"n":0,"x_holds":False}
class OSProxy:
    def __getattr__(self,n): return getattr(os,n)
    def stat(self, path):
        r=os.stat(path)
        state["n"]+=1
        # after Y has observed the stale lock for > grace, let X break the lock and take it, just after Y's stat
        if clock[0]>1.0 and not state["x_holds"]:
            F.os=os; F.time=time     # X runs with real os / time
            os.rename(p+".lock", p+".lock.x"); os.unlink(p+".lock.x")   # X.release() of the stale lock
            os.symlink(p, p+".lock")                                      # X.acquire() succeeds
            state["x_holds"]=True
            F.os=proxy; F.time=T
        return r
proxy=OSProxy()
F.os=proxy; F.time=T
ok=Y.acquire()
F.os=os; F.time=time
print("X holds:", state["x_holds"], " Y.acquire returned:", ok, " -> two holders" if ok and state["x_holds"] else "")
# X now releases at the end of its critical section:
try: X.release(); print("X.release ok (it removed Y's lock)")
except RuntimeError as e: print("X.release raised", e)
