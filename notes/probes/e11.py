import optuna, warnings, tempfile, os, random, json, math, datetime, collections
from optuna.trial import TrialState, create_trial, FrozenTrial
from optuna.study import StudyDirection
from optuna.storages import InMemoryStorage, RDBStorage, JournalStorage, _CachedStorage
from optuna.storages.journal import JournalFileBackend, JournalRedisBackend
from optuna.distributions import *
import fakeredis
optuna.logging.set_verbosity(optuna.logging.ERROR); warnings.simplefilter("ignore")
d=tempfile.mkdtemp(); cnt=[0]
def mk():
    cnt[0]+=1
    r=JournalRedisBackend("redis://localhost"); r._redis=fakeredis.FakeStrictRedis()
    return {"mem":InMemoryStorage(),"rdb":RDBStorage("sqlite:///"+os.path.join(d,"a%d.db"%cnt[0])),"crdb":_CachedStorage(RDBStorage("sqlite:///"+os.path.join(d,"b%d.db"%cnt[0]))),
            "jf":JournalStorage(JournalFileBackend(os.path.join(d,"j%d.log"%cnt[0]))),"jr":JournalStorage(r)}
DISTS=[FloatDistribution(0,1),FloatDistribution(1e-3,1,log=True),IntDistribution(0,10),IntDistribution(0,10,step=2),CategoricalDistribution(["a","b"]),CategoricalDistribution([1,2,3]),FloatDistribution(0,1,step=0.25)]
VALS=[0.0,1.5,-2.0,float("inf"),float("-inf")]
IV=VALS+[float("nan")]
def canon_trial(t, tmap):
    def f(x): return "nan" if isinstance(x,float) and math.isnan(x) else x
    return (tmap.get(t._trial_id,"?"), t.number, t.state.name, None if t.values is None else tuple(map(f,t.values)), tuple(sorted((k,repr(v)) for k,v in t.params.items())),
            tuple(sorted((k,repr(v)) for k,v in t.distributions.items())), json.dumps(t.user_attrs,sort_keys=True), json.dumps(t.system_attrs,sort_keys=True),
            tuple(sorted((k,f(v)) for k,v in t.intermediate_values.items())), t.datetime_start is not None, t.datetime_complete is not None)
def run(seed, nops):
    r=random.Random(seed); sts=mk()
    smap={k:{} for k in sts}; tmap={k:{} for k in sts}  # canonical -> real
    rs={k:{} for k in sts}; rt={k:{} for k in sts}       # real -> canonical
    ns=[0]; nt=[0]
    log=[]
    for step in range(nops):
        op=r.choice(["cs","cs","ds","ssu","sss","ct","ct","ct","ctt","sp","sp","stv","stv","stv","siv","stu","sts","gat","gt","gbt","gid","gall","gn"])
        cs=r.randrange(max(ns[0],1)+1); ctid=r.randrange(max(nt[0],1)+1)
        args=None
        if op=="cs": args=("n%d"%r.randrange(4), r.choice([1,1,2]))
        elif op in("ssu","sss"): args=(cs, "k%d"%r.randrange(2), r.choice([1,"x",[1,2],{"a":None},1.5]))
        elif op=="ds": args=(cs,)
        elif op=="ct": args=(cs,)
        elif op=="ctt":
            st=r.choice(list(TrialState)); dist=r.choice(DISTS)
            vals=None
            if st==TrialState.COMPLETE: vals=[r.choice(VALS)]
            elif st==TrialState.PRUNED and r.random()<.5: vals=[r.choice(VALS)]
            pv={"p0":dist.to_external_repr(0.0 if not isinstance(dist,FloatDistribution) or not dist.log else 0.5)} if r.random()<.6 and not(isinstance(dist,FloatDistribution) and dist.log and False) else {}
            if isinstance(dist,FloatDistribution) and dist.log: pv={"p0":0.5} if pv else {}
            args=(cs, st, vals, pv, dist, {"u":r.choice([1,"s"])} if r.random()<.5 else {}, {"s":[1]} if r.random()<.5 else {}, {r.randrange(3):r.choice(IV)} if r.random()<.5 else {})
        elif op=="sp": 
            dist=r.choice(DISTS); args=(ctid,"p%d"%r.randrange(2), 0.5 if (isinstance(dist,FloatDistribution) and dist.log) else 0.0, dist)
        elif op=="stv":
            st=r.choice(list(TrialState)); args=(ctid, st, [r.choice(VALS)] if st==TrialState.COMPLETE or r.random()<.2 else None)
        elif op=="siv": args=(ctid, r.randrange(3), r.choice(IV))
        elif op in("stu","sts"): args=(ctid,"k%d"%r.randrange(2), r.choice([1,"x",[1,2]]))
        elif op in("gt",): args=(ctid,)
        elif op in("gat","gbt","gn"): args=(cs, r.choice([None,(TrialState.WAITING,),[TrialState.COMPLETE,TrialState.RUNNING]]))
        elif op=="gid": args=(cs, r.randrange(4))
        outs={}
        for k,s in sts.items():
            try:
                if op=="cs":
                    o=s.create_new_study([StudyDirection.MINIMIZE]*args[1], args[0]); rs[k][o]=ns[0]; smap[k][ns[0]]=o; o=("id",)
                elif op=="ds": s.delete_study(smap[k].get(args[0],10**6)); o=None
                elif op=="ssu": s.set_study_user_attr(smap[k].get(args[0],10**6),args[1],args[2]); o=None
                elif op=="sss": s.set_study_system_attr(smap[k].get(args[0],10**6),args[1],args[2]); o=None
                elif op=="ct": o=s.create_new_trial(smap[k].get(args[0],10**6)); rt[k][o]=nt[0]; tmap[k][nt[0]]=o; o=("id",)
                elif op=="ctt":
                    _,st,vals,pv,dist,ua,sa,iv=args
                    ft=FrozenTrial(number=-1,state=st,value=None,values=vals,datetime_start=None if st==TrialState.WAITING else datetime.datetime(2024,1,1,1,1,1,123456),datetime_complete=datetime.datetime(2024,1,2) if st.is_finished() else None,params=dict(pv),distributions={"p0":dist} if pv else {},user_attrs=dict(ua),system_attrs=dict(sa),intermediate_values=dict(iv),trial_id=-1)
                    o=s.create_new_trial(smap[k].get(args[0],10**6), ft); rt[k][o]=nt[0]; tmap[k][nt[0]]=o; o=("id",)
                elif op=="sp": s.set_trial_param(tmap[k].get(args[0],10**6),args[1],args[2],args[3]); o=None
                elif op=="stv": o=s.set_trial_state_values(tmap[k].get(args[0],10**6),args[1],args[2])
                elif op=="siv": s.set_trial_intermediate_value(tmap[k].get(args[0],10**6),args[1],args[2]); o=None
                elif op=="stu": s.set_trial_user_attr(tmap[k].get(args[0],10**6),args[1],args[2]); o=None
                elif op=="sts": s.set_trial_system_attr(tmap[k].get(args[0],10**6),args[1],args[2]); o=None
                elif op=="gt": o=canon_trial(s.get_trial(tmap[k].get(args[0],10**6)), rt[k])
                elif op=="gat": o=tuple(canon_trial(t,rt[k]) for t in s.get_all_trials(smap[k].get(args[0],10**6), states=args[1]))
                elif op=="gn": o=s.get_n_trials(smap[k].get(args[0],10**6))
                elif op=="gbt": o=canon_trial(s.get_best_trial(smap[k].get(args[0],10**6)), rt[k])[3]
                elif op=="gid": o=rt[k].get(s.get_trial_id_from_study_id_trial_number(smap[k].get(args[0],10**6),args[1]),"?")
                elif op=="gall": o=tuple((rs[k].get(fs._study_id,"?"),fs.study_name,len(fs.directions),json.dumps(fs.user_attrs,sort_keys=True),json.dumps(fs.system_attrs,sort_keys=True)) for fs in s.get_all_studies())
            except Exception as e:
                o=("EXC",type(e).__name__)
            outs[k]=o
        if op in("cs",) and outs["mem"]==("id",): ns[0]+=1
        if op in("ct","ctt") and outs["mem"]==("id",): nt[0]+=1
        log.append((op,args))
        if len(set(map(repr,outs.values())))>1:
            return (op, args, {k:repr(v)[:160] for k,v in outs.items()}, step)
    return None
div=collections.Counter(); ex={}
for seed in range(150):
    res=run(seed, 40)
    if res:
        op,args,outs,step=res
        groups=collections.defaultdict(list)
        for k,v in outs.items(): groups[v].append(k)
        key=(op, tuple(sorted(tuple(v) for v in groups.values())))
        div[key]+=1; ex.setdefault(key,(seed,step,args,outs))
for k,c in div.most_common(): 
    print(c,k); print("    ",ex[k][0],ex[k][1],str(ex[k][2])[:150]); 
    for b,v in ex[k][3].items(): print("       ",b,v[:150])
