import optuna, warnings, tempfile, os
from optuna.study import StudyDirection
from optuna.storages import InMemoryStorage, RDBStorage, JournalStorage
from optuna.storages.journal import JournalFileBackend
from optuna.distributions import *
optuna.logging.set_verbosity(optuna.logging.ERROR); warnings.simplefilter("ignore")
d=tempfile.mkdtemp()
for name,s in [("mem",InMemoryStorage()),("rdb",RDBStorage("sqlite:///"+os.path.join(d,"a.db"))),("jf",JournalStorage(JournalFileBackend(os.path.join(d,"j.log"))))]:
    sid=s.create_new_study([StudyDirection.MINIMIZE],"s"); t=s.create_new_trial(sid)
    s.set_trial_param(t,"x",0.25,FloatDistribution(0,1))
    try: s.set_trial_param(t,"x",0.75,FloatDistribution(0,1)); r="ok"
    except Exception as e: r=type(e).__name__
    print(name, r, s.get_trial(t).params)
