import optuna, warnings, copy, tempfile, os, threading, time, json
from optuna.trial import TrialState, create_trial
from optuna.study import StudyDirection
from optuna.storages import InMemoryStorage, RDBStorage, JournalStorage, _CachedStorage, GrpcStorageProxy
from optuna.storages.journal import JournalFileBackend
from optuna.testing.storages import _find_free_port
optuna.logging.set_verbosity(optuna.logging.ERROR)
warnings.simplefilter("ignore")
d = tempfile.mkdtemp()
MIN=[StudyDirection.MINIMIZE]
# C01: journal delete study keeps trials
js = JournalStorage(JournalFileBackend(os.path.join(d,"j1.log")))
sid = js.create_new_study(MIN,"a"); tid = js.create_new_trial(sid); js.delete_study(sid)
try:
    print("journal get_trial after delete:", js.get_trial(tid).state)
except KeyError as e: print("journal: KeyError ok")
ms = InMemoryStorage(); sid = ms.create_new_study(MIN,"a"); tid = ms.create_new_trial(sid); ms.delete_study(sid)
try: print("inmem get_trial after delete:", ms.get_trial(tid).state)
except KeyError as e: print("inmem: KeyError ok")
# journal: set RUNNING on own RUNNING trial
sid = js.create_new_study(MIN,"b"); tid = js.create_new_trial(sid)
print("journal RUNNING->RUNNING returns", js.set_trial_state_values(tid, TrialState.RUNNING), " inmem:", end=" ")
sid = ms.create_new_study(MIN,"b"); tid = ms.create_new_trial(sid)
print(ms.set_trial_state_values(tid, TrialState.RUNNING))

def serve(backend):
    port=_find_free_port()
    server = optuna.storages._grpc.server.make_server(backend,"localhost",port)
    server.start()
    p = GrpcStorageProxy(host="localhost",port=port)
    while True:
        try: p.get_all_studies(); break
        except Exception: time.sleep(0.2)
    return server,p,port
# gRPC over journal: finish trial
jb = JournalStorage(JournalFileBackend(os.path.join(d,"j2.log")))
server,p,port = serve(jb)
sid = p.create_new_study(MIN,"g"); tid = p.create_new_trial(sid)
try:
    print("grpc/journal finish:", p.set_trial_state_values(tid, TrialState.COMPLETE, [1.0]))
except Exception as e: print("grpc/journal COMPLETE raised", type(e).__name__, str(e)[:100])
tid = p.create_new_trial(sid)
try:
    print("grpc/journal fail:", p.set_trial_state_values(tid, TrialState.FAIL))
except Exception as e: print("grpc/journal FAIL raised", type(e).__name__, str(e)[:100])
# C04: double claim via grpc over journal
tw = p.create_new_trial(sid, create_trial(state=TrialState.WAITING))
p2 = GrpcStorageProxy(host="localhost",port=port)
try:
    r1 = p.set_trial_state_values(tw, TrialState.RUNNING)
    r2 = p2.set_trial_state_values(tw, TrialState.RUNNING)
    r3 = p2.set_trial_state_values(tw, TrialState.RUNNING)
    print("grpc/journal claims:", r1, r2, r3)
except Exception as e: print("grpc/journal claim raised", type(e).__name__, str(e)[:100])
server.stop(None)
# gRPC over inmemory: FAIL with values [] ?
mb = InMemoryStorage()
server,p,port = serve(mb)
sid = p.create_new_study(MIN,"g"); tid = p.create_new_trial(sid)
print("grpc/inmem fail:", p.set_trial_state_values(tid, TrialState.FAIL), "backend values:", repr(mb.get_trial(0).values), "proxy values:", p.get_trial(tid).values)
server.stop(None)
# C08: cached storage watermark
url = "sqlite:///"+os.path.join(d,"c8.db")
A = _CachedStorage(RDBStorage(url)); B = RDBStorage(url)
sid = A.create_new_study(MIN,"s")
A.get_all_trials(sid)
t_other = B.create_new_trial(sid)   # RUNNING by other worker
A.create_new_trial(sid, create_trial(value=1.0))  # finished template
print("C08 cached sees numbers:", [t.number for t in A.get_all_trials(sid)], " raw:", [t.number for t in B.get_all_trials(sid)])
B.set_trial_state_values(t_other, TrialState.COMPLETE, [0.5])
print("C08 after finish cached:", [(t.number,t.state.name) for t in A.get_all_trials(sid)])
# sqlite id reuse
R = RDBStorage("sqlite:///"+os.path.join(d,"r.db"))
s1 = R.create_new_study(MIN,"x1"); s2 = R.create_new_study(MIN,"x2"); R.delete_study(s2); s3 = R.create_new_study(MIN,"x3")
print("sqlite study ids", s1,s2,s3)
# RDB: RUNNING + values on running trial
tid = R.create_new_trial(s1)
print("rdb set RUNNING w/values returns", R.set_trial_state_values(tid, TrialState.RUNNING, [3.0]), R.get_trial(tid).values)
sid = ms.create_new_study(MIN,"c"); tid = ms.create_new_trial(sid)
print("inmem set RUNNING w/values returns", ms.set_trial_state_values(tid, TrialState.RUNNING, [3.0]), ms.get_trial(tid).values)
