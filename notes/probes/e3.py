import optuna, warnings, copy, tempfile, os, threading, time, json
from optuna.trial import TrialState, create_trial
from optuna.study import StudyDirection
from optuna.storages import InMemoryStorage, RDBStorage, JournalStorage, _CachedStorage, GrpcStorageProxy
from optuna.storages.journal import JournalFileBackend
from optuna.testing.storages import _find_free_port
import optuna.storages._grpc.servicer as sv
optuna.logging.set_verbosity(optuna.logging.ERROR)
warnings.simplefilter("ignore")
d = tempfile.mkdtemp()
MIN=[StudyDirection.MINIMIZE]
orig = sv.OptunaStorageProxyService.SetTrialStateValues
class Wrap:
    def __init__(self, b): self.b=b
    def __getattr__(self, n): return getattr(self.b, n)
    def set_trial_state_values(self, tid, state, values=None):
        return self.b.set_trial_state_values(tid, state, list(values) if values else None)
def serve(backend):
    port=_find_free_port()
    server = optuna.storages._grpc.server.make_server(Wrap(backend),"localhost",port)
    server.start()
    p = GrpcStorageProxy(host="localhost",port=port)
    while True:
        try: p.get_all_studies(); break
        except Exception: time.sleep(0.2)
    return server,p,port
jb = JournalStorage(JournalFileBackend(os.path.join(d,"j2.log")))
server,p,port = serve(jb)
sid = p.create_new_study(MIN,"g")
dbl=0
for i in range(30):
    tw = p.create_new_trial(sid, create_trial(state=TrialState.WAITING))
    p2 = GrpcStorageProxy(host="localhost",port=port)
    r1 = p.set_trial_state_values(tw, TrialState.RUNNING)
    r2 = p2.set_trial_state_values(tw, TrialState.RUNNING)
    if r1 and r2: dbl+=1
print("grpc/journal double claims (patched values):", dbl, "of 30")
server.stop(None)
