import optuna
from optuna._transform import _SearchSpaceTransform
from optuna.distributions import *
import warnings; warnings.simplefilter("ignore")
for d,x in [(FloatDistribution(0,1),1.0),(FloatDistribution(0,1),0.0),(FloatDistribution(1e-3,1,log=True),1.0),(FloatDistribution(0,1,step=0.1),1.0),(IntDistribution(1,10,log=True),10),(FloatDistribution(0.1,1.0,step=0.3),1.0),(IntDistribution(0,10,step=3),9)]:
    for t01 in (False,True):
        tr=_SearchSpaceTransform({"x":d},transform_0_1=t01)
        y=tr.untransform(tr.transform({"x":x}))["x"]
        print(d, x, t01, y, y==x)
d=FloatDistribution(0.1234567890123456, 10.0, step=0.3)
print(d, json_to_distribution(distribution_to_json(d)), d==json_to_distribution(distribution_to_json(d)))
