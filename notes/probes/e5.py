import numpy as np, itertools, math
from optuna._hypervolume import compute_hypervolume
from optuna._hypervolume.hssp import _solve_hssp
rng = np.random.RandomState(0)
bad = 0; worst = 1.0; n=0
for it in range(3000):
    d = rng.choice([2,3])
    m = rng.randint(2,7)
    pts = rng.randint(0,5,size=(m,d)).astype(float)
    ref = np.full(d, 5.0)
    k = rng.randint(1,m+1)
    sel = _solve_hssp(pts, np.arange(m), k, ref)
    assert len(set(sel.tolist()))==k, (pts,k,sel)
    hv = compute_hypervolume(pts[sel], ref)
    best = max(compute_hypervolume(pts[list(c)], ref) for c in itertools.combinations(range(m),k))
    n+=1
    if best>0:
        ratio = hv/best
        if ratio < worst: worst=ratio; w=(pts.tolist(),k,sel.tolist(),hv,best)
        if ratio < 1-1/math.e - 1e-12: bad+=1
print("cases",n,"bad",bad,"worst ratio",worst, w)
