import optuna, warnings, tempfile, os, json
from optuna.trial import TrialState
from optuna.study import StudyDirection
from optuna.storages import JournalStorage
from optuna.storages.journal import JournalFileBackend
optuna.logging.set_verbosity(optuna.logging.ERROR); warnings.simplefilter("ignore")
d = tempfile.mkdtemp(); p = os.path.join(d,"j.log")
A = JournalStorage(JournalFileBackend(p))
sid = A.create_new_study([StudyDirection.MINIMIZE],"s"); t0 = A.create_new_trial(sid)
# simulate crashed writer: torn record
with open(p,"ab") as f: f.write(b'{"op_code":4,"worker_id":"dead","study_')
B = JournalStorage(JournalFileBackend(p))
print("B sees trials:", len(B.get_all_trials(sid)))
try:
    t1 = B.create_new_trial(sid); print("B create ->", t1, "B sees", len(B.get_all_trials(sid)))
except Exception as e: print("B create raised", type(e).__name__, e)
try:
    t2 = B.create_new_trial(sid); print("B create2 ->", t2)
except Exception as e: print("B create2 raised", type(e).__name__, str(e)[:80])
try: print("A reads", len(A.get_all_trials(sid)))
except Exception as e: print("A read raised", type(e).__name__, str(e)[:80])
try: C = JournalStorage(JournalFileBackend(p)); print("fresh C ok")
except Exception as e: print("fresh C raised", type(e).__name__, str(e)[:80])
