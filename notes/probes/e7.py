import optuna, warnings, tempfile, os, random, math, itertools
from optuna.trial import TrialState, create_trial
from optuna.study import StudyDirection
from optuna.storages import InMemoryStorage, RDBStorage, JournalStorage, _CachedStorage
from optuna.storages.journal import JournalFileBackend
from optuna.search_space import IntersectionSearchSpace, intersection_search_space
from optuna.distributions import *
optuna.logging.set_verbosity(optuna.logging.ERROR); warnings.simplefilter("ignore")
d = tempfile.mkdtemp()
rnd = random.Random(0)
vals = [0.0, 1.0, -1.0, float("inf"), float("-inf"), 2.0]
bad=0
for it in range(60):
    sts = {"mem": InMemoryStorage(), "rdb": RDBStorage("sqlite:///"+os.path.join(d,f"r{it}.db")), "jr": JournalStorage(JournalFileBackend(os.path.join(d,f"j{it}.log")))}
    dirn = rnd.choice(["minimize","maximize"])
    studies = {k: optuna.create_study(storage=s, direction=dirn, study_name="s") for k,s in sts.items()}
    n = rnd.randint(1,8)
    hist=[]
    for i in range(n):
        st = rnd.choice([TrialState.COMPLETE]*3+[TrialState.PRUNED, TrialState.FAIL])
        v = rnd.choice(vals) if st==TrialState.COMPLETE else None
        cons = rnd.choice([None,[0.0],[1.0],[-1.0]])
        hist.append((st.name,v,cons))
        for k,s in studies.items():
            s.add_trial(create_trial(state=st, value=v, system_attrs=({"constraints":cons} if cons is not None else {})))
    res={}
    for k,s in studies.items():
        try: res[k]=("ok", s.best_trial.value, s.best_trial.system_attrs.get("constraints"))
        except Exception as e: res[k]=(type(e).__name__,)
    # oracle
    comp=[(v,c) for (st,v,c) in hist if st=="COMPLETE"]
    if len(set((r[0], r[1] if len(r)>1 else None) for r in res.values()))>1:
        bad+=1; print("DIVERGE", dirn, hist, res)
    else:
        r=res["mem"]
        if r[0]=="ok":
            best = (min if dirn=="minimize" else max)(v for v,c in comp)
            feas=[v for v,c in comp if c is not None and all(x<=0 for x in c)]
            allrec = all(c is not None for v,c in comp)
            if allrec and feas:
                bf=(min if dirn=="minimize" else max)(feas)
                if r[1]!=bf: bad+=1; print("BADFEAS", dirn, hist, res)
            if not any(c is not None for v,c in comp) and r[1]!=best: bad+=1; print("BADBEST", dirn,hist,res)
print("C12 bad:",bad)
