import optuna, warnings, random, collections
optuna.logging.set_verbosity(optuna.logging.ERROR); warnings.simplefilter("ignore")
def gen(r, depth, names):
    if depth==0 or r.random()<0.25: return ("leaf", r.choice(["ok","ok","ok","fail","prune"]))
    name = "p%d"%next(names)
    kind = r.choice(["int","cat","float"])
    if kind=="int":
        lo=r.randint(-2,2); n=r.randint(1,3); step=r.randint(1,2); spec=("int",lo,lo+(n-1)*step,step); cands=list(range(lo,lo+(n-1)*step+1,step))
    elif kind=="cat":
        n=r.randint(1,3); cands=["a","b","c"][:n]; spec=("cat",tuple(cands))
    else:
        n=r.randint(1,3); spec=("float",0.0,0.5*(n-1),0.5); cands=[0.5*i for i in range(n)]
    return ("node",name,spec,{c:gen(r,depth-1,names) for c in cands})
def leaves(t,path=()):
    if t[0]=="leaf": yield path; return
    for c,ch in t[3].items(): yield from leaves(ch,path+((t[1],c),))
def run(t,trial):
    while t[0]=="node":
        _,name,spec,ch=t
        if spec[0]=="int": v=trial.suggest_int(name,spec[1],spec[2],step=spec[3])
        elif spec[0]=="cat": v=trial.suggest_categorical(name,spec[1])
        else: v=trial.suggest_float(name,spec[1],spec[2],step=spec[3])
        t=ch[v]
    if t[1]=="fail": raise ValueError("x")
    if t[1]=="prune": raise optuna.TrialPruned()
    return 0.0
import itertools
bad=0
for seed in range(300):
    r=random.Random(seed); names=itertools.count()
    t=gen(r,3,names)
    L=list(leaves(t))
    s=optuna.create_study(sampler=optuna.samplers.BruteForceSampler(seed=seed))
    # split into several optimize calls
    tot=0
    for k in range(50):
        s._stop_flag=False
        before=len(s.trials)
        s.optimize(lambda tr: run(t,tr), n_trials=r.randint(1,3), catch=(ValueError,))
        if s._stop_flag: break
    seen=collections.Counter(tuple(sorted(tr.params.items())) for tr in s.trials)
    exp=collections.Counter(tuple(sorted(p)) for p in L)
    if seen!=exp or not s._stop_flag:
        bad+=1
        if bad<4: print("BAD seed",seed,"stop",s._stop_flag, "leaves",len(L),"trials",len(s.trials), seen-exp, exp-seen)
print("C14 bad",bad)
