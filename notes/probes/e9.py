import optuna, warnings, tempfile, os
from optuna.storages import InMemoryStorage, RDBStorage, JournalStorage, _CachedStorage
from optuna.storages.journal import JournalFileBackend
optuna.logging.set_verbosity(optuna.logging.ERROR); warnings.simplefilter("ignore")
d=tempfile.mkdtemp()
def obj(t):
    x=t.suggest_float("x",-5,5); y=t.suggest_int("y",0,10)
    if t.suggest_categorical("c",["a","b"])=="a":
        z=t.suggest_float("z",1e-3,1,log=True)
    else: z=0
    for s in range(3):
        t.report(x*x+s,s)
        if t.should_prune(): raise optuna.TrialPruned()
    return x*x+y+z
def obj2(t):
    x=t.suggest_float("x",-5,5); y=t.suggest_float("y",-5,5); return x*x+y, (x-2)**2+y*y
def run(mk, sampler_f, multi, pre):
    st=mk()
    if pre:
        o=optuna.create_study(storage=st, study_name="other"); o.optimize(lambda t:t.suggest_float("q",0,1), n_trials=3)
    s=optuna.create_study(storage=st, study_name="main", sampler=sampler_f(), directions=["minimize","minimize"] if multi else ["minimize"], pruner=optuna.pruners.MedianPruner(n_startup_trials=2))
    s.optimize(obj2 if multi else obj, n_trials=12); s.optimize(obj2 if multi else obj, n_trials=10)
    return [(t.params, t.state.name, t.values, t.intermediate_values) for t in s.trials]
i=[0]
def mk_rdb(): i[0]+=1; return RDBStorage("sqlite:///"+os.path.join(d,"r%d.db"%i[0]))
def mk_j(): i[0]+=1; return JournalStorage(JournalFileBackend(os.path.join(d,"j%d.log"%i[0])))
for name,sf,multi in [("tpe",lambda:optuna.samplers.TPESampler(seed=1,n_startup_trials=4),False),("tpe-mv",lambda:optuna.samplers.TPESampler(seed=1,n_startup_trials=4,multivariate=True,group=True),False),("random",lambda:optuna.samplers.RandomSampler(seed=1),False),("nsga2",lambda:optuna.samplers.NSGAIISampler(seed=1,population_size=4),True),("nsga3",lambda:optuna.samplers.NSGAIIISampler(seed=1,population_size=4),True),("qmc",lambda:optuna.samplers.QMCSampler(seed=1),False),("tpe-mo",lambda:optuna.samplers.TPESampler(seed=1,n_startup_trials=4),True)]:
    base=None
    for sname,mk,pre in [("mem",InMemoryStorage,False),("mem+pre",InMemoryStorage,True),("rdb",mk_rdb,False),("rdb+pre",mk_rdb,True),("journal",mk_j,False),("journal+pre",mk_j,True)]:
        try: r=run(mk,sf,multi,pre)
        except Exception as e: r=("EXC",type(e).__name__,str(e)[:60])
        if base is None: base=r
        print(name,sname,"same" if r==base else ("DIFF "+(str(r)[:90] if isinstance(r,tuple) else "first diff at trial %d"%next(k for k,(a,b) in enumerate(zip(r,base)) if a!=b))))
