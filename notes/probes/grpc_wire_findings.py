"""Replays, on the real GrpcStorageProxy over a live in-process server, of what Props/C01Grpc.lean proves false /
normalised on today's code.  Run:  /venv/bin/python notes/probes/grpc_wire_findings.py   (from the framework root)"""
import datetime
import sys
import tempfile

sys.path.insert(0, ".")
from verif import fleet  # noqa: E402

from optuna.distributions import CategoricalDistribution, FloatDistribution  # noqa: E402
from optuna.storages._grpc import servicer as S  # noqa: E402
from optuna.study import StudyDirection  # noqa: E402
from optuna.trial import FrozenTrial, TrialState  # noqa: E402

tmp = tempfile.mkdtemp()


def frozen(**kw):
    base = dict(number=-1, trial_id=-1, state=TrialState.RUNNING, value=None, datetime_start=None, datetime_complete=None,
                params={}, distributions={}, user_attrs={}, system_attrs={}, intermediate_values={})
    base.update(kw)
    return FrozenTrial(**base)


print("1. (create_new_trial, ValueError): lost as RpcError(UNKNOWN) before repo commit ea84654, preserved since (error_class_preserved)")
h = fleet.make("grpc(rdb)", tmp)
sid = h.storage.create_new_study([StudyDirection.MINIMIZE], "s")
tid = h.storage.create_new_trial(sid)
h.storage.set_trial_param(tid, "p", 0.5, FloatDistribution(0, 1))
tm = frozen(params={"p": "a"}, distributions={"p": CategoricalDistribution(["a"])})
for name, st in (("backend (RDBStorage on SQLite)", h.inner.storage), ("GrpcStorageProxy over it", h.storage)):
    try:
        st.create_new_trial(sid, tm)
        print("   %-32s -> no exception" % name)
    except Exception as e:  # noqa: BLE001
        print("   %-32s -> %s%s" % (name, type(e).__name__, " code=%s" % e.code() if hasattr(e, "code") else ""))
h.close()

print("2. proto_direction_not_set_witness  (StudyDirection.NOT_SET)")
h = fleet.make("grpc(mem)", tmp)
a = h.inner.storage.create_new_study([StudyDirection.NOT_SET], "direct")
b = h.storage.create_new_study([StudyDirection.NOT_SET], "proxied")
print("   InMemoryStorage.create_new_study([NOT_SET]) stores      ", h.inner.storage.get_study_directions(a))
print("   the same call through GrpcStorageProxy stores           ", h.inner.storage.get_study_directions(b))
print("   and a NOT_SET study of the backend is read by the proxy as", h.storage.get_study_directions(a))

print("3. normal form: values=[] becomes None  (proto_values_roundtrip)")
t1 = h.inner.storage.create_new_trial(a, frozen(state=TrialState.FAIL, values=[]))
t2 = h.storage.create_new_trial(a, frozen(state=TrialState.FAIL, values=[]))
print("   template values=[] stored directly:", h.inner.storage.get_trial(t1).values, "| through the proxy:", h.inner.storage.get_trial(t2).values,
      "| a stored [] read through the proxy:", h.storage.get_trial(t1).values)
h.close()

print("4. outside the contract's types (datetimes are present/absent there): text round trip of datetimes")
for ds in (datetime.datetime(999, 1, 1), datetime.datetime(2024, 1, 1, 12, tzinfo=datetime.timezone(datetime.timedelta(hours=9)))):
    p = S._to_proto_trial(frozen(datetime_start=ds))
    try:
        print("   %r -> %r -> %r" % (ds, p.datetime_start, S._from_proto_trial(p).datetime_start))
    except Exception as e:  # noqa: BLE001
        print("   %r -> %r -> %s: %s" % (ds, p.datetime_start, type(e).__name__, e))
