"""Finding F29 (C07/C05): after a stale-lock takeover the taker keeps its expired staleness timer.

Worker 0 takes the journal lock and dies.  Worker 1 waits past the grace period and forcibly releases the
stale lock (correct).  Before worker 1 re-creates the lock file, a newcomer (worker 2) wins it and is inside
its critical section, not having written to the journal yet.  Worker 1's next loop iteration sees an
unchanged mtime (JournalFileSymlinkLock: os.stat follows the link to the journal file; JournalFileOpenLock:
equal creation stamps within the timestamp granularity) together with its OLD, expired timer, and forcibly
releases worker 2's LIVE lock: two holders.  exit 0 = at most one holder, exit 1 = two holders."""
import os, sys, tempfile, threading, time, warnings
warnings.simplefilter("ignore")
from optuna.storages.journal import _file as jf

kind = sys.argv[1] if len(sys.argv) > 1 else "symlink"
d = tempfile.mkdtemp()
path = os.path.join(d, "j.log")
open(path, "w").close()
Lock = jf.JournalFileSymlinkLock if kind == "symlink" else jf.JournalFileOpenLock
w0, w1, w2 = Lock(path, grace_period=1), Lock(path, grace_period=1), Lock(path, grace_period=1)
assert w0.acquire()          # worker 0 holds the lock and dies here

taken_over = threading.Event()   # worker 1 has removed the stale lock
w2_in = threading.Event()        # worker 2 is inside its critical section
w2_left = threading.Event()
holders = []
real_sleep = time.sleep


class T:
    """`time` as seen by _file.py: worker 1 is paused right after its takeover until worker 2 holds the lock."""
    monotonic = staticmethod(time.monotonic)

    @staticmethod
    def sleep(s):
        if threading.current_thread().name == "w1" and not os.path.lexists(path + jf.LOCK_FILE_SUFFIX) and not taken_over.is_set():
            taken_over.set()
            w2_in.wait(10)
        real_sleep(s)


jf.time = T


def worker1():
    w1.acquire()
    holders.append(1)
    two = w2_in.is_set() and not w2_left.is_set()
    holders.append("TWO" if two else "one")


def worker2():
    taken_over.wait(10)
    w2.acquire()
    holders.append(2)
    w2_in.set()
    real_sleep(0.4)           # a live holder, well inside the grace period (1 s) of ITS lock
    w2_left.set()
    try:
        w2.release()
    except RuntimeError:
        holders.append("w2-release-raised")


t1 = threading.Thread(target=worker1, name="w1"); t2 = threading.Thread(target=worker2, name="w2")
t1.start(); t2.start(); t1.join(20); t2.join(20)
print(kind, holders)
sys.exit(1 if "TWO" in holders else 0)
