"""Finding F31 (C07): JournalFileSymlinkLock measures staleness on the journal file's mtime (os.stat follows the link).

grace_period = 1 s.  Worker 0 holds the lock for 0.9 s (inside the grace period) without the journal changing and
releases it; worker 2 acquires it at once and is inside its critical section for 0.5 s (also inside the grace period).
Worker 1 has been waiting since t = 0.05 s: at every poll the lock file existed and the journal's mtime was the same,
so at t > 1.05 s it forcibly releases the lock - the one worker 2 created a moment ago.  Two holders.
exit 0 = never two holders, exit 1 = two holders."""
import os, sys, tempfile, threading, time, warnings
warnings.simplefilter("ignore")
from optuna.storages.journal import _file as jf

d = tempfile.mkdtemp()
path = os.path.join(d, "j.log")
open(path, "w").close()
Lock = jf.JournalFileSymlinkLock
w0, w1, w2 = Lock(path, grace_period=1), Lock(path, grace_period=1), Lock(path, grace_period=1)
inside = set()
seen_two = []
mu = threading.Lock()


def enter(i):
    with mu:
        inside.add(i)
        if len(inside) > 1:
            seen_two.append(sorted(inside))


def leave(i):
    with mu:
        inside.discard(i)


def hold(lock, i, start, dur):
    time.sleep(start)
    lock.acquire()
    enter(i)
    time.sleep(dur)
    leave(i)
    try:
        lock.release()
    except RuntimeError:
        pass


ts = [threading.Thread(target=hold, args=(w0, 0, 0.0, 0.9)),
      threading.Thread(target=hold, args=(w1, 1, 0.05, 0.05)),
      threading.Thread(target=hold, args=(w2, 2, 0.85, 0.5))]
for t in ts:
    t.start()
for t in ts:
    t.join(20)
print("two holders:", seen_two)
sys.exit(1 if seen_two else 0)
