"""Finding F40 (C03): on SQLite, RDBStorage.delete_study is not serialised against another worker's call on the same study.
A call first checks that the study / trial exists and then writes; `SELECT ... FOR UPDATE` (which serialises the two on
PostgreSQL / MySQL) is dropped by the SQLite dialect and pysqlite begins the transaction only at the first DML.  Worker B's whole
delete_study is placed between worker A's check and A's write (from inside a before_cursor_execute hook of A's engine):

  1. create_new_trial returns the id of a trial of a study that no longer exists: an orphan row, number 0, readable by id
     (sequentially: KeyError if the delete came first; if the create came first the delete removes the trial)
  2. set_trial_state_values(RUNNING) on a WAITING trial answers False ("somebody else claimed it") - sequentially True or KeyError
  3. a second delete_study of the same study returns normally - sequentially the second one raises KeyError

exit 0: reproduced (finding present); exit 1: not reproduced."""
import os
import sys
import tempfile

import sqlalchemy

import optuna
from optuna.storages import RDBStorage
from optuna.study import StudyDirection
from optuna.trial import TrialState

optuna.logging.set_verbosity(optuna.logging.ERROR)
d = tempfile.mkdtemp()


def place(a, prefix, action):
    """run `action` once, just before the first statement of `a`'s engine that starts with `prefix`"""
    done = []

    def hook(conn, cursor, statement, parameters, context, executemany):
        if statement.lstrip().upper().startswith(prefix) and not done:
            done.append(1)
            action()

    sqlalchemy.event.listen(a.engine, "before_cursor_execute", hook)
    return lambda: sqlalchemy.event.remove(a.engine, "before_cursor_execute", hook)


def outcome(f):
    try:
        return repr(f())
    except Exception as e:  # noqa: BLE001
        return type(e).__name__


res = {}
# 1. create_new_trial vs delete_study
url = "sqlite:///" + os.path.join(d, "a.db")
a, b = RDBStorage(url), RDBStorage(url)
sid = a.create_new_study([StudyDirection.MINIMIZE], "s")
a.create_new_trial(sid)
undo = place(a, "INSERT INTO TRIALS", lambda: b.delete_study(sid))
tid = None
try:
    tid = a.create_new_trial(sid)
    res["create"] = "id"
except Exception as e:  # noqa: BLE001
    res["create"] = type(e).__name__
undo()
fresh = RDBStorage(url)
res["study_exists"] = outcome(lambda: fresh.get_study_name_from_id(sid))
res["orphan_number"] = outcome(lambda: fresh.get_trial(tid).number) if tid is not None else None
# 2. claim vs delete_study
url = "sqlite:///" + os.path.join(d, "b.db")
a, b = RDBStorage(url), RDBStorage(url)
sid = a.create_new_study([StudyDirection.MINIMIZE], "s")
wt = a.create_new_trial(sid, optuna.trial.create_trial(state=TrialState.WAITING))
undo = place(a, "UPDATE TRIALS", lambda: b.delete_study(sid))
res["claim"] = outcome(lambda: a.set_trial_state_values(wt, TrialState.RUNNING))
undo()
# 3. delete_study twice
url = "sqlite:///" + os.path.join(d, "c.db")
a, b = RDBStorage(url), RDBStorage(url)
sid = a.create_new_study([StudyDirection.MINIMIZE], "s")
undo = place(a, "DELETE FROM", lambda: res.__setitem__("delete_b", outcome(lambda: b.delete_study(sid))))
res["delete_a"] = outcome(lambda: a.delete_study(sid))
undo()
print(res)
ok = (res["create"] == "id" and res["study_exists"] == "KeyError" and res["orphan_number"] == "0" and res["claim"] == "False"
      and res["delete_a"] == "None" and res["delete_b"] == "None")
sys.exit(0 if ok else 1)
