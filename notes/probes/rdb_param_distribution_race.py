"""Finding F37 (C03): RDBStorage.set_trial_param checks the compatibility of the new distribution against the rows of the
OTHER trials of the study and then inserts its own row; nothing serialises two such calls (pysqlite runs the SELECT in
autocommit; elsewhere the study row is not locked), so two workers that set one parameter name with incompatible
distributions on two trials at the same time can both succeed.  In every sequential order the second call raises
ValueError.  Deterministic: worker B's whole call is placed just before worker A's INSERT INTO trial_params.

exit 0: the race is reproduced (finding present); exit 1: not reproduced."""
import os
import sys
import tempfile

import sqlalchemy

import optuna
from optuna.distributions import FloatDistribution, IntDistribution
from optuna.storages import RDBStorage
from optuna.study import StudyDirection

optuna.logging.set_verbosity(optuna.logging.ERROR)
d = tempfile.mkdtemp()
url = "sqlite:///" + os.path.join(d, "x.db")
a, b = RDBStorage(url), RDBStorage(url)
sid = a.create_new_study([StudyDirection.MINIMIZE], "s")
ta, tb = a.create_new_trial(sid), b.create_new_trial(sid)
out = {}


@sqlalchemy.event.listens_for(a.engine, "before_cursor_execute")
def _hook(conn, cursor, statement, parameters, context, executemany):
    if statement.lstrip().upper().startswith("INSERT INTO TRIAL_PARAMS") and "b" not in out:
        try:
            b.set_trial_param(tb, "x", 3.0, IntDistribution(0, 10))
            out["b"] = "ok"
        except Exception as e:  # noqa: BLE001
            out["b"] = type(e).__name__


try:
    a.set_trial_param(ta, "x", 0.5, FloatDistribution(0, 1))
    out["a"] = "ok"
except Exception as e:  # noqa: BLE001
    out["a"] = type(e).__name__
dists = {t.number: {k: type(v).__name__ for k, v in t.distributions.items()} for t in RDBStorage(url).get_all_trials(sid)}
print("outcomes", out, "distributions", dists)
# sequential control: the second call raises
c = RDBStorage("sqlite:///" + os.path.join(d, "y.db"))
sid2 = c.create_new_study([StudyDirection.MINIMIZE], "s")
t1, t2 = c.create_new_trial(sid2), c.create_new_trial(sid2)
c.set_trial_param(t1, "x", 0.5, FloatDistribution(0, 1))
try:
    c.set_trial_param(t2, "x", 3.0, IntDistribution(0, 10))
    seq = "ok"
except ValueError:
    seq = "ValueError"
print("sequential second call:", seq)
sys.exit(0 if (out == {"a": "ok", "b": "ok"} and seq == "ValueError") else 1)
