"""End-to-end: JournalStorage over JournalRedisBackend(use_cluster=True) on fakeredis; a writer 'dies' between INCR and SET
(simulated exactly: the INCR is issued, the SET never); every other worker's next storage call then never returns."""
import warnings, threading
warnings.simplefilter("ignore")
import fakeredis
import optuna
import optuna.storages.journal._redis as jr
from optuna.storages import JournalStorage
from optuna.storages.journal import JournalRedisBackend

class Polls(BaseException):
    pass

class T:
    n = 0
    def sleep(self, s):
        T.n += 1
        if T.n > 50:
            raise Polls()
    def __getattr__(self, k):
        import time
        return getattr(time, k)

for cluster in (True, False):
    server = fakeredis.FakeServer()
    def mk():
        b = JournalRedisBackend("redis://localhost", use_cluster=cluster, prefix="p")
        b._redis = fakeredis.FakeStrictRedis(server=server)
        return JournalStorage(b)
    a = mk()
    sid = a.create_new_study([optuna.study.StudyDirection.MINIMIZE], "s")
    # the dying writer: append_logs of one record, killed after INCR (cluster) / after the EVAL (non-cluster: there is no in-between)
    raw = fakeredis.FakeStrictRedis(server=server)
    if cluster:
        raw.incr("p:log_number", 1)
    saved, jr.time = jr.time, T()
    T.n = 0
    try:
        b2 = mk()  # a fresh worker: its constructor replays the log
        tid = b2.create_new_trial(sid)
        print("use_cluster=%s: fresh worker proceeds, trial id %s" % (cluster, tid))
    except Polls:
        print("use_cluster=%s: a fresh JournalStorage (and every existing worker's next call) polls key p:log:%s for ever (stopped after 50 sleeps)" % (cluster, raw.get("p:log_number").decode()))
    finally:
        jr.time = saved
