import sys, threading, random, optuna, warnings
from optuna.storages import InMemoryStorage
from optuna.study import StudyDirection
optuna.logging.set_verbosity(optuna.logging.ERROR)
TRACE_PREFIX = "/repo/optuna/storages/"
class Sched:
    def __init__(self, seed):
        self.rng = random.Random(seed); self.cv = threading.Condition(); self.current=None; self.alive=set(); self.trace=[]; self.blocked=set()
    def tracer(self, tid):
        def local(frame, event, arg):
            if event=="line": self.yield_(tid)
            return local
        def glob(frame, event, arg):
            if frame.f_code.co_filename.startswith(TRACE_PREFIX): return local
            return None
        return glob
    def yield_(self, tid, blocked=False):
        with self.cv:
            if blocked: self.blocked.add(tid)
            else: self.blocked.discard(tid)
            self.pick()
            while self.current != tid: self.cv.wait()
    def pick(self):
        cands = sorted(self.alive - self.blocked) or sorted(self.alive)
        if cands:
            self.current = self.rng.choice(cands); self.trace.append(self.current)
        self.cv.notify_all()
    def run(self, fns):
        ths=[]
        for i,f in enumerate(fns):
            def body(i=i,f=f):
                with self.cv:
                    while self.current != i: self.cv.wait()
                sys.settrace(self.tracer(i))
                try: f()
                finally:
                    sys.settrace(None)
                    with self.cv:
                        self.alive.discard(i); self.pick()
            ths.append(threading.Thread(target=body))
        self.alive=set(range(len(fns)))
        for t in ths: t.start()
        with self.cv: self.pick()
        for t in ths: t.join()
class SLock:
    def __init__(self, sched, tl): self.s=sched; self.l=threading.RLock(); self.tl=tl
    def __enter__(self):
        while not self.l.acquire(blocking=False): self.s.yield_(self.tl.i, blocked=True)
        self.s.blocked.clear()
    def __exit__(self,*a): self.l.release(); self.s.blocked.clear()
class NoLock:
    def __enter__(self): pass
    def __exit__(self,*a): pass
def trial(seed, lock):
    st=InMemoryStorage(); sid=st.create_new_study([StudyDirection.MINIMIZE],"s")
    s=Sched(seed); tl=threading.local()
    st._lock = SLock(s,tl) if lock else NoLock()
    res={}
    def w(i):
        def f():
            tl.i=i
            res[i]=[st.create_new_trial(sid) for _ in range(2)]
        return f
    s.run([w(0),w(1)])
    nums=[t.number for t in st.get_all_trials(sid)]
    ids=res[0]+res[1]
    return len(set(ids))==4 and nums==list(range(len(nums))) and len(nums)==4
import time
t=time.time()
print("with lock ok:", sum(trial(s,True) for s in range(40)),"/40")
print("without lock ok:", sum(trial(s,False) for s in range(40)),"/40", time.time()-t)
