"""Finding F33 (C10): TPE's continuous path returns `ppf(q) * sigma + mu` unclipped; when the uniform draw is 0.0 (or so
small that ppf rounds to `a`) the float result `fl(fl((low - mu) / sigma) * sigma + mu)` can be one ulp BELOW `low`.
numpy's RandomState.uniform(0, 1) can return exactly 0.0.  exit 0 = every sample inside [low, high]; exit 1 = not."""
import sys
import numpy as np
from optuna.samplers._tpe import probability_distributions as PD


class ZeroRNG(np.random.RandomState):
    def uniform(self, low=0.0, high=1.0, size=None):  # the smallest value the real generator can return
        return np.zeros(size if size is not None else ())


bad = []
r = np.random.RandomState(1)
for _ in range(2000):
    low = float(r.choice([0.0, 123.456, -7.25, 1e-3, 1.0]))
    high = low + float(r.choice([1.0, 1000.0, 1e-3]))
    mu = float(r.uniform(low, high))
    sigma = float(r.uniform(0.01, 1.0) * (high - low))
    mix = PD._MixtureOfProductDistribution(
        weights=np.array([1.0]),
        distributions=[PD._BatchedTruncNormDistributions(mu=np.array([mu]), sigma=np.array([sigma]), low=low, high=high)])
    x = float(mix.sample(ZeroRNG(0), 1)[0, 0])
    if not (low <= x <= high):
        bad.append((low, high, mu, sigma, x))
print("outside:", len(bad), bad[:2])
sys.exit(1 if bad else 0)
