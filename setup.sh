#!/bin/sh
# Build the Lean library (models + every property proof) and the compiled model driver. Offline.
set -e
cd "$(dirname "$0")/lean"
lake build OptunaVerif driver
