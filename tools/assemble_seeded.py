#!/usr/bin/env python3
"""Copy confirmed seeded changes from /tmp/mut/<id>.out into /verif/seeded/<ID>-<n>/ (patch.diff, demo.py, meta.json).
meta.json = the mutation agent's meta + what was confirmed here + which check caught it (from the detection table)."""
import json, os, re, shutil, sys
ROOT = os.path.dirname(os.path.dirname(os.path.abspath(__file__)))
CONF = "/root/scratch/confirm_results.txt"
DET = json.load(open(os.path.join(ROOT, "seeded", "detection.json")))
conf = {}
for l in open(CONF):
    m = re.match(r"(c\d+) demo(\d): clean_exit=(\d+) patched_exit=(\d+) tests: (.*)", l.strip())
    if m:
        conf[(m.group(1), int(m.group(2)))] = {"demo_exit_without_change": int(m.group(3)), "demo_exit_with_change": int(m.group(4)), "tests_with_change": m.group(5)}
n = 0
for (cid, k), c in sorted(conf.items()):
    src = "/tmp/mut/%s.out" % cid
    if not (c["demo_exit_without_change"] == 0 and c["demo_exit_with_change"] != 0):
        print("skip (demo not confirmed)", cid, k); continue
    if not os.path.exists("%s/patch%d.diff" % (src, k)):
        continue
    key = "%s-%d" % (cid.upper(), k)
    dst = os.path.join(ROOT, "seeded", key)
    os.makedirs(dst, exist_ok=True)
    shutil.copy("%s/patch%d.diff" % (src, k), dst + "/patch.diff")
    shutil.copy("%s/demo%d.py" % (src, k), dst + "/demo.py")
    try:
        meta = json.load(open("%s/meta%d.json" % (src, k)))
    except Exception:
        meta = {}
    meta["breaks_property"] = cid.upper()
    meta["confirmed_here"] = dict(c, how="tools/confirm_seeded.sh on a scratch copy of /repo: demo without / with the patch, then the listed test directories with the patch (-k 'not grpc')")
    meta["detection"] = DET.get(key, "not yet run")
    if "1 error" in c["tests_with_change"]:
        meta["confirmed_here"]["note"] = "the 1 error is the collection error of tests/study_tests/test_dataframe.py (pandas is not installed); it is the same on the unchanged tree"
    json.dump(meta, open(dst + "/meta.json", "w"), indent=1)
    n += 1
print("assembled", n)
