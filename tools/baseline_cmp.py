#!/usr/bin/env python3
"""Compare a junit file of the repository's test suite with BASELINE.json stable_pass."""
import json, sys, xml.etree.ElementTree as ET
b = json.load(open('/root/.vp/BASELINE.json'))
stable = set(b['stable_pass'])
root = ET.parse(sys.argv[1]).getroot()
passed, failed = set(), set()
for tc in root.iter('testcase'):
    tid = (tc.get('classname') or '') + '::' + (tc.get('name') or '')
    if tc.find('failure') is not None or tc.find('error') is not None: failed.add(tid)
    elif tc.find('skipped') is None: passed.add(tid)
passed -= failed
missing = sorted(stable - passed)
print('stable_pass', len(stable), 'passed now', len(passed), 'stable tests not passing now:', len(missing))
for m in missing[:40]: print('  ', m)
sys.exit(1 if missing else 0)
