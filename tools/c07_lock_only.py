#!/venv/bin/python
"""Development helper: run only the lock tie of C07 (verif/props/c07_lock.py), no Lean proof build.
usage: tools/c07_lock_only.py [quick|thorough]   (honours VERIF_SEED; VERIF_REPO + PYTHONPATH for patched copies)"""
import os
import shutil
import sys

ROOT = os.path.dirname(os.path.dirname(os.path.abspath(__file__)))
sys.path.insert(0, ROOT)


def main() -> int:
    os.chdir(ROOT)
    from verif import core
    from verif.props import c07_lock

    tier = sys.argv[1] if len(sys.argv) > 1 else "quick"
    chk = core.Check("C07", tier, int(os.environ.get("VERIF_SEED", "0") or 0))
    core.ensure_driver()
    c07_lock.correspond(chk, tier)
    for b in chk.broken[:3]:
        print("BROKE", b["what"], core.canon(b["detail"])[:1500])
    for v in chk.violations[:3]:
        print("VIOLATION", v["signature"], v["message"])
    print({k: v for k, v in sorted(chk.hist.items()) if k.startswith("lock:") or k.startswith("lock-")}, "wall", chk.extra.get("lock_tie_wall_s"))
    shutil.rmtree(chk.tmp, ignore_errors=True)
    return 1 if (chk.broken or chk.violations) else 0


if __name__ == "__main__":
    sys.exit(main())
