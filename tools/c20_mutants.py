"""Mutation test driver for C20: one edit at a time on a scratch copy of /repo.

usage: python3 tools/c20_mutants.py <workspace copy of the framework> <mutant name>...   (prints one JSON line per mutant:
exit code, VIOLATION line, what broke first, signature, replay outcome).  Run several in parallel only on separate
workspace copies: a run regenerates lean/OptunaVerif/Generated/HeapMethods.lean."""
import os, subprocess, sys, json, time, shutil
M = {
 "M01-mem-user_attr-no-dictcopy": ("optuna/storages/_in_memory.py",
    "            trial.user_attrs = copy.copy(trial.user_attrs)\n", ""),
 "M02-mem-param-no-dictcopy": ("optuna/storages/_in_memory.py",
    "            trial.params = copy.copy(trial.params)\n", ""),
 "M03-mem-get_all_trials-live-list": ("optuna/storages/_in_memory.py",
    "                trials = copy.copy(trials)\n", "                pass\n"),
 "M04-journal-user_attr-update-old-dict": ("optuna/storages/journal/_storage.py",
    "            trial.user_attrs = {**copy.copy(trial.user_attrs), **log[\"user_attr\"]}\n",
    "            trial.user_attrs.update(log[\"user_attr\"])\n"),
 "M05a-mem-study-attr-inplace": ("optuna/storages/_in_memory.py",
    "            study.user_attrs = {**study.user_attrs, key: value}\n", "            study.user_attrs[key] = value\n"),
 "M05b-journal-study-attr-update": ("optuna/storages/journal/_storage.py",
    "            study.system_attrs = {**study.system_attrs, **log[\"system_attr\"]}\n", "            study.system_attrs.update(log[\"system_attr\"])\n"),
 "M06-Trial-init-keeps-storage-object": ("optuna/trial/_trial.py",
    "self._cached_frozen_trial = copy.deepcopy(self.storage.get_trial(self._trial_id))", "self._cached_frozen_trial = self.storage.get_trial(self._trial_id)"),
 "M07-Study.trials-no-deepcopy": ("optuna/study/study.py",
    "        return self.get_trials(deepcopy=True, states=None)", "        return self.get_trials(deepcopy=False, states=None)"),
 "M08-cached-updates-cached-object-in-place": ("optuna/storages/_cached_storage.py",
    "            study.trials[trial.number] = trial\n",
    "            if trial.number in study.trials:\n                study.trials[trial.number].__dict__.update(trial.__dict__)\n            else:\n                study.trials[trial.number] = trial\n"),
 "M09-mem-state_values-no-trial-copy": ("optuna/storages/_in_memory.py",
    "            trial = copy.copy(self._get_trial(trial_id))\n", "            trial = self._get_trial(trial_id)\n"),
 "M10-journal-get_all_studies-no-deepcopy": ("optuna/storages/journal/_storage.py",
    "            return copy.deepcopy(self._replay_result.get_all_studies())", "            return self._replay_result.get_all_studies()"),
 "M11-mem-template-shallow-copy": ("optuna/storages/_in_memory.py",
    "                trial = copy.deepcopy(template_trial)", "                trial = copy.copy(template_trial)"),
 "M12-Study.user_attrs-no-deepcopy": ("optuna/study/study.py",
    "        return copy.deepcopy(self._storage.get_study_user_attrs(self._study_id))", "        return self._storage.get_study_user_attrs(self._study_id)"),
 "M13-mem-frozen-study-live-attrs": ("optuna/storages/_in_memory.py",
    "            user_attrs=copy.deepcopy(study.user_attrs),", "            user_attrs=study.user_attrs,"),
 "M14-grpc-client-ignores-deepcopy": ("optuna/storages/_grpc/client.py",
    "        return copy.deepcopy(trials) if deepcopy else trials", "        return trials"),
 "M15-mem-intermediate-overwrite-in-place": ("optuna/storages/_in_memory.py",
    "            trial = copy.copy(trial)\n            trial.intermediate_values = copy.copy(trial.intermediate_values)\n            trial.intermediate_values[step] = intermediate_value\n            self._set_trial(trial_id, trial)\n",
    "            if step in trial.intermediate_values:\n                trial.intermediate_values[step] = intermediate_value\n                return\n            trial = copy.copy(trial)\n            trial.intermediate_values = copy.copy(trial.intermediate_values)\n            trial.intermediate_values[step] = intermediate_value\n            self._set_trial(trial_id, trial)\n"),
 "M16-journal-param-distributions-in-place": ("optuna/storages/journal/_storage.py",
    "        trial.distributions = {**copy.copy(trial.distributions), param_name: distribution}\n", "        trial.distributions[param_name] = distribution\n"),
 "M17-tell-returns-storage-object": ("optuna/study/_tell.py",
    "    frozen_trial = copy.deepcopy(study._storage.get_trial(frozen_trial._trial_id))", "    frozen_trial = study._storage.get_trial(frozen_trial._trial_id)"),
 "M18-mem-waiting-branch-returns-cached-list": ("optuna/storages/_in_memory.py",
    "            if deepcopy:\n                trials = copy.deepcopy(trials)\n", "            if deepcopy and states is None:\n                trials = copy.deepcopy(trials)\n            elif deepcopy:\n                pass\n"),
 "M19-journal-state_values-no-trial-copy": ("optuna/storages/journal/_storage.py",
    "        trial = copy.copy(self._trials[trial_id])\n        if state == TrialState.RUNNING:", "        trial = self._trials[trial_id]\n        if state == TrialState.RUNNING:"),
 "M20-Trial.params-no-deepcopy": ("optuna/trial/_trial.py",
    "        return copy.deepcopy(self._cached_frozen_trial.params)", "        return self._cached_frozen_trial.params"),
}

def run(name, ws):
    path, old, new = M[name]
    repo = os.path.join(os.path.dirname(ws.rstrip("/")), "repo_mut_" + os.path.basename(ws.rstrip("/")))
    subprocess.run(["rsync", "-a", "--delete", "--exclude", ".git", "/repo/", repo + "/"], check=True)
    f = os.path.join(repo, path)
    s = open(f).read()
    assert s.count(old) == 1, (name, s.count(old))
    open(f, "w").write(s.replace(old, new))
    env = dict(os.environ, VERIF_REPO=repo, PYTHONPATH=repo)
    t0 = time.time()
    p = subprocess.run(["./check", "C20"], cwd=ws, env=env, capture_output=True, text=True)
    out = [l for l in (p.stdout + p.stderr).splitlines() if "conda" not in l]
    viol = [l for l in out if l.startswith("VIOLATION")]
    rep = None
    if viol:
        rp = viol[0].split("replay=")[1].split()[0]
        j = json.load(open(os.path.join(ws, rp)))
        rep = {"kind": j.get("kind"), "signature": j.get("signature"), "nops": len((j.get("witness") or {}).get("ops", [])),
               "broken": [b["what"] + ":" + json.dumps(b["detail"])[:160] for b in (j.get("broken") or j.get("no_longer_checks") or [])][:4]}
        # replay
        q = subprocess.run(["./check", "C20", "--replay", rp], cwd=ws, env=env, capture_output=True, text=True)
        rep["replay"] = [l for l in q.stdout.splitlines() if "REPRODUCED" in l or "not reproduced" in l][:1]
    res = {"mutant": name, "rc": p.returncode, "wall": round(time.time() - t0), "violation": viol[:1], "detail": out[-3:-1] if viol else out[-2:], "replay": rep}
    shutil.rmtree(repo, ignore_errors=True)
    return res

if __name__ == "__main__":
    ws = sys.argv[1]
    names = sys.argv[2:]
    for n in names:
        r = run(n, ws)
        print(json.dumps(r), flush=True)
