#!/venv/bin/python
"""Stand-alone runner for the two pieces added by the `txn` work package, with the verdict logic of ./check:

  tools/check_txn.py C05 [--tier quick|thorough]   translator T-session -> prove Props/C05Txn -> check_sessions -> verdict
  tools/check_txn.py C03 [--tier quick|thorough]   prove Props/C03Cache -> verdict

It exists so that the new pieces can be run (and mutants tried) without editing verif/props/c05.py / c03.py; after the
edits listed in REPORT.md are made, `./check C05` / `./check C03` do the same as part of the whole check.
Evidence goes to evidence/txn/ (not to evidence/C05.json).  Honours VERIF_SEED, VERIF_REPO.
"""
import argparse
import os
import sys

ROOT = os.path.dirname(os.path.dirname(os.path.abspath(__file__)))
sys.path.insert(0, ROOT)
os.chdir(ROOT)
os.environ.setdefault("VERIF_EVIDENCE_DIR", os.path.join(ROOT, "evidence", "txn"))


def main() -> int:
    ap = argparse.ArgumentParser()
    ap.add_argument("pid", choices=["C05", "C03"])
    ap.add_argument("--tier", default=os.environ.get("VERIF_TIER", "quick"), choices=["quick", "thorough"])
    a = ap.parse_args()
    from verif import core

    chk = core.Check(a.pid, a.tier, int(os.environ.get("VERIF_SEED", "0") or 0))
    if a.pid == "C05":
        from verif.props import c05_txn
        from verif.translators import tsession

        chk.rule = ("one real call per scripted scenario of every public RDBStorage writer (insert / update / error / guard paths), "
                    "and one run per crash point (kill before the k-th SQL event); non-trivial = a call that writes or rolls back, or any crash point")
        tsession.regenerate(chk)
        chk.prove(["OptunaVerif.Props.C05Txn"])
        c05_txn.check_sessions(chk)
        return chk.finish(search=c05_txn.search_sessions)
    chk.rule = "proof only (Props/C03Cache); the tie of the cache model is C08's"
    chk.prove(["OptunaVerif.Props.C03Cache"])
    return chk.finish()


if __name__ == "__main__":
    sys.exit(main())
