#!/bin/sh
# usage: tools/confirm_seeded.sh <out-dir> <n> [tests...]
# Confirms on a scratch copy of /repo: demo passes without the patch, fails with it, the given tests pass with it.
O="$1"; N="$2"; shift; shift
M=/root/scratch/confirm_$$
rsync -a --exclude .git /repo/ "$M"/ || exit 3
cd "$M"
PYTHONPATH="$M" timeout 600 /venv/bin/python "$O/demo$N.py" >/dev/null 2>&1; clean=$?
patch -p1 -s < "$O/patch$N.diff" || { echo "patch$N does not apply"; rm -rf "$M"; exit 3; }
PYTHONPATH="$M" timeout 600 /venv/bin/python "$O/demo$N.py" >/dev/null 2>&1; mut=$?
tests="not-run"
if [ $# -gt 0 ]; then
  PYTHONPATH="$M" timeout 1500 /venv/bin/python -m pytest -q -p no:cacheprovider -n 6 "$@" -k "not grpc" 2>&1 | tail -1 > "$M/.t"; tests=$(cat "$M/.t" | sed 's/\x1b\[[0-9;]*m//g')
fi
echo "demo$N: clean_exit=$clean patched_exit=$mut tests: $tests"
rm -rf "$M"
