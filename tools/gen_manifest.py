#!/usr/bin/env python3
"""Regenerate MANIFEST.json from tools/manifest_src.py (single source of truth for the check table)."""
import json, os, sys
ROOT = os.path.dirname(os.path.dirname(os.path.abspath(__file__)))
sys.path.insert(0, os.path.join(ROOT, "tools"))
import manifest_src as M
props = [json.loads(l)["id"] for l in open(os.path.join(ROOT, "properties.jsonl"))]
checks = []
for pid in props:
    c = M.CHECKS.get(pid)
    if not c:
        continue
    checks.append({
        "property_id": pid,
        "quick_cmd": "./check %s --tier quick" % pid,
        "thorough_cmd": "./check %s --tier thorough" % pid,
        "evidence_file": "evidence/%s.json" % pid,
        "replay_cmd_template": "./check %s --replay {path}" % pid,
        "engine": c.get("engine", "lean+driver"),
        "level_claimed": {"category": c.get("category", "proof"), "text": c["text"], "design_ref": "DESIGN.md section 3, %s" % pid},
        "level_note": c["note"],
        "technique": c["technique"],
    })
na = [{"property_id": pid, "reason": M.NOT_APPLICABLE.get(pid, "check not built yet in this round; see DESIGN.md section 3 for the plan")} for pid in props if pid not in M.CHECKS]
man = {
    "version": 1,
    "setup_cmd": "./setup.sh",
    "hooks": M.HOOKS,
    "engines": M.ENGINES,
    "checks": checks,
    "notes": M.NOTES,
    "not_applicable": na,
}
json.dump(man, open(os.path.join(ROOT, "MANIFEST.json"), "w"), indent=1)
print("MANIFEST.json: %d checks, %d not_applicable" % (len(checks), len(na)))
