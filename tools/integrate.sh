#!/bin/sh
# usage: tools/integrate.sh <agent-id>   — copy NEW files of /root/agents/<id>/verif into /verif, list changed shared files
A=/root/agents/$1/verif
cd "$A" || exit 1
find . -type f \( -path ./lean/.lake -prune -o -path './.git' -prune -o -name '*.pyc' -prune -o -path './replays/*' -prune -o -path './evidence/*' -prune -o -print \) | grep -v "/.lake/\|__pycache__\|^./replays/\|^./evidence/" | sort > /tmp/integrate_files.$$
while read f; do
  if [ ! -e "/verif/$f" ]; then
    mkdir -p "/verif/$(dirname "$f")"; cp "$f" "/verif/$f"; echo "NEW   $f"
  elif ! cmp -s "$f" "/verif/$f"; then
    echo "DIFF  $f"
  fi
done < /tmp/integrate_files.$$
rm -f /tmp/integrate_files.$$
