#!/usr/bin/env python3
"""usage: tools/junit_vs_baseline.py <junit.xml>: tests of BASELINE stable_pass that were run here and did not pass."""
import json, sys, xml.etree.ElementTree as ET
b = json.load(open('/root/.vp/BASELINE.json')); stable = set(b['stable_pass'])
root = ET.parse(sys.argv[1]).getroot()
seen, passed = set(), set()
for tc in root.iter('testcase'):
    tid = (tc.get('classname') or '') + '::' + (tc.get('name') or '')
    seen.add(tid)
    if tc.find('failure') is None and tc.find('error') is None and tc.find('skipped') is None:
        passed.add(tid)
bad = sorted((stable & seen) - passed)
print('seen', len(seen), 'passed', len(passed), 'stable-in-scope not passing:', len(bad))
for x in bad[:30]:
    print('  ', x)
sys.exit(1 if bad else 0)
