#!/usr/bin/env python3
"""usage: tools/keep_seeded.py <KEY e.g. C01-3> <outdir> <k> <confirm line from confirm_seeded.sh> <summary> <needs> <detection>
Copies patch<k>.diff / demo<k>.py of a seeding agent's delivery into /verif/seeded/<KEY>/ with a meta.json, and
records the detection text in seeded/detection.json."""
import json, os, re, shutil, sys
ROOT = os.path.dirname(os.path.dirname(os.path.abspath(__file__)))
key, out, k, conf, summary, needs, det = sys.argv[1:8]
m = re.search(r"clean_exit=(\d+) patched_exit=(\d+) tests: (.*)", conf)
assert m and m.group(1) == "0" and m.group(2) != "0", "demo not confirmed: " + conf
dst = os.path.join(ROOT, "seeded", key)
os.makedirs(dst, exist_ok=True)
shutil.copy("%s/patch%s.diff" % (out, k), dst + "/patch.diff")
shutil.copy("%s/demo%s.py" % (out, k), dst + "/demo.py")
notes = ""
try:
    notes = open(out + "/notes.md").read()
except OSError:
    pass
meta = {
    "breaks_property": key.split("-")[0],
    "summary": summary,
    "needs": needs,
    "agent_notes_excerpt": notes[:6000],
    "confirmed_here": {"demo_exit_without_change": int(m.group(1)), "demo_exit_with_change": int(m.group(2)),
                       "tests_with_change": m.group(3),
                       "how": "tools/confirm_seeded.sh on a scratch copy of /repo: demo without / with the patch, then the listed test directories with the patch (-k 'not grpc')"},
    "detection": det,
}
json.dump(meta, open(dst + "/meta.json", "w"), indent=1)
dj = os.path.join(ROOT, "seeded", "detection.json")
d = json.load(open(dj))
d[key] = det
json.dump(d, open(dj, "w"), indent=1)
print("kept", key)
