HOOKS = {
    "guard": "OPTUNA_VERIF",
    "enable": "no source hooks: all instrumentation (lock wrappers, os/open/time proxies, RNG stubs, trace-based scheduling) is applied by the harness to live objects at run time; the checks export OPTUNA_VERIF=1 only for uniformity",
    "baseline_off_cmd": "cd /repo && /venv/bin/python -m pytest -ra -q -p no:cacheprovider --timeout=900 --continue-on-collection-errors --junitxml=/tmp/optuna_baseline.junit.xml",
    "source_commits": [],
    "add_only": True,
}
ENGINES = [
    {"name": "lean", "path": "lean/", "serves_properties": [], "kind_free_text": "Lake package OptunaVerif: executable models (Model/), property theorems (Props/), compiled line-protocol driver (Driver/)"},
    {"name": "check", "path": "check", "serves_properties": [], "kind_free_text": "entry point: regenerate -> lake build + axiom audit -> correspondence vs /repo -> verdict/evidence"},
    {"name": "fleet", "path": "verif/fleet.py", "serves_properties": ["C01"], "kind_free_text": "factory for every storage configuration incl. gRPC proxy over each backend"},
]
NOTES = "Technique family: machine-checked proof in Lean 4 (theorems about executable models) + translators / correspondence checks that tie the models to /repo on every run. See DESIGN.md."
NOT_APPLICABLE = {}
CHECKS = {}
