HOOKS = {
    "guard": "OPTUNA_VERIF",
    "enable": "no source hooks: all instrumentation (lock wrappers, os/open/time proxies, RNG stubs, trace-based scheduling) is applied by the harness to live objects at run time; the checks export OPTUNA_VERIF=1 only for uniformity",
    "baseline_off_cmd": "cd /repo && /venv/bin/python -m pytest -ra -q -p no:cacheprovider --timeout=900 --continue-on-collection-errors --junitxml=/tmp/optuna_baseline.junit.xml",
    "source_commits": [],
    "add_only": True,
}
ENGINES = [
    {"name": "lean", "path": "lean/", "serves_properties": [], "kind_free_text": "Lake package OptunaVerif: executable models (Model/), property theorems (Props/), compiled line-protocol driver (Driver/)"},
    {"name": "check", "path": "check", "serves_properties": [], "kind_free_text": "entry point: regenerate -> lake build + axiom audit -> correspondence vs /repo -> verdict/evidence"},
    {"name": "fleet", "path": "verif/fleet.py", "serves_properties": ["C01"], "kind_free_text": "factory for every storage configuration incl. gRPC proxy over each backend"},
]
NOTES = "Technique family: machine-checked proof in Lean 4 (theorems about executable models) + translators / correspondence checks that tie the models to /repo on every run. See DESIGN.md."
NOT_APPLICABLE = {}
TB = "Lean kernel; axioms propext/Classical.choice/Quot.sound only; my harness + translators; modelled-not-verified: JSON/pickle, SQLite/SQLAlchemy, gRPC, OS file semantics, threading primitives, numpy RNG, IEEE rounding. "
CHECKS = {
 "C01": {
  "technique": "Lean 4 proof of the storage contract's invariants for all histories (induction over the op list) + correspondence check of every backend configuration against the executable Lean contract model",
  "text": "Proof: numbers_dense, finished_frozen, deleted_gone, claim_once, read-your-writes/frame, template_stored_fieldwise, id freshness, compat equivalence hold for every reachable state of the contract model (no bound on history length). Tie: each generated history is executed call by call on in-memory, SQLite RDB, cached RDB, journal (file with both locks, fakeredis) and the gRPC proxy over each, and outputs / error classes / the whole readable state are compared with the Lean model run by the compiled driver; a disagreement is a violation of that backend with the minimised history as replay.",
  "note": TB + "The tie samples histories (it does not prove that the Python backends refine the contract); SQLite stands for every RDB, fakeredis for Redis; contract loosenesses U1-U5 (DESIGN.md section 2) are accepted either way; known finding F12 (SQLite id reuse).",
 },
 "C06": {
  "technique": "Lean 4 proof on an implementation-shaped model of JournalStorageReplayResult (replay = fold of a worker-independent transformer; sync invariant by induction) + correspondence check in which the model replays the records actually read from the real log",
  "text": "Proof (all logs, workers, batch splits, sync points, snapshot positions): applyAll_pub / issuer_independent (public state is a fold of a transformer that does not depend on the replaying worker), replay_is_fold (batch splits), applyLogs_prefix + sync_keeps_synced (a sync aborted by the issuer's own error leaves the cursor just past the record and the invariant 'state = replay of the prefix read'), workers_converge, rejected_changes_nothing (raised only at the issuer, no worker's state changes), snapshot_plus_tail. Tie: 2-4 real JournalStorage workers on one file/fakeredis log; after every call the Lean replicas are fed the records read back from the log and must agree on error class at the issuer, returned ids, claim answers and the whole readable state; plus fresh replay, batch replay under an existing worker identity, snapshot restore. The property itself is also checked directly on the implementation (all views equal; a rejected call changes no worker's view).",
  "note": TB + "pickle fidelity of snapshots is trusted (exercised); records are re-encoded (floats -> exact rationals) by the harness before the model reads them; JournalOperation codes are compared with the table the model assumes on every run.",
 },
 "C03": {
  "technique": "Lean 4 proof of lock atomicity for every schedule (invariant by induction over the schedule) with the code-shape hypothesis regenerated from source by a translator and discharged by decide; deterministic line-level thread scheduler + Wing-Gong linearizability search against the Lean contract model as the tie",
  "text": "Proof (partial by nature): lock_atomicity - for any number of threads, calls, micro-step decompositions and any schedule, code that touches shared state only inside one critical section of one lock behaves as the sequential execution in completion order (mutual_exclusion, completed_run_is_sequential, concurrent_numbers_dense via C01). The hypothesis is the table Generated/LockTable.lean regenerated from /repo by T-lock on every run (InMemoryStorage, JournalStorage, GrpcClientCache: every public method wholly under its lock; _CachedStorage: writes pass through) and decided in Lean; a narrowed or removed `with self._lock` breaks that obligation. Tie: real threads on InMemoryStorage / JournalStorage (two objects on one file) preempted at every source line of optuna/storages by a seeded scheduler (uniform + PCT), every history checked for linearizability against the contract model by the Lean `lin` driver; free-running threads on SQLite, cached SQLite and gRPC proxies are checked the same way (sampled).",
  "note": TB + "Cannot exhibit: switch points inside C extensions, SQLite's own locking, gRPC server threads (sampled only). Known finding F16 (torn reads of RDBStorage getters). U7: a finisher losing a race may answer False instead of UpdateFinishedTrialError.",
 },
}
