#!/bin/sh
# Run every claimed check once (tier $1, default quick) on the current tree; one line per check: id, exit code, seconds, verdict lines.
cd "$(dirname "$0")/.."
for id in $(python3 -c "import json; print(' '.join(c['property_id'] for c in json.load(open('MANIFEST.json'))['checks']))"); do
  start=$(date +%s)
  ./check $id --tier ${1:-quick} > /tmp/run_all_$id.log 2>&1; rc=$?
  out=$(grep -E "^VIOLATION|^$id |^INFRA" /tmp/run_all_$id.log | tr '\n' '|' | cut -c1-300)
  echo "$id rc=$rc $(( $(date +%s) - start ))s :: $out"
done
