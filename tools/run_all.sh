#!/bin/sh
# Run every claimed check once (quick tier) on the current tree; prints one line per check.
cd "$(dirname "$0")/.."
for id in $(python3 -c "import json; print(' '.join(c['property_id'] for c in json.load(open('MANIFEST.json'))['checks']))"); do
  start=$(date +%s)
  out=$(./check $id --tier ${1:-quick} 2>&1 | grep -E "^VIOLATION|^$id |^INFRA" | tr '\n' '|' | cut -c1-200)
  echo "$id rc? $(( $(date +%s) - start ))s :: $out"
done
