#!/bin/sh
# usage: tools/try_mutant.sh <patch.diff> <ID> [tier]   — apply a patch to /repo, run the check, undo.
set -u
P="$1"; ID="$2"; TIER="${3:-quick}"
git -C /repo apply "$P" || { echo "patch does not apply"; exit 3; }
cd /verif && ./check "$ID" --tier "$TIER" 2>&1 | grep -v "^WARN\|chttp2" | tail -6
rc=$?
git -C /repo checkout -- .
git -C /repo status --short | head -3
