#!/bin/sh
# usage: tools/try_mutant.sh <patch.diff> <ID> [tier] [extra check args]
# Applies the patch to a scratch COPY of /repo (never to /repo itself), runs the check against the copy, removes the copy.
set -u
P="$1"; ID="$2"; TIER="${3:-quick}"; shift; shift; [ $# -gt 0 ] && shift
M=/root/scratch/repo_mut_$$
mkdir -p /root/scratch && rsync -a --exclude .git /repo/ "$M"/ || exit 3
( cd "$M" && patch -p1 -s < "$P" ) || { echo "patch does not apply"; rm -rf "$M"; exit 3; }
cd /verif && VERIF_EVIDENCE_DIR=/root/scratch/mutant_evidence VERIF_REPO="$M" PYTHONPATH="$M" timeout 3000 ./check "$ID" --tier "$TIER" "$@" 2>&1 | grep -v "^WARN\|chttp2" | tail -6
rm -rf "$M"
# translators regenerated lean/OptunaVerif/Generated from the mutated copy: put the pristine files back
git -C /verif checkout -- lean/OptunaVerif/Generated 2>/dev/null
