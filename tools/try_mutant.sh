#!/bin/sh
# usage: tools/try_mutant.sh <patch.diff> <ID> [tier] [extra check args]
# Applies the patch to a scratch COPY of /repo (never to /repo itself) and runs the check from a scratch COPY of
# /verif (so that regenerated Lean files, the driver and evidence of the mutant run never touch /verif).
set -u
P="$1"; ID="$2"; TIER="${3:-quick}"; shift; shift; [ $# -gt 0 ] && shift
M=/root/scratch/repo_mut_$$
V=/root/scratch/verif_mut_$$
mkdir -p /root/scratch && rsync -a --exclude .git /repo/ "$M"/ || exit 3
( cd "$M" && patch -p1 -s < "$P" ) || { echo "patch does not apply"; rm -rf "$M"; exit 3; }
rsync -a --exclude .git --exclude replays /verif/ "$V"/ || exit 3
cd "$V" && VERIF_REPO="$M" PYTHONPATH="$M" timeout 3000 ./check "$ID" --tier "$TIER" "$@" 2>&1 | grep -v "^WARN\|chttp2" > "$V/.out"; grep -A1 "^VIOLATION" "$V/.out" | cut -c1-700 | head -12; grep "^C[0-9][0-9] \|^INFRA\|^KNOWN" "$V/.out" | cut -c1-300
mkdir -p /verif/replays && cp -n "$V"/replays/* /verif/replays/ 2>/dev/null
rm -rf "$M" "$V"
