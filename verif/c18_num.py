"""C18 numeric tie: generators, SciPy / mpmath references and the *stated tolerances*.

Every tolerance is `K * unit`, where `unit` is a first-order rounding-error model of the formula the code
uses (so that ill-conditioned arguments — a 1e-8 wide interval at 99 sigma — get a proportionally larger
allowance instead of one loose global constant) and `K` is a frozen safety factor, calibrated on the clean
tree (largest ratio seen over ~1e7 arguments, times >= 4; see `CALIBRATION` below).

    erf           |d| <= K_ERF   * ulp(ref)
    _ndtr         |d| <= K_NDTR  * eps
    _log_ndtr     |d| <= K_LNDTR * eps * (1 + |ref|)
    log mass      |d| <= K_MASS  * eps * (1 + |ref| + kappa(a, b))
    logpdf        |d| <= K_PDF   * eps * (1 + |ref| + kappa(a, b) + z^2 + |log scale|)
    ppf           |dx| <= K_PPF * dT * R(x) + 4 ulp(x) + 1e-26   or   |d log-cdf| <= K_PPF * dT   (backward form), where
                  dT = eps * (2 + 2|T| + |log Phi(a')| + |log q'|) + eps * (1 + |lgm| + kappa),
                  T = the log-cdf target of the branch (log Phi(x) for a < 0, log Phi(-x) otherwise), R = Phi/phi at
                  the branch's argument (condition number of inverting log Phi); and the result must lie in
                  [a - s_a, b + s_b] with s = K_IN * eps * max(1, |end|) (a few ulp of the end point)
    quadrature    |I - 1| <= 4 * K_MASS * eps * (1 + |lgm| + kappa) + 1e-12   (composite Gauss-Legendre, 48 x 32 nodes)
kappa(a, b) is the condition number of log(Phi b - Phi a) as the code computes it: after mirroring a right
interval to the left, (|log Phi b| + |log Phi a|) / (1 - Phi a / Phi b) for the log-diff form, 1 / mass for
the central log1p form.
A comparison that fails against SciPy is re-judged against 60-digit mpmath with the same tolerance; if the
code agrees with mpmath the case is counted as `scipy_inaccurate`, not as a violation.
"""
from __future__ import annotations

import math
import random
import warnings
from fractions import Fraction
from typing import Any

import numpy as np
from scipy import special, stats

EPS = 2.0 ** -52
K_ERF = 8.0
K_NDTR = 4.0
K_LNDTR = 12.0
K_MASS = 8.0
K_PDF = 8.0
K_PPF = 8.0
K_IN = 8.0
CALIBRATION = (
    "largest |difference| / unit seen on the clean tree over ~2.5e7 arguments (thorough tier, several seeds): erf 3 ulp (K 8), "
    "_ndtr 1 eps (K 4), _log_ndtr 3.2 (K 12), log mass 2.5 (K 8), logpdf 2.5 (K 8), ppf/rvs/sample 3.1 (K 8), "
    "ppf beyond an end point 2 eps*max(1,|end|) (K 8); every run re-measures them into evidence coverage.max_ratio (= observed / allowed)"
)

try:  # SciPy's own log-mass (private, but it is the reference the repo's tests use)
    from scipy.stats._continuous_distns import _log_gauss_mass as _sp_lgm  # type: ignore
except Exception:  # pragma: no cover
    _sp_lgm = None


def sp_log_gauss_mass(a: np.ndarray, b: np.ndarray) -> np.ndarray:
    a = np.asarray(a, dtype=float)
    b = np.asarray(b, dtype=float)
    if _sp_lgm is not None:
        with warnings.catch_warnings():
            warnings.simplefilter("ignore")
            return np.asarray(_sp_lgm(a, b), dtype=float)
    # public-API fallback: norm.logpdf(x) - truncnorm.logpdf(x) at an interior point
    x = np.where(np.isfinite(a) & np.isfinite(b), (a + b) / 2, np.where(np.isfinite(a), a + 1, np.where(np.isfinite(b), b - 1, 0.0)))
    return stats.norm.logpdf(x) - stats.truncnorm.logpdf(x, a, b)


def norm_logpdf(x: np.ndarray) -> np.ndarray:
    return -0.5 * np.asarray(x, dtype=float) ** 2 - 0.5 * math.log(2 * math.pi)


def kappa(a: np.ndarray, b: np.ndarray, lgm: np.ndarray) -> np.ndarray:
    """Condition number of the code's formula for log(Phi b - Phi a)."""
    a = np.asarray(a, dtype=float)
    b = np.asarray(b, dtype=float)
    with np.errstate(all="ignore"):
        right = a > 0
        a2 = np.where(right, -b, a)
        b2 = np.where(right, -a, b)
        central = (~right) & (b > 0)
        lb = special.log_ndtr(np.where(central, 0.0, b2))
        la = special.log_ndtr(a2)
        d = -np.expm1(np.minimum(la - lb, 0.0))
        d = np.where(d <= 0, 1e-300, d)
        k_left = (np.abs(lb) + np.where(np.isfinite(la), np.abs(la), 0.0) * np.exp(np.minimum(la - lb, 0.0))) / d
        k_central = 2.0 * np.exp(-np.asarray(lgm, dtype=float))
    return np.where(central, k_central, k_left)


def unit_mass(a: np.ndarray, b: np.ndarray, ref: np.ndarray) -> np.ndarray:
    return EPS * (1.0 + np.abs(ref) + kappa(a, b, ref))


# ---------------------------------------------------------------------------------------------------------
# generators (all randomness from one random.Random)
# ---------------------------------------------------------------------------------------------------------

BANDS = [0.0, 6.0, -20.0, 1.0, -1.0, 8.3, -8.3, 37.5, -37.5, 2 ** -28 * math.sqrt(2), 0.84375 * math.sqrt(2),
         1.25 * math.sqrt(2), math.sqrt(2) / 0.35, 6 * math.sqrt(2)]


def near(r: random.Random, c: float) -> float:
    """A point in a narrow band around the switch point c (sometimes exactly c or its float neighbours)."""
    u = r.random()
    if u < 0.15:
        return c
    if u < 0.3:
        return float(np.nextafter(c, r.choice([-np.inf, np.inf])))
    return c + r.choice([-1, 1]) * 10 ** r.uniform(-16, -1) * max(1.0, abs(c))


def gen_point(r: random.Random) -> float:
    u = r.random()
    if u < 0.35:
        return r.uniform(-100, 100)
    if u < 0.6:
        return r.gauss(0, 3)
    if u < 0.85:
        return near(r, r.choice(BANDS))
    return r.choice([-1, 1]) * 10 ** r.uniform(-12, 2)


def gen_interval(r: random.Random, allow_inf: bool = True) -> tuple[float, float, str]:
    """(a, b, kind) with a < b, |finite ends| <= 100, width 1e-8 .. 1e8 (clipped to the 100-sigma box)."""
    for _ in range(1000):
        k = r.random()
        c = gen_point(r)
        w = 10 ** r.uniform(-8, 8)
        if k < 0.30:
            a, b, kind = c, c + w, "two-sided"
        elif k < 0.40:
            a, b, kind = c - w, c, "two-sided"
        elif k < 0.50 and allow_inf:
            a, b, kind = -math.inf, c, "left-open"
        elif k < 0.60 and allow_inf:
            a, b, kind = c, math.inf, "right-open"
        elif k < 0.63 and allow_inf:
            a, b, kind = -math.inf, math.inf, "whole-line"
        elif k < 0.78:
            a = near(r, 0.0) if r.random() < 0.5 else near(r, r.choice(BANDS))
            a, b, kind = a, a + w, "band-a"
        elif k < 0.93:
            b = near(r, 0.0) if r.random() < 0.5 else near(r, r.choice(BANDS))
            a, b, kind = b - w, b, "band-b"
        else:
            a, b, kind = c - w / 2, c + w / 2, "centred"
        if math.isfinite(a):
            a = max(a, -100.0)
        if math.isfinite(b):
            b = min(b, 100.0)
        if not (a < b):
            continue
        if math.isfinite(a) and math.isfinite(b) and (b - a) < 1e-8 * 0.999:
            continue
        return float(a), float(b), kind
    raise RuntimeError("generator failed")


def gen_q(r: random.Random) -> float:
    u = r.random()
    if u < 0.45:
        return r.random()
    if u < 0.6:
        return 10 ** r.uniform(-300, 0)
    if u < 0.75:
        return 1.0 - 10 ** r.uniform(-16, 0)
    if u < 0.85:
        return r.choice([0.0, 1.0])
    if u < 0.95:
        return r.choice([2.0 ** -53, 1 - 2.0 ** -53, 0.5, 2.0 ** -1074, 2.0 ** -1022])
    return float(r.getrandbits(53)) / 2.0 ** 53


def frac(x: float) -> str:
    """Exact protocol encoding of a float (or ±inf / nan)."""
    if x != x:
        return "nan"
    if x == math.inf:
        return "inf"
    if x == -math.inf:
        return "-inf"
    f = Fraction(x)
    return "%d/%d" % (f.numerator, f.denominator)


# ---------------------------------------------------------------------------------------------------------
# mpmath ground truth (arbitration only)
# ---------------------------------------------------------------------------------------------------------

def _mp() -> Any:
    import mpmath

    mpmath.mp.dps = 60
    return mpmath


def mp_Phi(x: float) -> Any:
    mp = _mp()
    if x == math.inf:
        return mp.mpf(1)
    if x == -math.inf:
        return mp.mpf(0)
    return mp.erfc(-mp.mpf(x) / mp.sqrt(2)) / 2


def mp_log_mass(a: float, b: float) -> float:
    mp = _mp()
    if a > 0:
        a, b = -b, -a
    if b <= 0:
        return float(mp.log(mp_Phi(b) - mp_Phi(a)))
    return float(mp.log1p(-mp_Phi(a) - mp_Phi(-b)))


def mp_log_ndtr(a: float) -> float:
    mp = _mp()
    if a > 0:
        return float(mp.log1p(-mp_Phi(-a)))
    return float(mp.log(mp_Phi(a)))


def mp_ppf(q: float, a: float, b: float) -> float:
    """Quantile of the truncated normal, 60 digits, by bisection in the accurate tail."""
    mp = _mp()
    if q == 0:
        return a
    if q == 1:
        return b
    qq = mp.mpf(q)
    if a < 0:  # solve Phi(x) = Phi(a) + q M   (left tail form)
        Pa, Pb = mp_Phi(a), mp_Phi(b)
        if b <= 0:
            M = Pb - Pa
        else:
            M = 1 - Pa - mp_Phi(-b)
        target = Pa + qq * M
        f = lambda x: mp_Phi(x) - target  # noqa: E731
        sign = 1.0
    else:  # solve Phi(-x) = Phi(-b) + (1-q) M
        Pa, Pb = mp_Phi(-b), mp_Phi(-a)
        M = Pb - Pa
        target = Pa + (1 - qq) * M
        f = lambda y: mp_Phi(y) - target  # noqa: E731
        sign = -1.0
    lo, hi = mp.mpf(-200), mp.mpf(200)
    if target <= 0:
        return sign * -math.inf
    # bisection on the monotone f in 60-digit arithmetic
    for _ in range(260):
        mid = (lo + hi) / 2
        if f(mid) < 0:
            lo = mid
        else:
            hi = mid
    return sign * float((lo + hi) / 2)


# ---------------------------------------------------------------------------------------------------------
# tolerance of ppf
# ---------------------------------------------------------------------------------------------------------

def ppf_terms(q: np.ndarray, a: np.ndarray, b: np.ndarray, x: np.ndarray) -> tuple[np.ndarray, np.ndarray]:
    """(allowed |x_ours - x_ref|, allowed |T_ours - T_ref|) at the reference quantile x (vectorised), where T is the
    branch's log-cdf: log Phi(x) for a < 0, log Phi(-x) otherwise.  The second is the backward-error form and is
    the one that stays meaningful when the inversion is so ill-conditioned that the first-order x bound is not."""
    q = np.asarray(q, dtype=float)
    a = np.asarray(a, dtype=float)
    b = np.asarray(b, dtype=float)
    x = np.asarray(x, dtype=float)
    with np.errstate(all="ignore"):
        lgm = sp_log_gauss_mass(a, b)
        um = unit_mass(a, b, lgm)
        left = a < 0
        arg = np.where(left, x, -x)
        T = special.log_ndtr(arg)
        edge = special.log_ndtr(np.where(left, a, -b))
        edge = np.where(np.isfinite(edge), np.abs(edge), 0.0)
        lq = np.where(left, np.log(q), np.log1p(-q))
        lq = np.where(np.isfinite(lq), np.abs(lq), 0.0)
        dT = EPS * (2.0 + 2.0 * np.abs(T) + edge + lq) + um
        R = np.exp(T - norm_logpdf(arg))
        tol = K_PPF * dT * R + 4 * np.spacing(np.abs(x)) + 1e-26
    return np.where(np.isfinite(tol), tol, np.inf), K_PPF * np.where(np.isfinite(dT), dT, np.inf)


def ppf_tolerance(q: np.ndarray, a: np.ndarray, b: np.ndarray, x: np.ndarray) -> np.ndarray:
    return ppf_terms(q, a, b, x)[0]


def branch_logcdf(a: np.ndarray, x: np.ndarray) -> np.ndarray:
    with np.errstate(all="ignore"):
        return special.log_ndtr(np.where(np.asarray(a) < 0, x, -np.asarray(x, dtype=float)))
