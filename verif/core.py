"""Shared plumbing of the OptunaVerif checks.

One check run = regenerate (translators) -> prove (lake build + audit) -> correspond (model vs
implementation) -> observe (property oracle on the implementation) -> verdict -> evidence.
See DESIGN.md 1.5.  Nothing here decides a property; it only keeps the books.
"""
from __future__ import annotations

import contextlib
import fcntl
import hashlib
import json
import os
import random
import re
import shutil
import subprocess
import sys
import tempfile
import time
from typing import Any, Callable, Iterable

ROOT = os.path.dirname(os.path.dirname(os.path.abspath(__file__)))
LEAN_DIR = os.path.join(ROOT, "lean")
REPO = os.environ.get("VERIF_REPO", "/repo")
EVIDENCE_DIR = os.environ.get("VERIF_EVIDENCE_DIR") or os.path.join(ROOT, "evidence")  # (mutant runs write elsewhere)
REPLAY_DIR = os.path.join(ROOT, "replays")
CORPUS_DIR = os.path.join(ROOT, "corpus")
KNOWN_FINDINGS = os.path.join(ROOT, "known_findings.json")
DRIVER_BIN = os.path.join(LEAN_DIR, ".lake", "build", "bin", "driver")
ALLOWED_AXIOMS = {"propext", "Classical.choice", "Quot.sound"}
FORBIDDEN_TOKENS = re.compile(
    r"\b(sorry|admit|native_decide|bv_decide|implemented_by|unsafe)\b|^\s*axiom\s|maxHeartbeats\s+0\b",
    re.M,
)

GLOBAL_TRUSTED_BASE = [
    "Lean 4.33 kernel + elaborator; axioms limited to propext, Classical.choice, Quot.sound (audited by #print axioms on every property theorem each run)",
    "Mathlib v4.33 lemmas where a Lemmas/Props file imports a single Mathlib module",
    "my translators (verif/translators) and correspondence harnesses (verif/props), CPython 3.12, numpy/scipy as shipped",
    "modelled-not-verified: JSON/pickle codecs, SQLite/SQLAlchemy statement + transaction semantics, gRPC transport, OS file semantics (O_APPEND, atomic rename/exclusive create, fsync), threading primitives, numpy RNG streams, IEEE-754 rounding",
]


class InfraError(Exception):
    """Something outside the verdict (toolchain missing, time-out): exit code 2."""


def strip_lean_comments(src: str) -> str:
    # block comments (nested) and line comments
    out = []
    i, depth, n = 0, 0, len(src)
    while i < n:
        if src.startswith("/-", i):
            depth += 1
            i += 2
        elif depth and src.startswith("-/", i):
            depth -= 1
            i += 2
        elif depth:
            i += 1
        elif src.startswith("--", i):
            j = src.find("\n", i)
            i = n if j < 0 else j
        else:
            out.append(src[i])
            i += 1
    return "".join(out)


@contextlib.contextmanager
def lake_lock():
    os.makedirs(os.path.join(LEAN_DIR, ".lake"), exist_ok=True)
    with open(os.path.join(LEAN_DIR, ".lake", "verif.lock"), "w") as f:
        fcntl.flock(f, fcntl.LOCK_EX)
        try:
            yield
        finally:
            fcntl.flock(f, fcntl.LOCK_UN)


def run(cmd: list[str], cwd: str | None = None, timeout: float | None = None, input: str | None = None):
    env = dict(os.environ)
    p = subprocess.run(cmd, cwd=cwd, capture_output=True, text=True, timeout=timeout, input=input, env=env)
    return p.returncode, p.stdout, p.stderr


def write_if_changed(path: str, content: str) -> bool:
    try:
        with open(path) as f:
            if f.read() == content:
                return False
    except FileNotFoundError:
        pass
    os.makedirs(os.path.dirname(path), exist_ok=True)
    tmp = path + ".tmp%d" % os.getpid()
    with open(tmp, "w") as f:
        f.write(content)
    os.replace(tmp, path)
    return True


class ProofResult:
    def __init__(self) -> None:
        self.obligations: list[str] = []
        self.discharged: list[str] = []
        self.failed: list[dict[str, Any]] = []  # {"theorem"/"module":…, "reason":…}
        self.axioms: dict[str, list[str]] = {}
        self.build_log = ""
        self.checker_cmd = ""

    @property
    def ok(self) -> bool:
        return not self.failed and len(self.obligations) > 0 and len(self.discharged) == len(self.obligations)


def _theorems_of(path: str) -> list[str]:
    """Full names of the theorems declared in a Props file (namespace aware, one level stack)."""
    src = strip_lean_comments(open(path).read())
    names: list[str] = []
    ns: list[str] = []
    for line in src.splitlines():
        m = re.match(r"\s*namespace\s+(\S+)", line)
        if m:
            ns.append(m.group(1))
            continue
        m = re.match(r"\s*end\s+(\S+)\s*$", line)
        if m and ns and ns[-1].split(".")[-1] == m.group(1).split(".")[-1]:
            ns.pop()
            continue
        m = re.match(r"\s*(?:@\[[^\]]*\]\s*)?(?:private\s+|protected\s+)?theorem\s+([^\s:({\[]+)", line)
        if m:
            names.append(".".join(ns + [m.group(1)]))
    return names


def lean_prove(prop_modules: list[str], extra_scan: Iterable[str] = ()) -> ProofResult:
    """Build the given Props modules, audit tokens and axioms.  `prop_modules` like
    ["OptunaVerif.Props.C01"].  Every theorem declared in those files is an obligation."""
    res = ProofResult()
    res.checker_cmd = "cd lean && lake build %s && lake env lean <generated #print axioms file>" % " ".join(prop_modules)
    with lake_lock():
        rc, out, err = run(["lake", "build"] + prop_modules, cwd=LEAN_DIR, timeout=3000)
        res.build_log = out + err
        thms: list[str] = []
        files = []
        for m in prop_modules:
            path = os.path.join(LEAN_DIR, m.replace(".", "/") + ".lean")
            files.append(path)
            if os.path.exists(path):
                thms += _theorems_of(path)
            else:
                res.failed.append({"module": m, "reason": "missing file"})
        res.obligations = thms
        if rc != 0:
            # which errors?
            errs = [l for l in res.build_log.splitlines() if "error" in l.lower()][:12]
            res.failed.append({"module": " ".join(prop_modules), "reason": "lake build failed", "errors": errs})
            return res
        # token scan over every project file the modules depend on (cheap: scan all lean files)
        scan = []
        for dp, _, fs in os.walk(os.path.join(LEAN_DIR, "OptunaVerif")):
            scan += [os.path.join(dp, f) for f in fs if f.endswith(".lean")]
        for path in scan + list(extra_scan):
            m = FORBIDDEN_TOKENS.search(strip_lean_comments(open(path).read()))
            if m:
                res.failed.append({"module": path, "reason": "forbidden token %r" % m.group(0).strip()})
        # axiom audit
        audit_dir = os.path.join(LEAN_DIR, ".lake", "audit")
        os.makedirs(audit_dir, exist_ok=True)
        tag = hashlib.sha1(" ".join(prop_modules).encode()).hexdigest()[:10]
        apath = os.path.join(audit_dir, "Audit_%s.lean" % tag)
        with open(apath, "w") as f:
            for m in prop_modules:
                f.write("import %s\n" % m)
            for t in thms:
                f.write("#print axioms %s\n" % t)
        rc, out, err = run(["lake", "env", "lean", apath], cwd=LEAN_DIR, timeout=1200)
    text = out + err
    # parse:  'X' depends on axioms: [a, b]   |   'X' does not depend on any axioms
    for m in re.finditer(r"'(\S+?)' depends on axioms: \[([^\]]*)\]", text, re.S):
        res.axioms[m.group(1)] = [a.strip() for a in m.group(2).replace("\n", " ").split(",") if a.strip()]
    for m in re.finditer(r"'(\S+?)' does not depend on any axioms", text):
        res.axioms[m.group(1)] = []
    for t in thms:
        if t not in res.axioms:
            res.failed.append({"theorem": t, "reason": "no axiom report (audit failed): " + text[-300:]})
        elif set(res.axioms[t]) - ALLOWED_AXIOMS:
            res.failed.append({"theorem": t, "reason": "axioms %s" % sorted(set(res.axioms[t]) - ALLOWED_AXIOMS)})
        else:
            res.discharged.append(t)
    return res


def ensure_driver() -> None:
    run([sys.executable, os.path.join(ROOT, "tools", "gen_driver_main.py")])
    with lake_lock():
        rc, out, err = run(["lake", "build", "driver"], cwd=LEAN_DIR, timeout=3000)
    if rc != 0 or not os.path.exists(DRIVER_BIN):
        raise DriverBroken((out + err)[-3000:])


class DriverBroken(Exception):
    pass


class Driver:
    """Line protocol to the compiled Lean model driver: one JSON value per line each way."""

    def __init__(self, sub: str) -> None:
        self.sub = sub
        self.p = subprocess.Popen([DRIVER_BIN, sub], stdin=subprocess.PIPE, stdout=subprocess.PIPE, text=True, bufsize=1)
        self.n = 0
        # watchdog: a driver that does not answer one request within the limit is killed (the models are total, so this only
        # happens with a damaged build or a machine that is stuck); `ask` then reports it like a driver that died
        self._busy_since: float | None = None
        self._timed_out = False
        import threading
        threading.Thread(target=self._watch, daemon=True).start()

    def _watch(self) -> None:
        import time as _t
        limit = float(os.environ.get("VERIF_DRIVER_TIMEOUT", "900"))
        while self.p.poll() is None:
            _t.sleep(5)
            b = self._busy_since
            if b is not None and _t.time() - b > limit:
                self._timed_out = True
                self.p.kill()
                return

    def ask(self, obj: Any) -> Any:
        line = json.dumps(obj, separators=(",", ":"))
        assert "\n" not in line
        import time as _t
        self._busy_since = _t.time()
        try:
            self.p.stdin.write(line + "\n")
            self.p.stdin.flush()
            out = self.p.stdout.readline()
        except BrokenPipeError:
            out = ""
        finally:
            self._busy_since = None
        self.n += 1
        if not out:
            raise DriverBroken("driver %s %s on line %r" % (self.sub, "did not answer in time and was killed" if self._timed_out else "died", line[:300]))
        return json.loads(out)

    def close(self) -> None:
        try:
            self.p.stdin.close()
            self.p.wait(timeout=10)
        except Exception:
            self.p.kill()


def driver_batch(sub: str, objs: list[Any], timeout: float = 600) -> list[Any]:
    data = "".join(json.dumps(o, separators=(",", ":")) + "\n" for o in objs)
    p = subprocess.run([DRIVER_BIN, sub], input=data, capture_output=True, text=True, timeout=timeout)
    lines = p.stdout.splitlines()
    if p.returncode != 0 or len(lines) != len(objs):
        raise DriverBroken("driver %s: rc=%s, %d outputs for %d inputs; stderr=%s" % (sub, p.returncode, len(lines), len(objs), p.stderr[-500:]))
    return [json.loads(l) for l in lines]


def load_known_findings() -> list[dict[str, Any]]:
    try:
        return json.load(open(KNOWN_FINDINGS))["findings"]
    except FileNotFoundError:
        return []


def canon(obj: Any) -> str:
    return json.dumps(obj, sort_keys=True, default=str, separators=(",", ":"))


class Check:
    """Book-keeping for one run of one property's check."""

    def __init__(self, pid: str, tier: str, seed: int) -> None:
        self.pid = pid
        self.tier = tier
        self.seed = seed
        self.t0 = time.time()
        self.rng = random.Random((hash(pid) & 0xFFFF) * 0 + seed * 1000003 + int(pid[1:]))
        self.proof: ProofResult | None = None
        self.broken: list[dict[str, Any]] = []  # proof/translation/correspondence breakages
        self.violations: list[dict[str, Any]] = []  # concrete property failures on the implementation
        self.known_hits: dict[str, dict[str, Any]] = {}
        self.evaluations = 0
        self.distinct: set[str] = set()
        self.rule = ""
        self.samples: list[Any] = []
        self.hist: dict[str, int] = {}
        self.extra: dict[str, Any] = {}
        self.assumptions: list[str] = []
        self.trusted: list[str] = list(GLOBAL_TRUSTED_BASE)
        self.traces_validated = 0
        self.programs = 0
        self.translated: list[str] = []
        self.search_log: list[str] = []
        self.tmp = tempfile.mkdtemp(prefix="verif_%s_" % pid, dir=os.environ.get("VERIF_TMP") or None)
        self.level = "proof"

    # ---- accounting -------------------------------------------------------------------------
    def count(self, key: str, n: int = 1) -> None:
        self.hist[key] = self.hist.get(key, 0) + n

    def case(self, case: Any, nontrivial: bool = True, sample: bool = False) -> None:
        self.evaluations += 1
        if nontrivial:
            self.distinct.add(hashlib.sha1(canon(case).encode()).hexdigest())
        if sample or len(self.samples) < 3:
            if len(self.samples) < 6:
                self.samples.append(case)

    # ---- outcomes ---------------------------------------------------------------------------
    def broke(self, what: str, detail: Any) -> None:
        """A proof obligation / translation / correspondence no longer checks (not yet a violation)."""
        self.broken.append({"what": what, "detail": detail})

    def violation(self, signature: dict[str, Any], witness: Any, message: str) -> bool:
        """A concrete failure of the property on the implementation.  Returns True if it is a
        listed known finding (then it is reported as such and does not fail the run)."""
        for kf in load_known_findings():
            if kf.get("property") != self.pid or kf.get("status") != "open":
                continue
            if all(signature.get(k) == v for k, v in kf.get("match", {}).items()):
                if kf["id"] not in self.known_hits:
                    self.known_hits[kf["id"]] = {"finding": kf, "witness": witness, "message": message, "count": 0}
                self.known_hits[kf["id"]]["count"] += 1
                return True
        self.violations.append({"signature": signature, "witness": witness, "message": message})
        return False

    # ---- proof ------------------------------------------------------------------------------
    def prove(self, modules: list[str] | None = None) -> ProofResult:
        modules = modules or ["OptunaVerif.Props.%s" % self.pid]
        self.proof = lean_prove(modules)
        for f in self.proof.failed:
            self.broke("proof", f)
        if self.tier == "thorough" and self.proof.ok:
            # independent re-check of the compiled .olean files by the toolchain's `leanchecker`
            try:
                rc, out, err = run(["lake", "env", "leanchecker"] + modules, cwd=LEAN_DIR, timeout=3000)
                self.extra["leanchecker"] = {"modules": modules, "exit": rc, "tail": (out + err)[-300:]}
                if rc != 0:
                    self.broke("proof", {"leanchecker": (out + err)[-600:]})
            except Exception as e:  # noqa: BLE001 - infrastructure (time-out): recorded, no verdict from it
                self.extra["leanchecker"] = {"modules": modules, "error": str(e)[:200]}
        return self.proof

    # ---- finish -----------------------------------------------------------------------------
    def _write_replay(self, payload: dict[str, Any]) -> str:
        os.makedirs(REPLAY_DIR, exist_ok=True)
        digest = hashlib.sha1(canon(payload).encode()).hexdigest()[:12]
        path = os.path.join(REPLAY_DIR, "%s-%s.json" % (self.pid, digest))
        with open(path, "w") as f:
            json.dump(payload, f, indent=1, sort_keys=True, default=str)
        return os.path.relpath(path, ROOT)

    def finish(self, search: Callable[["Check"], None] | None = None) -> int:
        lines: list[str] = []
        if self.broken and not self.violations and search is not None:
            # failing-input search on the real code (DESIGN 1.5 step 5)
            try:
                search(self)
            except Exception as e:  # the search itself must not hide the breakage
                self.search_log.append("search raised %r" % (e,))
        rc = 0
        for kid, hit in sorted(self.known_hits.items()):
            lines.append("KNOWN-FINDING: property=%s %s [%s; seen %d time(s) this run]" % (self.pid, hit["finding"]["what"], kid, hit["count"]))
        if self.violations:
            v = self.violations[0]
            path = self._write_replay({"property": self.pid, "kind": "violation", "seed": self.seed, "tier": self.tier, "message": v["message"], "signature": v["signature"], "witness": v["witness"], "more_violations": len(self.violations) - 1, "broken": self.broken[:5]})
            lines.append("VIOLATION property=%s replay=%s" % (self.pid, path))
            lines.append("  " + v["message"][:600])
            rc = 1
        elif self.broken:
            path = self._write_replay({"property": self.pid, "kind": "no-failing-input-found", "seed": self.seed, "tier": self.tier, "no_longer_checks": self.broken[:10], "search_log": self.search_log[-20:]})
            lines.append("VIOLATION property=%s replay=%s no-failing-input-found" % (self.pid, path))
            for b in self.broken[:5]:
                lines.append("  broken %s: %s" % (b["what"], canon(b["detail"])[:500]))
            rc = 1
        self.write_evidence(rc)
        for l in lines:
            print(l)
        print("%s %s tier=%s seed=%d evaluations=%d distinct=%d obligations=%d/%d wall=%.1fs" % (
            self.pid, "OK" if rc == 0 else "FAIL", self.tier, self.seed, self.evaluations, len(self.distinct),
            len(self.proof.discharged) if self.proof else 0, len(self.proof.obligations) if self.proof else 0, time.time() - self.t0))
        shutil.rmtree(self.tmp, ignore_errors=True)
        return rc

    def write_evidence(self, rc: int) -> None:
        os.makedirs(EVIDENCE_DIR, exist_ok=True)
        cov: dict[str, Any] = {
            "evaluations": self.evaluations,
            "distinct_nontrivial": len(self.distinct),
            "rule": self.rule,
            "samples": [_shorten(x) for x in self.samples[:4]] or ["(none)"],
            "histogram": dict(sorted(self.hist.items())),
            "traces_validated_against_impl": self.traces_validated,
            "trusted_base": self.trusted,
            "known_findings_seen": {k: v["count"] for k, v in self.known_hits.items()},
            "broken": self.broken[:10],
        }
        if self.proof is not None:
            cov.update({
                "obligations": len(self.proof.obligations),
                "discharged": len(self.proof.discharged),
                "checker_cmd": self.proof.checker_cmd,
                "theorems": self.proof.obligations,
                "axioms_used": sorted({a for t in self.proof.discharged for a in self.proof.axioms.get(t, [])}),
            })
        if self.translated:
            cov["translated_from_source"] = self.translated
        cov.update(self.extra)
        ev = {
            "property_id": self.pid,
            "tier": self.tier,
            "seed": self.seed,
            "level": self.level,
            "coverage": cov,
            "assumptions": self.assumptions,
            "wall_s": round(time.time() - self.t0, 2),
            "violations": len(self.violations) + (1 if (self.broken and not self.violations) else 0),
        }
        tmp = os.path.join(EVIDENCE_DIR, ".%s.tmp" % self.pid)
        with open(tmp, "w") as f:
            json.dump(ev, f, indent=1, sort_keys=True, default=str)
        os.replace(tmp, os.path.join(EVIDENCE_DIR, "%s.json" % self.pid))


def _shorten(x: Any, limit: int = 2500) -> Any:
    t = canon(x)
    return x if len(t) <= limit else {"truncated": t[:limit] + "..."}


def corpus_cases(pid: str) -> list[Any]:
    d = os.path.join(CORPUS_DIR, pid)
    out = []
    if os.path.isdir(d):
        for fn in sorted(os.listdir(d)):
            if fn.endswith(".json"):
                out.append(json.load(open(os.path.join(d, fn))))
    return out


def ddmin(items: list[Any], fails: Callable[[list[Any]], bool], budget: int = 200) -> list[Any]:
    """Delta debugging: a 1-minimal sub-list on which `fails` still returns True."""
    n = 2
    calls = 0
    while len(items) >= 2 and calls < budget:
        chunk = max(1, len(items) // n)
        reduced = False
        for i in range(0, len(items), chunk):
            cand = items[:i] + items[i + chunk:]
            calls += 1
            if cand and fails(cand):
                items = cand
                n = max(n - 1, 2)
                reduced = True
                break
            if calls >= budget:
                break
        if not reduced:
            if chunk == 1:
                break
            n = min(len(items), n * 2)
    return items
