"""C13 run engine: objective programs, sampler/pruner factories, paired (flipped) study runs and their comparison.

Everything here is data driven (JSON-serialisable `cell` dicts) so that a failing cell can be written to a replay
file and re-run.  One *cell* = sampler spec x pruner spec x objective program x seed x number of trials x flip mask.
The *base* run minimises the losses L_j; a *flipped* run has direction `maximize` for every objective j of the mask
and its objective returns / reports -L_j there.  C13 says: same parameters, same reported steps, same pruning
decisions, same states, same best trial(s); values are exact mirror images.
"""
from __future__ import annotations

import math
import random
import warnings
from typing import Any

import optuna
from optuna.trial import TrialState

optuna.logging.set_verbosity(optuna.logging.ERROR)
warnings.filterwarnings("ignore")


# ---------------------------------------------------------------------------------------------
# objective programs
# ---------------------------------------------------------------------------------------------

def gen_space(r: random.Random, finite: bool, n_top: tuple[int, int] = (1, 3), allow_cond: bool = True) -> dict[str, Any]:
    """A (possibly conditional) search space.  finite=True: every parameter has finitely many values
    (Grid / BruteForce)."""

    def one(name: str) -> dict[str, Any]:
        kinds = ["int", "cat", "fstep"] if finite else ["float", "float", "flog", "int", "ilog", "cat", "fstep"]
        k = r.choice(kinds)
        if k == "float":
            lo = r.choice([-5.0, -1.0, 0.0, 0.25])
            return {"name": name, "kind": "float", "lo": lo, "hi": lo + r.choice([1.0, 2.5, 10.0])}
        if k == "flog":
            return {"name": name, "kind": "float", "lo": r.choice([1e-3, 0.1]), "hi": r.choice([1.0, 50.0]), "log": True}
        if k == "fstep":
            return {"name": name, "kind": "float", "lo": 0.0, "hi": r.choice([1.0, 1.5]), "step": 0.5}
        if k == "int":
            lo = r.choice([-3, 0, 1])
            return {"name": name, "kind": "int", "lo": lo, "hi": lo + (r.randint(1, 3) if finite else r.randint(2, 12))}
        if k == "ilog":
            return {"name": name, "kind": "int", "lo": 1, "hi": r.choice([16, 100]), "log": True}
        return {"name": name, "kind": "cat", "choices": r.choice([["a", "b"], ["a", "b", "c"], [1, 2, 4], [True, False]])}

    n = r.randint(*n_top)
    params = [one("p%d" % i) for i in range(n)]
    cond = None
    if allow_cond and r.random() < 0.5:
        sel = {"name": "sel", "kind": "cat", "choices": ["u", "v"] if r.random() < 0.7 else ["u", "v", "w"]}
        branches = {}
        for c in sel["choices"]:
            branches[c] = [one("q%s%d" % (c, i)) for i in range(r.randint(0, 2))]
        cond = {"sel": sel, "branches": branches}
    return {"params": params, "cond": cond}


def gen_program(r: random.Random, n_obj: int, finite: bool, with_steps: bool, with_constraints: bool,
                contiguous_steps: bool = False, n_top: tuple[int, int] = (1, 3), allow_cond: bool = True) -> dict[str, Any]:
    sp = gen_space(r, finite, n_top, allow_cond)
    steps: list[int] = []
    if with_steps:
        n = r.randint(3, 9)
        if contiguous_steps or r.random() < 0.6:
            steps = list(range(n))
        else:
            cur, steps = r.randint(0, 2), []
            for _ in range(n):
                steps.append(cur)
                cur += r.choice([1, 1, 2, 3])
    return {
        "space": sp,
        "n_obj": n_obj,
        "steps": steps,
        "salt": r.randrange(1 << 30),
        "noise": r.choice([0.02, 0.2, 1.0]),
        "decay": r.choice([0.0, 0.5, 2.0]),
        "fail_p": r.choice([0.0, 0.0, 0.06]),
        "nan_p": r.choice([0.0, 0.0, 0.04, 0.1]) if with_steps else 0.0,
        "constraints": (r.randint(1, 2) if with_constraints else 0),
        "cons_bias": r.choice([-0.3, 0.0, 0.4]),
    }


def _h(*xs: Any) -> random.Random:
    # stable across processes (no str hash): mix ints
    a = 0x9E3779B97F4A7C15
    for x in xs:
        a = (a * 6364136223846793005 + (int(x) & 0xFFFFFFFFFFFF) + 1442695040888963407) & ((1 << 64) - 1)
    return random.Random(a)


def _num(spec: dict[str, Any], v: Any) -> float:
    if spec["kind"] == "cat":
        return float(spec["choices"].index(v)) / max(1, len(spec["choices"]) - 1)
    lo, hi = float(spec["lo"]), float(spec["hi"])
    if spec.get("log"):
        return (math.log(float(v)) - math.log(lo)) / (math.log(hi) - math.log(lo))
    return (float(v) - lo) / (hi - lo)


def _suggest(trial: Any, spec: dict[str, Any]) -> Any:
    k = spec["kind"]
    if k == "float":
        return trial.suggest_float(spec["name"], spec["lo"], spec["hi"], log=bool(spec.get("log")), step=spec.get("step"))
    if k == "int":
        return trial.suggest_int(spec["name"], spec["lo"], spec["hi"], log=bool(spec.get("log")))
    return trial.suggest_categorical(spec["name"], spec["choices"])


class PrunedHere(Exception):
    pass


class Objective:
    """objective(trial) for one program; `signs[j]` = -1.0 where objective j is flipped (direction maximize)."""

    def __init__(self, prog: dict[str, Any], signs: list[float]) -> None:
        self.prog = prog
        self.signs = signs

    def losses(self, xs: list[float], number: int) -> list[float]:
        p = self.prog
        out = []
        for j in range(p["n_obj"]):
            rw = _h(p["salt"], 7, j)
            acc = 0.0
            for i, x in enumerate(xs):
                w = rw.uniform(-2.0, 2.0)
                c = rw.uniform(0.0, 1.0)
                acc += w * (x - c) ** 2 if i % 2 == 0 else w * x
            acc += p["noise"] * _h(p["salt"], 11, j, number).uniform(-1.0, 1.0)
            out.append(acc)
        return out

    def constraints(self, trial: Any) -> list[float]:
        p = self.prog
        return [_h(p["salt"], 13, i, trial.number).uniform(-1.0, 1.0) + p["cons_bias"] for i in range(p["constraints"])]

    def __call__(self, trial: Any) -> Any:
        p = self.prog
        sp = p["space"]
        xs = []
        for spec in sp["params"]:
            xs.append(_num(spec, _suggest(trial, spec)))
        if sp["cond"] is not None:
            c = _suggest(trial, sp["cond"]["sel"])
            xs.append(_num(sp["cond"]["sel"], c))
            for spec in sp["cond"]["branches"][c]:
                xs.append(_num(spec, _suggest(trial, spec)))
        n = trial.number
        ls = self.losses(xs, n)
        if _h(p["salt"], 17, n).random() < p["fail_p"]:
            raise RuntimeError("programmed failure")
        if p["steps"]:
            s0 = self.signs[0]
            for k, step in enumerate(p["steps"]):
                if _h(p["salt"], 19, n, step).random() < p["nan_p"]:
                    v = float("nan")
                else:
                    v = ls[0] + p["decay"] * math.exp(-0.5 * k) + 0.5 * p["noise"] * _h(p["salt"], 23, n, step).uniform(-1.0, 1.0)
                trial.report(s0 * v, step)
                if trial.should_prune():
                    raise optuna.TrialPruned()
        vals = [s * l for s, l in zip(self.signs, ls)]
        return vals[0] if p["n_obj"] == 1 else vals


# ---------------------------------------------------------------------------------------------
# factories
# ---------------------------------------------------------------------------------------------

def gamma_half(n: int) -> int:
    return max(1, n // 2)


def gamma_third(n: int) -> int:
    return min(int(math.ceil(0.34 * n)), 25)


GAMMAS = {"half": gamma_half, "third": gamma_third}


def grid_of(space: dict[str, Any]) -> dict[str, list[Any]]:
    def vals(spec: dict[str, Any]) -> list[Any]:
        if spec["kind"] == "cat":
            return list(spec["choices"])
        if spec["kind"] == "int":
            return list(range(spec["lo"], spec["hi"] + 1))
        n = int(round((spec["hi"] - spec["lo"]) / spec["step"]))
        return [spec["lo"] + i * spec["step"] for i in range(n + 1)]

    g = {s["name"]: vals(s) for s in space["params"]}
    if space["cond"] is not None:
        g[space["cond"]["sel"]["name"]] = list(space["cond"]["sel"]["choices"])
        for b in space["cond"]["branches"].values():
            for s in b:
                g[s["name"]] = vals(s)
    return g


def mk_sampler(spec: dict[str, Any], seed: int, prog: dict[str, Any], obj: Objective) -> Any:
    S = optuna.samplers
    k = spec["kind"]
    cons = obj.constraints if prog["constraints"] and spec.get("constraints", True) else None
    if k == "random":
        return S.RandomSampler(seed=seed)
    if k == "tpe":
        kw: dict[str, Any] = dict(seed=seed, n_startup_trials=spec.get("n_startup", 6), n_ei_candidates=spec.get("n_ei", 8),
                                  multivariate=spec.get("multivariate", False), group=spec.get("group", False),
                                  constant_liar=spec.get("constant_liar", False), constraints_func=cons,
                                  consider_endpoints=spec.get("endpoints", False))
        if spec.get("gamma"):
            kw["gamma"] = GAMMAS[spec["gamma"]]
        return S.TPESampler(**kw)
    if k == "nsga2":
        return S.NSGAIISampler(seed=seed, population_size=spec.get("pop", 6), constraints_func=cons)
    if k == "nsga3":
        return S.NSGAIIISampler(seed=seed, population_size=spec.get("pop", 6), constraints_func=cons)
    if k == "qmc":
        return S.QMCSampler(seed=seed, qmc_type=spec.get("qmc_type", "sobol"), scramble=spec.get("scramble", True),
                            warn_independent_sampling=False)
    if k == "gp":
        return S.GPSampler(seed=seed, n_startup_trials=spec.get("n_startup", 5), constraints_func=cons,
                           deterministic_objective=spec.get("deterministic", False))
    if k == "grid":
        return S.GridSampler(grid_of(prog["space"]), seed=seed)
    if k == "brute":
        return S.BruteForceSampler(seed=seed)
    raise ValueError(k)


def mk_pruner(spec: dict[str, Any], flip: bool) -> Any:
    P = optuna.pruners
    k = spec["kind"]
    if k == "nop":
        return P.NopPruner()
    if k == "median":
        return P.MedianPruner(n_startup_trials=spec.get("n_startup", 2), n_warmup_steps=spec.get("warmup", 0),
                              interval_steps=spec.get("interval", 1), n_min_trials=spec.get("n_min", 1))
    if k == "percentile":
        return P.PercentilePruner(spec["q"], n_startup_trials=spec.get("n_startup", 2), n_warmup_steps=spec.get("warmup", 0),
                                  interval_steps=spec.get("interval", 1), n_min_trials=spec.get("n_min", 1))
    if k == "sha":
        return P.SuccessiveHalvingPruner(min_resource=spec.get("min_resource", 1), reduction_factor=spec.get("rf", 2),
                                         min_early_stopping_rate=spec.get("mesr", 0), bootstrap_count=spec.get("bootstrap", 0))
    if k == "hyperband":
        return P.HyperbandPruner(min_resource=spec.get("min_resource", 1), max_resource=spec.get("max_resource", 9),
                                 reduction_factor=spec.get("rf", 3), bootstrap_count=spec.get("bootstrap", 0))
    if k == "patient":
        inner = mk_pruner(spec["inner"], flip) if spec.get("inner") else None
        return P.PatientPruner(inner, patience=spec.get("patience", 1), min_delta=spec.get("min_delta", 0.0))
    if k == "threshold":
        lo, up = spec.get("lower"), spec.get("upper")
        if flip:  # mirrored bounds
            lo, up = (None if up is None else -up), (None if lo is None else -lo)
        return P.ThresholdPruner(lower=lo, upper=up, n_warmup_steps=spec.get("warmup", 0), interval_steps=spec.get("interval", 1))
    if k == "wilcoxon":
        return P.WilcoxonPruner(p_threshold=spec.get("p", 0.1), n_startup_steps=spec.get("n_startup", 2))
    raise ValueError(k)


# ---------------------------------------------------------------------------------------------
# runs
# ---------------------------------------------------------------------------------------------

def fl(x: Any) -> Any:
    """exact, JSON-able float"""
    if x is None:
        return None
    x = float(x)
    if math.isnan(x):
        return "nan"
    if math.isinf(x):
        return "inf" if x > 0 else "-inf"
    return x.hex()


def neg(x: Any) -> Any:
    if x is None or x == "nan":
        return x
    if x == "inf":
        return "-inf"
    if x == "-inf":
        return "inf"
    return (-float.fromhex(x)).hex()


def run_study(cell: dict[str, Any], mask: list[bool]) -> dict[str, Any]:
    prog = cell["program"]
    signs = [-1.0 if m else 1.0 for m in mask]
    obj = Objective(prog, signs)
    sampler = mk_sampler(cell["sampler"], cell["seed"], prog, obj)
    single = prog["n_obj"] == 1
    pruner = mk_pruner(cell["pruner"], mask[0]) if single else optuna.pruners.NopPruner()
    dirs = ["maximize" if m else "minimize" for m in mask]
    storage = optuna.storages.InMemoryStorage()
    study = optuna.create_study(storage=storage, study_name="c13", sampler=sampler, pruner=pruner,
                                direction=dirs[0] if single else None, directions=None if single else dirs)
    err = None
    try:
        study.optimize(obj, n_trials=cell["n_trials"], catch=(RuntimeError,))
    except Exception as e:  # an exception escaping optimize is part of the observation
        err = "%s: %s" % (type(e).__name__, str(e)[:200])
    trials = []
    for t in study.get_trials(deepcopy=False):
        rungs = sorted((k, fl(v)) for k, v in t.system_attrs.items() if k.startswith("completed_rung_"))
        trials.append({
            "number": t.number,
            "state": t.state.name,
            "params": {k: (fl(v) if isinstance(v, float) else v) for k, v in t.params.items()},
            "steps": [[s, fl(v)] for s, v in sorted(t.intermediate_values.items())],
            "values": None if t.values is None else [fl(v) for v in t.values],
            "rungs": rungs,
        })
    if single:
        try:
            best: Any = study.best_trial.number
        except ValueError:
            best = "none"
    else:
        best = sorted(t.number for t in study.best_trials)
    return {"trials": trials, "best": best, "error": err}


def mirror_obs(obs: dict[str, Any], mask: list[bool]) -> dict[str, Any]:
    """What the flipped run must look like, given the base run."""
    out = {"best": obs["best"], "error": obs["error"], "trials": []}
    for t in obs["trials"]:
        u = dict(t)
        if mask[0]:
            u["steps"] = [[s, neg(v)] for s, v in t["steps"]]
            u["rungs"] = [(k, neg(v)) for k, v in t["rungs"]]
        if t["values"] is not None:
            if len(t["values"]) == len(mask):
                u["values"] = [neg(v) if m else v for v, m in zip(t["values"], mask)]
        out["trials"].append(u)
    return out


def first_diff(exp: dict[str, Any], got: dict[str, Any]) -> dict[str, Any] | None:
    if exp["error"] != got["error"]:
        return {"field": "error", "expected": exp["error"], "observed": got["error"], "trial": None}
    for i, (a, b) in enumerate(zip(exp["trials"], got["trials"])):
        for f in ("params", "state", "steps", "values", "rungs"):
            x, y = a[f], b[f]
            if f == "rungs":
                x, y = [list(p) for p in x], [list(p) for p in y]
            if x != y:
                if f == "steps" and [s for s, _ in x] == [s for s, _ in y]:
                    f = "step-values"
                return {"field": f, "trial": i, "expected": x, "observed": y}
    if len(exp["trials"]) != len(got["trials"]):
        return {"field": "n_trials", "trial": None, "expected": len(exp["trials"]), "observed": len(got["trials"])}
    if exp["best"] != got["best"]:
        return {"field": "best", "trial": None, "expected": exp["best"], "observed": got["best"]}
    return None


def distinct_values(obs: dict[str, Any]) -> bool:
    """The quantifier of C13: pairwise-distinct objective values (per objective) and per-step reports."""
    fin: dict[int, set] = {}
    per_step: dict[int, set] = {}
    for t in obs["trials"]:
        if t["state"] == "COMPLETE" and t["values"]:
            for j, v in enumerate(t["values"]):
                if v in fin.setdefault(j, set()):
                    return False
                fin[j].add(v)
        for s, v in t["steps"]:
            if v == "nan":
                continue
            if v in per_step.setdefault(s, set()):
                return False
            per_step[s].add(v)
    return True


def features(obs: dict[str, Any]) -> dict[str, int]:
    st = [t["state"] for t in obs["trials"]]
    return {"complete": st.count("COMPLETE"), "pruned": st.count("PRUNED"), "fail": st.count("FAIL"),
            "reports": sum(len(t["steps"]) for t in obs["trials"]),
            "nan_reports": sum(1 for t in obs["trials"] for _, v in t["steps"] if v == "nan"),
            "cond_shapes": len({tuple(sorted(t["params"])) for t in obs["trials"]})}


def run_pair(cell: dict[str, Any], mask: list[bool], base: dict[str, Any] | None = None) -> dict[str, Any]:
    """Returns {"diff": None | {...}, "base": obs, "distinct": bool}."""
    n_obj = cell["program"]["n_obj"]
    if base is None:
        base = run_study(cell, [False] * n_obj)
    flipped = run_study(cell, mask)
    return {"diff": first_diff(mirror_obs(base, mask), flipped), "base": base, "distinct": distinct_values(base)}


# ---------------------------------------------------------------------------------------------
# cause attribution for the two asymmetries that exist on the pinned tree (see Props/C13.lean,
# `crowding_order_not_symmetric`; the NSGA-III one is the repair of F-C13-2, now in /repo, kept for replays of old witnesses).  The patches are applied by the
# harness to the live modules (never to /repo) in BOTH runs of a pair; if the pair then agrees, the
# divergence is attributed to exactly that site.
# ---------------------------------------------------------------------------------------------

import contextlib


@contextlib.contextmanager
def attribution_patch(kind: str):
    """Neutralise a (formerly) asymmetric site from the harness, in both runs of a pair.  Since the repairs of F-C13-1
    (NSGA-II: the code itself now sorts by (-distance, number), which is what the nsga2 patch below installs) and F-C13-2
    no check uses it any more (`c13.KNOWN_SITES` is empty); it is kept for `./check C13 --replay` of old witnesses that
    carry `under_patch`."""
    import numpy as np
    from optuna.samplers.nsgaii import _elite_population_selection_strategy as e2
    from optuna.samplers._nsgaiii import _elite_population_selection_strategy as e3
    from optuna.study import StudyDirection

    if kind == "nsga2-crowding-tie-order":
        orig = e2._crowding_distance_sort

        def sym_sort(population: list) -> None:
            d = e2._calc_crowding_distance(list(population))
            population.sort(key=lambda t: (-d[t.number], t.number))

        e2._crowding_distance_sort = sym_sort
        try:
            yield
        finally:
            e2._crowding_distance_sort = orig
    elif kind == "nsga3-raw-values-in-niching":
        holder: dict[str, Any] = {}
        orig_call = e3.NSGAIIIElitePopulationSelectionStrategy.__call__
        orig_filter = e3._filter_inf

        def call(self, study, population):  # type: ignore
            holder["signs"] = np.array([-1.0 if d == StudyDirection.MAXIMIZE else 1.0 for d in study.directions])
            return orig_call(self, study, population)

        class _T:
            def __init__(self, values):  # type: ignore
                self.values = values

        def filt(population):  # type: ignore
            s = holder["signs"]
            return orig_filter([_T([float(v) * float(x) for v, x in zip(t.values, s)]) for t in population])

        e3.NSGAIIIElitePopulationSelectionStrategy.__call__ = call
        e3._filter_inf = filt
        try:
            yield
        finally:
            e3.NSGAIIIElitePopulationSelectionStrategy.__call__ = orig_call
            e3._filter_inf = orig_filter
    else:
        raise ValueError(kind)
