"""Correspondence kit for the distribution / transform model (Model/Dist.lean, driver `dist`): exact number
helpers, conversion of optuna distributions / values to the line protocol, generators shared by C11 and C10.
"""
from __future__ import annotations

import math
import random
import warnings
from decimal import Decimal
from fractions import Fraction
from typing import Any

import numpy as np

import optuna
from optuna import distributions as OD

optuna.logging.set_verbosity(optuna.logging.ERROR)

FCLS = {"FloatDistribution": "float", "UniformDistribution": "uniform", "LogUniformDistribution": "logUniform",
        "DiscreteUniformDistribution": "discreteUniform"}
ICLS = {"IntDistribution": "int", "IntUniformDistribution": "intUniform", "IntLogUniformDistribution": "intLogUniform"}


# ---- exact numbers ------------------------------------------------------------------------------------
def rs(q: Fraction | int) -> str:
    q = Fraction(q)
    return "%d/%d" % (q.numerator, q.denominator)


def pr(s: str) -> Fraction:
    return Fraction(s)


def fbin(x: float) -> Fraction:
    """exact binary value of a float"""
    return Fraction(float(x))


def fdec(x: float) -> Fraction:
    """the decimal the code sees through Decimal(str(x))"""
    return Fraction(Decimal(str(float(x))))


def ulp(x: float) -> float:
    x = abs(float(x))
    if x == 0.0:
        return 5e-324
    return float(np.spacing(x))


def ulps_apart(a: float, b: float) -> float:
    """distance in units of the larger operand's ulp"""
    if a == b:
        return 0.0
    return abs(Fraction(a) - Fraction(b)) / Fraction(ulp(max(abs(a), abs(b))))


def sig_digits(x: float) -> int:
    d = Decimal(repr(float(x)))
    return len(d.as_tuple().digits) if d != 0 else 1


# ---- protocol encodings ----------------------------------------------------------------------------------
def tok(v: Any) -> Any:
    if v is None:
        return None
    if isinstance(v, (bool, np.bool_)):
        return {"b": bool(v)}
    if isinstance(v, (int, np.integer)):
        return {"i": str(int(v))}
    if isinstance(v, (float, np.floating)):
        v = float(v)
        if math.isnan(v):
            return "nan"
        if math.isinf(v):
            return "inf" if v > 0 else "-inf"
        return {"f": rs(fbin(v))}
    if isinstance(v, str):
        return {"s": v}
    raise TypeError("not a token: %r" % (v,))


def untok(t: Any) -> Any:
    if t is None:
        return None
    if t == "nan":
        return float("nan")
    if t == "inf":
        return float("inf")
    if t == "-inf":
        return float("-inf")
    if "b" in t:
        return t["b"]
    if "i" in t:
        return int(t["i"])
    if "f" in t:
        q = pr(t["f"])
        return q  # a Fraction: caller compares exactly
    if "s" in t:
        return t["s"]
    raise ValueError(t)


def tok_eq_value(t: Any, v: Any) -> bool:
    """model token == python value, exactly and type-strictly (bool/int/float/str/None/nan/inf)"""
    return tok(v) == t


def mdist(d: OD.BaseDistribution, mode: str = "dec") -> dict[str, Any]:
    """optuna distribution -> model `Dist` JSON.  mode = "dec": float attributes as the decimals the code
    sees through Decimal(str(.)); "bin": exact binary values."""
    f = fdec if mode == "dec" else fbin
    name = type(d).__name__
    if name in FCLS:
        return {"k": "flt", "c": FCLS[name], "low": rs(f(d.low)), "high": rs(f(d.high)), "log": bool(d.log),
                "step": None if d.step is None else rs(f(d.step))}
    if name in ICLS:
        return {"k": "int", "c": ICLS[name], "low": str(d.low), "high": str(d.high), "log": bool(d.log), "step": str(d.step)}
    if name == "CategoricalDistribution":
        return {"k": "cat", "choices": [tok(c) for c in d.choices]}
    raise TypeError(name)


def jdoc(obj: dict[str, Any], mode: str = "dec") -> list[Any]:
    """a json.loads()-ed distribution document -> model `JDoc` (pairs, insertion order kept)"""
    f = fdec if mode == "dec" else fbin

    def atom(v: Any) -> Any:
        if isinstance(v, float) and math.isfinite(v):
            return {"f": rs(f(v))}
        return tok(v)

    def jv1(v: Any) -> Any:
        if isinstance(v, (list, tuple)):
            return {"arr": [tok(x) for x in v]}  # categorical choices: always the exact binary value
        return {"atom": atom(v)}

    out = []
    for k, v in obj.items():
        if isinstance(v, dict):
            out.append([k, {"obj": [[kk, jv1(vv)] for kk, vv in v.items()]}])
        else:
            out.append([k, jv1(v)])
    return out


def canon_doc(doc: list[Any]) -> Any:
    """order-insensitive form of a model JDoc"""
    def cv(v: Any) -> Any:
        if "obj" in v:
            return {"obj": sorted(([k, x] for k, x in v["obj"]), key=lambda p: p[0])}
        return v
    return sorted(([k, cv(v)] for k, v in doc), key=lambda p: p[0])


# ---- building distributions from JSON-serialisable cases -----------------------------------------------------
def build(case: dict[str, Any]) -> OD.BaseDistribution:
    cls = case["cls"]
    with warnings.catch_warnings():
        warnings.simplefilter("ignore")
        if cls == "FloatDistribution":
            return OD.FloatDistribution(case["low"], case["high"], log=case.get("log", False), step=case.get("step"))
        if cls == "UniformDistribution":
            return OD.UniformDistribution(case["low"], case["high"])
        if cls == "LogUniformDistribution":
            return OD.LogUniformDistribution(case["low"], case["high"])
        if cls == "DiscreteUniformDistribution":
            return OD.DiscreteUniformDistribution(case["low"], case["high"], case["step"])
        if cls == "IntDistribution":
            return OD.IntDistribution(case["low"], case["high"], log=case.get("log", False), step=case.get("step", 1))
        if cls == "IntUniformDistribution":
            return OD.IntUniformDistribution(case["low"], case["high"], case.get("step", 1))
        if cls == "IntLogUniformDistribution":
            return OD.IntLogUniformDistribution(case["low"], case["high"], case.get("step", 1))
        if cls == "CategoricalDistribution":
            return OD.CategoricalDistribution(tuple(case["choices"]))
    raise ValueError(cls)


def case_of(d: OD.BaseDistribution) -> dict[str, Any]:
    name = type(d).__name__
    if name == "CategoricalDistribution":
        return {"cls": name, "choices": list(d.choices)}
    return {"cls": name, "low": d.low, "high": d.high, "log": d.log, "step": d.step}


# ---- generators ----------------------------------------------------------------------------------------------
def dec_float(m: int, e: int) -> float:
    return float(Decimal(m).scaleb(e))


def gen_float_in15(r: random.Random, log: bool = False, stepped: bool | None = None) -> dict[str, Any]:
    """low/high/step are multiples of one quantum 10^e with |mantissa| < 10^15, so that EVERY grid point
    k*step+low in range is a decimal of <= 15 significant digits (the repr_roundtrip hypothesis)."""
    nd = r.randint(1, 15)
    e = r.randint(-12, 4)
    top = 10 ** nd
    if log:
        lo = r.randint(1, top - 1)
        span = r.choice([0, 1, r.randint(0, top), r.randint(0, max(1, top // 1000))])
        hi = min(lo + span, 10 ** 15 - 1)
        return {"cls": r.choice(["FloatDistribution", "LogUniformDistribution"]) if r.random() < 0.3 else "FloatDistribution",
                "low": dec_float(lo, e), "high": dec_float(hi, e), "log": True, "step": None}
    lo = r.randint(-top + 1, top - 1) if r.random() < 0.7 else r.choice([0, 1, -1])
    if stepped is None:
        stepped = r.random() < 0.6
    if not stepped:
        span = r.choice([0, 1, r.randint(0, top), r.randint(0, top)])
        hi = min(lo + span, 10 ** 15 - 1)
        cls = "UniformDistribution" if r.random() < 0.15 else "FloatDistribution"
        return {"cls": cls, "low": dec_float(lo, e), "high": dec_float(hi, e), "log": False, "step": None}
    st = r.choice([1, r.randint(1, 9), r.randint(1, top), r.randint(1, max(1, top // 100))])
    nsteps = r.choice([0, 1, 2, 3, r.randint(0, 12), r.randint(0, 1000), r.randint(0, 10 ** 6)])
    extra = r.choice([0, 0, r.randint(0, st - 1) if st > 1 else 0, st - 1])
    hi = lo + nsteps * st + extra
    if abs(hi) >= 10 ** 15:
        hi = lo + extra
    cls = "DiscreteUniformDistribution" if r.random() < 0.15 else "FloatDistribution"
    return {"cls": cls, "low": dec_float(lo, e), "high": dec_float(hi, e), "log": False, "step": dec_float(st, e)}


def in15(case: dict[str, Any]) -> bool:
    """is the (already adjusted) stepped-float case inside the <=15-digit hypothesis?"""
    vals = [case["low"], case["high"]] + ([case["step"]] if case.get("step") is not None else [])
    ds = [Decimal(repr(float(v))) for v in vals]
    if any(len(d.as_tuple().digits) > 15 for d in ds if d != 0):
        return False
    if case.get("step") is None:
        return True
    q = min((d.as_tuple().exponent for d in ds if d != 0), default=0)
    big = max(abs(d) for d in ds)
    return big < Decimal(10) ** (q + 15)


def gen_float_wild(r: random.Random) -> dict[str, Any]:
    """the out-of-hypothesis stream: up to 17 significant digits, wide exponents"""
    def rnd() -> float:
        nd = r.randint(1, 17)
        return dec_float(r.randint(1, 10 ** nd - 1), r.randint(-nd - 6, 6))
    kind = r.random()
    if kind < 0.25:
        lo = rnd()
        return {"cls": "FloatDistribution", "low": lo, "high": lo + rnd(), "log": True, "step": None}
    lo = rnd() * r.choice([1, -1])
    hi = lo + rnd()
    if kind < 0.5:
        return {"cls": "FloatDistribution", "low": lo, "high": hi, "log": False, "step": None}
    return {"cls": "FloatDistribution", "low": lo, "high": hi, "log": False, "step": rnd()}


def gen_int(r: random.Random, big: bool = False) -> dict[str, Any]:
    mag = r.choice([10, 100, 10 ** 6, 2 ** 31, 2 ** 52]) if not big else r.choice([2 ** 64, 10 ** 30])
    k = r.random()
    if k < 0.2:
        lo = r.randint(1, mag)
        hi = lo + r.choice([0, 1, r.randint(0, mag)])
        cls = "IntLogUniformDistribution" if r.random() < 0.3 else "IntDistribution"
        return {"cls": cls, "low": lo, "high": hi, "log": True, "step": 1}
    lo = r.randint(-mag, mag)
    st = r.choice([1, 1, 2, 3, r.randint(1, 10), r.randint(1, mag)])
    hi = lo + r.choice([0, 1, r.randint(0, 20), r.randint(0, mag)]) * r.choice([1, st]) + r.choice([0, 0, r.randint(0, st)])
    cls = "IntUniformDistribution" if r.random() < 0.2 else "IntDistribution"
    return {"cls": cls, "low": lo, "high": hi, "log": False, "step": st}


CHOICE_POOL: list[Any] = [None, True, False, 0, 1, 2, -1, 0.0, 1.0, -0.0, 2.5, 1e-3, 1e300, float("nan"), float("inf"),
                          float("-inf"), "", "a", "1", "True", "None", "x y", "é中", 10 ** 20, -7]


def gen_cat(r: random.Random) -> dict[str, Any]:
    n = r.choice([1, 1, 2, 2, 3, 4, 6, 9])
    if r.random() < 0.4:  # provoke duplicates-by-equality
        base = r.choice([[True, 1, 1.0], [False, 0, 0.0, -0.0], [float("nan"), float("nan"), 1], ["1", 1, True]])
        ch = [r.choice(base) for _ in range(n)]
    else:
        ch = [r.choice(CHOICE_POOL) for _ in range(n)]
    return {"cls": "CategoricalDistribution", "choices": ch}
