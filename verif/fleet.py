"""`fleet`: factory for every storage configuration the checks run against (DESIGN 1.4).

Each configuration is (name, make) where make(tmpdir) -> Handle with .storage, .close(), and
.peer() -> a second client object on the *same* underlying data where that makes sense (another
RDBStorage on the same SQLite file, another JournalStorage on the same file / fakeredis, another
proxy to the same server).
"""
from __future__ import annotations

import itertools
import os
import warnings
from concurrent.futures import ThreadPoolExecutor
from typing import Any, Callable

import optuna
from optuna.storages import InMemoryStorage, JournalStorage, RDBStorage
from optuna.storages import _CachedStorage
from optuna.storages.journal import JournalFileBackend, JournalFileOpenLock, JournalFileSymlinkLock, JournalRedisBackend

optuna.logging.set_verbosity(optuna.logging.ERROR)
warnings.simplefilter("ignore")

_counter = itertools.count()


class Handle:
    def __init__(self, name: str, storage: Any, peer: Callable[[], Any] | None = None, closers: list[Callable[[], None]] | None = None, base: str = "") -> None:
        self.name = name
        self.storage = storage
        self._peer = peer
        self._closers = closers or []
        self.base = base or name  # innermost backend kind: mem | sqlite | journal-file | journal-redis

    def peer(self) -> Any:
        if self._peer is None:
            raise RuntimeError("no peer for %s" % self.name)
        return self._peer()

    def has_peer(self) -> bool:
        return self._peer is not None

    def close(self) -> None:
        for c in self._closers:
            try:
                c()
            except Exception:
                pass


def _sqlite_url(tmp: str) -> str:
    return "sqlite:///" + os.path.join(tmp, "db%d_%d.sqlite3" % (os.getpid(), next(_counter)))


def _rdb(url: str) -> RDBStorage:
    return RDBStorage(url, engine_kwargs={"connect_args": {"timeout": 30}})


def mk_mem(tmp: str) -> Handle:
    return Handle("mem", InMemoryStorage())


def mk_rdb(tmp: str) -> Handle:
    url = _sqlite_url(tmp)
    return Handle("rdb", _rdb(url), peer=lambda: _rdb(url), base="sqlite")


def mk_cached(tmp: str) -> Handle:
    url = _sqlite_url(tmp)
    return Handle("cached", _CachedStorage(_rdb(url)), peer=lambda: _CachedStorage(_rdb(url)), base="sqlite")


def mk_journal_file(tmp: str, lock: str = "symlink") -> Handle:
    path = os.path.join(tmp, "journal%d_%d.log" % (os.getpid(), next(_counter)))

    def mk() -> JournalStorage:
        lock_obj = JournalFileSymlinkLock(path) if lock == "symlink" else JournalFileOpenLock(path)
        return JournalStorage(JournalFileBackend(path, lock_obj=lock_obj))

    first = mk()
    n_peers = itertools.count()

    def peer() -> JournalStorage:
        # every other peer reaches its "process" the way multiprocessing hands a storage to a worker: by pickle
        if next(n_peers) % 2 == 0:
            import pickle

            return pickle.loads(pickle.dumps(first))
        return mk()

    return Handle("journal-%s" % lock, first, peer=peer, base="journal-file")


class same_ident_across_processes:
    """Context manager: inside optuna/storages/journal/_storage.py, `threading.get_ident()` answers the index of the
    calling harness thread WITHIN its storage object ("process"): the first thread of every process gets the same
    ident, as the main threads of forked worker processes do.  Worker ids must still be distinct per storage object."""

    def __init__(self, thread_index: Callable[[], Any], n_processes: int) -> None:
        self._idx = thread_index
        self._n = max(n_processes, 1)

    def __enter__(self) -> "same_ident_across_processes":
        import threading as _th

        import optuna.storages.journal._storage as _js

        outer = self

        class _T:
            def __getattr__(self, name: str) -> Any:
                return getattr(_th, name)

            def get_ident(self) -> int:
                i = outer._idx()
                return _th.get_ident() if i is None else 1000 + int(i) // outer._n

        self._js, self._old = _js, _js.threading
        _js.threading = _T()  # type: ignore[assignment]
        return self

    def __exit__(self, *a: Any) -> None:
        self._js.threading = self._old


def mk_journal_redis(tmp: str) -> Handle:
    import fakeredis

    server = fakeredis.FakeServer()

    def mk() -> JournalStorage:
        b = JournalRedisBackend("redis://localhost")
        b._redis = fakeredis.FakeStrictRedis(server=server)
        return JournalStorage(b)

    return Handle("journal-redis", mk(), peer=mk, base="journal-redis")


def mk_grpc_over(inner_mk: Callable[[str], Handle], max_workers: int = 10) -> Callable[[str], Handle]:
    def mk(tmp: str) -> Handle:
        import grpc
        from optuna.storages import GrpcStorageProxy
        from optuna.storages._grpc import servicer as grpc_servicer
        from optuna.storages._grpc.auto_generated import api_pb2_grpc

        inner = inner_mk(tmp)
        server = grpc.server(ThreadPoolExecutor(max_workers=max_workers))
        api_pb2_grpc.add_StorageServiceServicer_to_server(grpc_servicer.OptunaStorageProxyService(inner.storage), server)
        port = server.add_insecure_port("localhost:0")
        server.start()
        clients: list[Any] = []

        def client() -> Any:
            c = GrpcStorageProxy(host="localhost", port=port)
            clients.append(c)
            return c

        def stop() -> None:
            server.stop(0).wait(5)
            inner.close()

        h = Handle("grpc(%s)" % inner.name, client(), peer=client, closers=[stop], base=inner.base)
        h.inner = inner  # type: ignore[attr-defined]
        return h

    return mk


CONFIGS: dict[str, Callable[[str], Handle]] = {
    "mem": mk_mem,
    "rdb": mk_rdb,
    "cached": mk_cached,
    "journal-symlink": lambda tmp: mk_journal_file(tmp, "symlink"),
    "journal-open": lambda tmp: mk_journal_file(tmp, "open"),
    "journal-redis": mk_journal_redis,
    "grpc(mem)": mk_grpc_over(mk_mem),
    "grpc(rdb)": mk_grpc_over(mk_rdb),
    "grpc(cached)": mk_grpc_over(mk_cached),
    "grpc(journal)": mk_grpc_over(lambda tmp: mk_journal_file(tmp, "symlink")),
    "grpc(journal-redis)": mk_grpc_over(mk_journal_redis),
}

QUICK = ["mem", "rdb", "cached", "journal-symlink", "journal-open", "journal-redis", "grpc(mem)", "grpc(rdb)", "grpc(journal)"]
THOROUGH = list(CONFIGS)


def make(name: str, tmp: str) -> Handle:
    return CONFIGS[name](tmp)
