"""C01 — every storage backend implements the one documented storage contract.

prove:      Props/C01.lean (invariants of the contract model for all histories)
correspond: generated histories on every fleet configuration vs the Lean contract model, call by
            call (return value / error class) and, after mutating calls, the whole readable state.
A disagreement between a backend and the contract *is* a C01 violation of that backend.
"""
from __future__ import annotations

import json
import random
from typing import Any

from verif import core, fleet
from verif import storage_k as K
from verif.props import c01_grpc, c01_grpc_gen, c01_inmem, c01_inmem_gen, c01_rdb

RULE = (
    "seeded histories of BaseStorage calls (<=3 studies sharing the id space, <=8 trials, ~4% unknown ids, 15% "
    "possibly-incompatible distributions, templates in every state with NaN/inf payloads) executed on every fleet "
    "configuration and on the Lean contract model; a case = (configuration, history); non-trivial = it contains "
    ">=1 successful trial write and >=1 rejected call; distinct by SHA-1 of (configuration, op list)"
)


def gen_history(r: random.Random, drv: core.Driver, n_ops: int, tag: str, max_trials: int = 8) -> list[dict[str, Any]]:
    drv.ask({"op": "reset"})
    g = K.Gen(r, max_trials=max_trials)
    ops = []
    for _ in range(n_ops):
        op = g.next(multi_objective=True)
        if op["op"] in ("createStudy", "getStudyIdFromName"):
            op["name"] = tag + op["name"]
        resp = drv.ask(K.to_driver(op))
        if resp.get("k") in ("bad-op", "bad-json"):
            raise core.DriverBroken("driver rejected %s: %s" % (op, resp))
        g.feedback(op, resp["out"])
        ops.append(op)
    return ops


def sig_of(cfg: str, base: str, op: dict[str, Any], kind: str) -> dict[str, Any]:
    return {"backend": cfg, "base": base, "op": op["op"], "kind": kind}


def run_on(cfg: str, h: fleet.Handle, ops: list[dict[str, Any]], drv: core.Driver, dump_p: float, r: random.Random,
           ignore: set[int] | None = None) -> dict[str, Any] | None:
    """Run one history on one backend in lockstep with the model.  Returns None or a failure dict
    {"step", "op", "why", "signature"}."""
    drv.ask({"op": "reset"})
    pre = {fs._study_id for fs in h.storage.get_all_studies()} if ignore is None else ignore
    ex = K.Exec(h.storage, ignore_studies=pre)
    stats = {"ok_writes": 0, "rejected": 0}
    for i, op in enumerate(ops):
        try:
            obs = ex.run(op)
        except K.IdReuse as e:
            sig = dict(sig_of(cfg, h.base, op, "id-reuse"), prior_deleted=e.prior_deleted)
            return {"step": i, "op": op, "why": "id reuse: %s" % e, "signature": sig, "stats": stats}
        raised_value = obs.get("k") == "err" and obs.get("e") == "ValueError"
        mutating = op["op"] in K.MUTATING
        dump = mutating and (r.random() < dump_p or i == len(ops) - 1)
        resp = drv.ask(K.to_driver(op, impl_raised=raised_value, dump=dump))
        if "out" not in resp:
            raise core.DriverBroken("driver: %s" % resp)
        mo = resp["out"]
        why = K.compare_out(mo, obs)
        if why is not None and op["op"] == "getBestTrial" and mo.get("k") == "err" and obs.get("k") == "err" \
                and {mo["e"], obs["e"]} <= {"ValueError", "RuntimeError"}:
            why = None  # U3: precedence of the two errors is unspecified
        if why is not None:
            return {"step": i, "op": op, "why": why, "signature": sig_of(cfg, h.base, op, "output"), "stats": stats}
        if mutating:
            if obs["k"] == "err":
                stats["rejected"] += 1
            elif op["op"].startswith("setTrial") or op["op"] == "createTrial":
                stats["ok_writes"] += 1
        elif obs["k"] == "err":
            stats["rejected"] += 1
        if dump:
            real = ex.dump()
            model = K.strip_model(resp["state"])
            if real != model:
                # locate the first difference for the message
                why = "readable state differs after the call: model %s / implementation %s" % (
                    json.dumps(model, sort_keys=True)[:600], json.dumps(real, sort_keys=True)[:600])
                return {"step": i, "op": op, "why": why, "signature": sig_of(cfg, h.base, op, "state"), "stats": stats}
    return {"ok": True, "stats": stats, "reuse": ex.reuse_events}


def minimise(cfg: str, ops: list[dict[str, Any]], drv: core.Driver, tmp: str) -> list[dict[str, Any]]:
    def fails(cand: list[dict[str, Any]]) -> bool:
        h = fleet.make(cfg, tmp)
        try:
            res = run_on(cfg, h, cand, drv, 1.0, random.Random(0))
            return res is not None and not res.get("ok")
        except Exception:
            return False
        finally:
            h.close()

    return core.ddmin(list(ops), fails, budget=120)


def _worker(args: tuple[str, list[tuple[str, list[dict[str, Any]]]], int, float, str]) -> dict[str, Any]:
    """All histories on one configuration (own process, own driver)."""
    cfg, histories, seed, dump_p, tmp = args
    r = random.Random(seed)
    drv = core.Driver("storage")
    known = [kf for kf in core.load_known_findings() if kf.get("property") == "C01" and kf.get("status") == "open"]
    out: dict[str, Any] = {"cfg": cfg, "cases": [], "failures": []}
    h: fleet.Handle | None = None
    try:
        for tag, ops in histories:
            if h is None or cfg == "mem":
                if h is not None:
                    h.close()
                h = fleet.make(cfg, tmp)
            res = run_on(cfg, h, ops, drv, dump_p, r)
            st = res.get("stats", {})
            out["cases"].append({"tag": tag, "nontrivial": st.get("ok_writes", 0) >= 1 and st.get("rejected", 0) >= 1})
            for ev in res.get("reuse", [])[:1]:
                out["failures"].append({"tag": tag, "signature": dict(sig_of(cfg, h.base, {"op": "create"}, "id-reuse"), prior_deleted=True),
                                        "op": {"op": "create"}, "why": ev, "ops": ops, "full_len": len(ops)})
            if not res.get("ok"):
                is_known = any(all(res["signature"].get(k) == v for k, v in kf.get("match", {}).items()) for kf in known)
                small = ops[: res["step"] + 1] if is_known else minimise(cfg, ops[: res["step"] + 1], drv, tmp)
                out["failures"].append({"tag": tag, "signature": res["signature"], "op": res["op"], "why": res["why"],
                                        "ops": small, "full_len": len(ops)})
                h.close()
                h = None
                if not is_known:
                    break
    except core.DriverBroken as e:
        out["driver_broken"] = str(e)[:800]
    finally:
        drv.close()
        if h is not None:
            h.close()
    return out


def correspond(chk: core.Check, n_hist: int, n_ops: tuple[int, int], cfgs: list[str], dump_p: float) -> None:
    import multiprocessing as mp

    core.ensure_driver()
    gdrv = core.Driver("storage")
    r = chk.rng
    try:
        histories = [(("corpus%d_" % i), c["ops"]) for i, c in enumerate(core.corpus_cases("C01"))]
        for i in range(n_hist):
            histories.append(("h%d_" % i, gen_history(r, gdrv, r.randint(*n_ops), "h%d_" % i)))
    finally:
        gdrv.close()
    for op in [o for _, ops in histories for o in ops]:
        chk.count("op:" + op["op"])
    jobs = [(cfg, histories, chk.seed * 7919 + k, dump_p, chk.tmp) for k, cfg in enumerate(cfgs)]
    ctx = mp.get_context("spawn")
    with ctx.Pool(min(len(jobs), 12)) as pool:
        results = pool.map(_worker, jobs)
    by_tag = dict(histories)
    for res in results:
        cfg = res["cfg"]
        if "driver_broken" in res:
            chk.broke("correspondence", {"driver": res["driver_broken"]})
        for c in res["cases"]:
            chk.case({"cfg": cfg, "ops": by_tag[c["tag"]]}, nontrivial=c["nontrivial"])
            chk.count("histories:" + cfg)
            chk.traces_validated += 1
        for f in res["failures"]:
            chk.violation(f["signature"], {"backend": cfg, "ops": f["ops"], "full_len": f["full_len"]},
                          "backend %s departs from the storage contract at %s: %s" % (cfg, json.dumps(f["op"])[:200], f["why"]))


def main(chk: core.Check) -> int:
    chk.rule = RULE + "; gRPC wire level: " + c01_grpc.RULE
    c01_rdb.translate(chk)  # Generated/RdbCodec.lean (models.py codecs) + Generated/Best.lean, before the proofs are rebuilt
    c01_grpc.regenerate(chk)  # T-grpc: Generated/GrpcTables.lean from servicer.py / client.py / api.proto
    c01_grpc_gen.regenerate(chk)  # T-grpc2: Generated/GrpcMethods.lean = the method bodies of servicer.py / client.py as IR
    c01_inmem_gen.regenerate(chk)  # T-inmem: Generated/InMemoryMethods.lean from storages/_in_memory.py (+ two methods of _base.py)
    if not getattr(chk, "no_prove", False):
        chk.prove(["OptunaVerif.Props.C01", "OptunaVerif.Props.C01History", "OptunaVerif.Props.C01Frame", "OptunaVerif.Props.C01InMem", c01_inmem_gen.MODULE, "OptunaVerif.Props.C01Rdb", c01_grpc.PROPS_MODULE,
                   *c01_grpc_gen.MODULES])
        c01_inmem_gen.explain_proof_failure(chk)
        c01_grpc_gen.explain_proof_failure(chk)
    quick = chk.tier == "quick"
    try:
        correspond(chk, n_hist=100 if quick else 500, n_ops=(5, 60) if quick else (5, 200),
                   cfgs=fleet.QUICK if quick else fleet.THOROUGH, dump_p=0.35 if quick else 0.4)
        c01_inmem.correspond(chk, chk.tier)
    except core.DriverBroken as e:
        chk.broke("correspondence", {"driver": str(e)[:800]})
    c01_rdb.correspond(chk, chk.tier)  # relational model vs RDBStorage: answers + all eleven tables after every call
    try:
        c01_grpc.correspond(chk, chk.tier)
    except core.DriverBroken as e:
        chk.broke("correspondence", {"driver": str(e)[:800]})
    chk.assumptions += [
        "SQLite stands for every RDB dialect; fakeredis stands for Redis",
        "attribute payloads are compared after one JSON round trip; datetimes as present/absent",
        "U1-U5 of DESIGN.md section 2 are accepted either way",
    ]
    return chk.finish(search=c01_inmem.search)


def replay(chk: core.Check, path: str) -> int:
    w = json.load(open(path))["witness"]
    core.ensure_driver()
    drv = core.Driver("storage")
    h = fleet.make(w["backend"], chk.tmp)
    try:
        res = run_on(w["backend"], h, w["ops"], drv, 1.0, random.Random(0))
    finally:
        h.close()
        drv.close()
    if res and not res.get("ok"):
        print("REPRODUCED on %s at step %d: %s" % (w["backend"], res["step"], res["why"]))
        return 1
    print("not reproduced")
    return 0
