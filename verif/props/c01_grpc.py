"""C01, gRPC proxy at the wire level (called from verif/props/c01.py).

regenerate(chk)        T-grpc: lean/OptunaVerif/Generated/GrpcTables.lean from servicer.py / client.py / api.proto
correspond(chk, tier)  K, four streams, each against `driver proto` (lean/OptunaVerif/Model/Proto.lean):
  conv     random FrozenTrials through the real `_to_proto_trial` -> serialise -> parse -> `_from_proto_trial`:
           the wire message and the decoded trial vs the model; model-free oracle: decoded == original up to the
           stated normal form ([] -> None, dictionaries as dictionaries)
  enums    every TrialState / StudyDirection code through the real converters (directions through a live proxy)
  errors   every contract method x error class that can be provoked, on the backend directly and through a live
           in-process proxy over it (mem, SQLite, journal): the class seen by the caller vs `Proto.transport`
  proxy    histories with wire-sensitive arguments (values=[], NOT_SET, name '', conflicting templates) on live
           proxies, call by call against `Proto.proxyStep`
"""
from __future__ import annotations

import datetime
import json
import math
import random
import re
from typing import Any

from verif import core, fleet
from verif import storage_k as K
from verif.props import c01_grpc_gen as GEN
from verif.translators import tgrpc

PROPS_MODULE = "OptunaVerif.Props.C01Grpc"
RULE = (
    "conv: seeded FrozenTrials (all states, values None/[]/lists with NaN/inf, 16 distributions, odd attribute payloads and keys, "
    "int64-extreme steps) through the real _to_proto_trial/_from_proto_trial; non-trivial = some dictionary has >=2 entries or values "
    "in (None, []); errors: every contract method x provocable error class on mem/SQLite/journal directly and through a live proxy; "
    "proxy: seeded histories with wire-sensitive arguments against Proto.proxyStep, non-trivial = >=1 such argument"
)

def regenerate(chk: core.Check) -> dict[str, Any] | None:
    return tgrpc.regenerate(chk)


# ---------------------------------------------------------------------------------------------- helpers
def _cj(s: str) -> str:
    """canonical text of a JSON document"""
    return json.dumps(json.loads(s), sort_keys=True)


def _pairs_to_dict(pairs: list[list[Any]]) -> dict[str, Any]:
    d = {str(k): v for k, v in pairs}
    if len(d) != len(pairs):
        raise core.DriverBroken("model map with a repeated key: %s" % pairs)
    return d


def _dists_all() -> list[Any]:
    from optuna.distributions import CategoricalDistribution, FloatDistribution, IntDistribution

    return list(K.DISTS) + [
        FloatDistribution(-1e300, 1e300),
        FloatDistribution(5e-324, 1.0, log=True),
        IntDistribution(-(2 ** 53), 2 ** 53),
        IntDistribution(1, 1),
        CategoricalDistribution([float("inf"), -0.0, "", "ü"]),
        CategoricalDistribution([None]),
    ]


NAMES = ["p0", "p1", "x", "", "ünï", "z z", "a.b", "P0", "10", "9"]
ODD_ATTRS = K.ATTRS + [float("nan"), float("inf"), -0.0, 10 ** 30, 2 ** 63, {"1": {"2": []}}, [[], {}], "\u0000", "\ud800",
                       "a" * 300, {"k": (1, 2)}, [None, True, False], 1e-320]
STEPS = [-3, -1, 0, 1, 2, 5, 17, 2 ** 40, 2 ** 63 - 1, -(2 ** 63)]
IDS = [-1, 0, 1, 7, 2 ** 40]
XV = K.VALS + [float("nan"), 5e-324, -1.7976931348623157e308]


def ext_value(r: random.Random, d: Any) -> Any:
    from optuna.distributions import IntDistribution

    if isinstance(d, IntDistribution) and (d.high - d.low) // d.step > 1000:
        return r.choice([d.low, d.high, d.low + d.step * r.randrange((d.high - d.low) // d.step + 1)])
    return K.ext_value(r, d)


def gen_frozen(r: random.Random, dists: list[Any]) -> dict[str, Any]:
    vals_kind = r.choice(["none", "empty", "one", "one", "many"])
    values = None if vals_kind == "none" else [] if vals_kind == "empty" else [K.ftok(r.choice(XV)) for _ in range(1 if vals_kind == "one" else r.randint(2, 4))]
    params = {}
    for name in r.sample(NAMES, r.choice([0, 0, 1, 2, 3, 5])):
        d = r.choice(dists)
        params[name] = {"dist": d, "ext": ext_value(r, d)}

    def attrs() -> dict[str, Any]:
        return {k: r.choice(ODD_ATTRS) for k in r.sample(NAMES, r.choice([0, 0, 1, 2, 4]))}

    def dt() -> datetime.datetime | None:
        if r.random() < 0.35:
            return None
        return datetime.datetime(r.choice([1000, 1970, 2024, 9999]), r.randint(1, 12), r.randint(1, 28), r.randrange(24), r.randrange(60),
                                 r.randrange(60), r.choice([0, 1, 123456, 999999]))

    return {
        "id": r.choice(IDS), "number": r.choice(IDS), "state": r.randrange(5), "values": values, "params": params,
        "user": attrs(), "system": attrs(),
        "inter": {s: K.ftok(r.choice(XV)) for s in r.sample(STEPS, r.choice([0, 0, 1, 2, 4]))},
        "start": dt(), "complete": dt(),
    }


def build_frozen(f: dict[str, Any]) -> Any:
    from optuna.trial import FrozenTrial, TrialState

    return FrozenTrial(
        number=f["number"], trial_id=f["id"], state=TrialState(f["state"]), value=None,
        values=None if f["values"] is None else [K.untok(v) for v in f["values"]],
        datetime_start=f["start"], datetime_complete=f["complete"],
        params={n: p["ext"] for n, p in f["params"].items()}, distributions={n: p["dist"] for n, p in f["params"].items()},
        user_attrs=dict(f["user"]), system_attrs=dict(f["system"]),
        intermediate_values={int(s): K.untok(v) for s, v in f["inter"].items()},
    )


def frozen_to_driver(f: dict[str, Any]) -> dict[str, Any]:
    params = {n: dict(K.dist_enc(p["dist"]), internal=K.ftok(p["dist"].to_internal_repr(p["ext"]))) for n, p in f["params"].items()}
    return {
        "id": f["id"], "number": f["number"], "state": f["state"], "values": f["values"], "params": K.pairs(params),
        "user": K.pairs({k: K.atok(v) for k, v in f["user"].items()}), "system": K.pairs({k: K.atok(v) for k, v in f["system"].items()}),
        "inter": [[int(s), v] for s, v in f["inter"].items()], "start": f["start"] is not None, "complete": f["complete"] is not None,
    }


def canon_wire(p: Any) -> dict[str, Any]:
    return {
        "trial_id": p.trial_id, "number": p.number, "state": int(p.state), "values": [K.ftok(v) for v in p.values],
        "ds": p.datetime_start != "", "dc": p.datetime_complete != "",
        "params": {k: K.ftok(v) for k, v in p.params.items()}, "distributions": {k: _cj(v) for k, v in p.distributions.items()},
        "user": {k: _cj(v) for k, v in p.user_attributes.items()}, "system": {k: _cj(v) for k, v in p.system_attributes.items()},
        "inter": {str(k): K.ftok(v) for k, v in p.intermediate_values.items()},
    }


def canon_model_wire(w: dict[str, Any]) -> dict[str, Any]:
    return {
        "trial_id": w["trial_id"], "number": w["number"], "state": w["state"], "values": w["values"],
        "ds": w["datetime_start"] != "", "dc": w["datetime_complete"] != "",
        "params": _pairs_to_dict(w["params"]), "distributions": _pairs_to_dict(w["distributions"]),
        "user": _pairs_to_dict(w["user"]), "system": _pairs_to_dict(w["system"]), "inter": _pairs_to_dict(w["inter"]),
    }


def canon_decoded(t: Any) -> dict[str, Any]:
    c = K.canon_trial(t, t._trial_id)
    return c


def canon_model_decoded(d: dict[str, Any]) -> dict[str, Any]:
    return {
        "id": d["id"], "number": d["number"], "state": d["state"], "values": d["values"], "params": _pairs_to_dict(d["params"]),
        "user": _pairs_to_dict(d["user"]), "system": _pairs_to_dict(d["system"]), "inter": _pairs_to_dict(d["inter"]),
        "start": d["start"], "complete": d["complete"],
    }


def oracle_roundtrip(t: Any, b: Any) -> str | None:
    """Model-free: `b = _from_proto_trial(wire(_to_proto_trial(t)))` equals `t` up to the normal form."""
    if b._trial_id != t._trial_id or b.number != t.number:
        return "id/number %s/%s -> %s/%s" % (t._trial_id, t.number, b._trial_id, b.number)
    if b.state != t.state:
        return "state %s -> %s" % (t.state, b.state)
    tv = None if not t.values else [K.ftok(v) for v in t.values]
    bv = None if b.values is None else [K.ftok(v) for v in b.values]
    if tv != bv:
        return "values %s -> %s" % (t.values, b.values)
    if b.datetime_start != t.datetime_start or b.datetime_complete != t.datetime_complete:
        return "datetimes (%s, %s) -> (%s, %s)" % (t.datetime_start, t.datetime_complete, b.datetime_start, b.datetime_complete)
    if dict(b.distributions) != dict(t.distributions):
        return "distributions %s -> %s" % (t.distributions, b.distributions)
    if set(b.params) != set(t.params):
        return "param names %s -> %s" % (sorted(t.params), sorted(b.params))
    for n in t.params:
        d = t.distributions[n]
        if K.ftok(d.to_internal_repr(t.params[n])) != K.ftok(d.to_internal_repr(b.params[n])):
            return "param %r: %r -> %r" % (n, t.params[n], b.params[n])
    for what, x, y in (("user_attrs", t.user_attrs, b.user_attrs), ("system_attrs", t.system_attrs, b.system_attrs)):
        if {k: K.atok(v) for k, v in x.items()} != {k: K.atok(v) for k, v in y.items()}:
            return "%s %s -> %s" % (what, x, y)
    if {k: K.ftok(v) for k, v in t.intermediate_values.items()} != {k: K.ftok(v) for k, v in b.intermediate_values.items()}:
        return "intermediate values %s -> %s" % (t.intermediate_values, b.intermediate_values)
    return None


def _sig(kind: str, what: str) -> dict[str, Any]:
    return {"backend": "grpc-wire", "base": "wire", "op": what, "kind": kind}


# ---------------------------------------------------------------------------------------------- conv
def stream_conv(chk: core.Check, n: int) -> None:
    from optuna.storages._grpc import servicer as S
    from optuna.storages._grpc.auto_generated import api_pb2

    r = chk.rng
    dists = _dists_all()
    cases = [gen_frozen(r, dists) for _ in range(n)]
    # fixed corner cases first
    cases[0:0] = [
        {"id": -1, "number": -1, "state": 3, "values": [], "params": {}, "user": {}, "system": {}, "inter": {}, "start": None, "complete": None},
        {"id": 0, "number": 0, "state": 1, "values": None, "params": {}, "user": {}, "system": {}, "inter": {}, "start": None, "complete": None},
    ]
    reqs = [{"op": "trial", "frozen": frozen_to_driver(f)} for f in cases]
    resp = core.driver_batch(GEN.DRIVER, reqs)
    for q, m in zip(reqs, resp):
        GEN.take(m, q)  # T-grpc2: generated _to_proto_trial / _from_proto_trial side by side with the hand model
    hash_order = 0
    for f, m in zip(cases, resp):
        desc = frozen_to_driver(f)
        if "wire" not in m:
            chk.broke("correspondence", {"stream": "conv", "driver": m, "case": desc})
            return
        t = build_frozen(f)
        nontrivial = max(len(f["params"]), len(f["user"]), len(f["system"]), len(f["inter"])) >= 2 or f["values"] in ([], None)
        chk.case({"stream": "conv", "frozen": desc}, nontrivial=nontrivial)
        chk.count("conv:values=" + ("None" if f["values"] is None else "[]" if f["values"] == [] else "list"))
        chk.count("conv:state=%d" % f["state"])
        try:
            p = S._to_proto_trial(t)
            p2 = api_pb2.Trial()
            p2.ParseFromString(p.SerializeToString())
            b = S._from_proto_trial(p2)
        except Exception as e:  # noqa: BLE001
            chk.broke("correspondence", {"stream": "conv", "why": "real conversion raised %r, the model did not" % (e,), "case": desc})
            continue
        keys = list(p2.params)
        if len(keys) >= 3 and keys != list(t.params) and keys != sorted(keys):
            hash_order += 1
        # model-free oracle first: it must not depend on the model agreeing
        why = oracle_roundtrip(t, b)
        if why is not None:
            chk.violation(_sig("roundtrip", "_to_proto_trial/_from_proto_trial"), {"frozen": desc},
                          "a FrozenTrial does not survive the wire (beyond [] -> None and dictionary order): " + why)
        if m["wire"] is None:
            chk.broke("correspondence", {"stream": "conv", "why": "model: _to_proto_trial raises, real: it does not", "case": desc})
            continue
        rw, mw = canon_wire(p2), canon_model_wire(m["wire"])
        if rw != mw:
            chk.broke("correspondence", {"stream": "conv", "why": "wire message differs", "real": rw, "model": mw, "case": desc})
            continue
        if "err" in m["decoded"]:
            chk.broke("correspondence", {"stream": "conv", "why": "model: _from_proto_trial raises %s" % m["decoded"]["err"], "case": desc})
            continue
        rd, md = canon_decoded(b), canon_model_decoded(m["decoded"])
        if rd != md:
            chk.broke("correspondence", {"stream": "conv", "why": "decoded trial differs", "real": rd, "model": md, "case": desc})
    chk.extra["grpc_map_iteration_neither_insertion_nor_sorted"] = hash_order


# ---------------------------------------------------------------------------------------------- enums
def stream_enums(chk: core.Check, handles: dict[str, fleet.Handle]) -> None:
    from optuna.storages._grpc import servicer as S
    from optuna.study import StudyDirection
    from optuna.trial import TrialState

    reqs = [{"op": "state", "code": n} for n in range(8)]
    resp = core.driver_batch(GEN.DRIVER, reqs)
    for q, m in zip(reqs, resp):
        GEN.take(m, q)  # T-grpc2: generated state converters side by side
    for n, m in enumerate(resp):
        try:
            to = int(S._to_proto_trial_state(TrialState(n))) if n < 5 else None
        except ValueError:
            to = None
        try:
            fr = int(S._from_proto_trial_state(n))
        except ValueError:
            fr = None
        chk.case({"stream": "enums", "state": n}, nontrivial=n < 5)
        if {"to": to, "from": fr} != m:
            chk.broke("correspondence", {"stream": "enums", "state": n, "real": {"to": to, "from": fr}, "model": m})
        if n < 5 and (to is None or S._from_proto_trial_state(to) != TrialState(n)):
            chk.violation(_sig("roundtrip", "_to_proto_trial_state"), {"state": n}, "TrialState %d does not survive the wire" % n)
    h = handles["grpc(mem)"]
    resp = core.driver_batch(GEN.DRIVER, [{"op": "dir", "d": d} for d in (0, 1, 2)])
    for d, m in zip((0, 1, 2), resp):
        sid = h.storage.create_new_study([StudyDirection(d), StudyDirection(d)], "dir%d_%d" % (d, chk.seed))
        back = [int(x) for x in h.storage.get_study_directions(sid)]
        inner = [int(x) for x in h.inner.storage.get_study_directions(sid)]  # type: ignore[attr-defined]
        alls = [int(x) for fs in h.storage.get_all_studies() if fs._study_id == sid for x in fs.directions]
        chk.case({"stream": "enums", "direction": d}, nontrivial=True)
        if back != [m["back"]] * 2 or alls != back or inner != [m["back"]] * 2:
            chk.broke("correspondence", {"stream": "enums", "direction": d, "proxy": back, "get_all_studies": alls, "backend": inner, "model": m})
        if d != 0 and back != [d, d]:
            chk.violation(_sig("roundtrip", "direction"), {"direction": d}, "StudyDirection %d comes back as %s through the proxy" % (d, back))
        if d == 0:
            chk.extra["grpc_not_set_direction_comes_back_as"] = back


# ---------------------------------------------------------------------------------------------- errors
RPC_OF = {
    "create_new_study": "CreateNewStudy", "delete_study": "DeleteStudy", "set_study_user_attr": "SetStudyUserAttribute",
    "set_study_system_attr": "SetStudySystemAttribute", "get_study_id_from_name": "GetStudyIdFromName",
    "get_study_name_from_id": "GetStudyNameFromId", "get_study_directions": "GetStudyDirections",
    "get_study_user_attrs": "GetStudyUserAttributes", "get_study_system_attrs": "GetStudySystemAttributes",
    "create_new_trial": "CreateNewTrial", "set_trial_param": "SetTrialParameter",
    "get_trial_id_from_study_id_trial_number": "GetTrialIdFromStudyIdTrialNumber", "set_trial_state_values": "SetTrialStateValues",
    "set_trial_intermediate_value": "SetTrialIntermediateValue", "set_trial_user_attr": "SetTrialUserAttribute",
    "set_trial_system_attr": "SetTrialSystemAttribute", "get_trial": "GetTrial", "get_all_trials": "GetTrials",
    # BaseStorage defaults running in the client on top of an rpc
    "get_trial_number_from_id": "GetTrial", "get_trial_param": "GetTrial", "get_n_trials": "GetTrials", "get_best_trial": "GetTrials",
}


def _err_of(fn: Any) -> dict[str, Any]:
    try:
        fn()
    except Exception as e:  # noqa: BLE001 - the class is the observation
        name = K.err_name(e)
        code = None
        if name.startswith("other:") and hasattr(e, "code"):
            try:
                code = e.code().name
            except Exception:  # noqa: BLE001
                code = None
        return {"e": name, "code": code}
    return {"e": None, "code": None}


def error_scenarios(s: Any, tag: str) -> list[tuple[str, str, Any]]:
    """(method, provocation, thunk(storage)) — set-up is done through `s` (the backend itself); every thunk is
    an error case that leaves the state unchanged, so it can be run on the backend and then through the proxy."""
    from optuna.distributions import CategoricalDistribution, FloatDistribution
    from optuna.study import StudyDirection
    from optuna.trial import FrozenTrial, TrialState

    # the study / trial that will be deleted are created first, so that they are not the newest rows when they go
    # (SQLite hands the id of a deleted newest row out again: known finding F12)
    gone = s.create_new_study([StudyDirection.MINIMIZE], tag + "gone")
    gone_tid = s.create_new_trial(gone)
    sid = s.create_new_study([StudyDirection.MINIMIZE], tag + "a")
    sid2 = s.create_new_study([StudyDirection.MINIMIZE, StudyDirection.MAXIMIZE], tag + "multi")
    run = s.create_new_trial(sid)
    s.set_trial_param(run, "p", 0.5, FloatDistribution(0, 1))
    fin = s.create_new_trial(sid)
    s.set_trial_state_values(fin, TrialState.FAIL)
    done2 = s.create_new_trial(sid2)
    s.set_trial_state_values(done2, TrialState.COMPLETE, [1.0, 2.0])  # so that U3 (which of two errors) is not in play
    s.delete_study(gone)
    bad = 10 ** 6 + 17
    cat = CategoricalDistribution(["a", "b"])
    conflicting = FrozenTrial(number=-1, trial_id=-1, state=TrialState.RUNNING, value=None, datetime_start=None, datetime_complete=None,
                              params={"p": "a"}, distributions={"p": cat}, user_attrs={}, system_attrs={}, intermediate_values={})
    sc: list[tuple[str, str, Any]] = [
        ("create_new_study", "duplicate name", lambda x: x.create_new_study([StudyDirection.MINIMIZE], tag + "a")),
        ("get_study_id_from_name", "unknown name", lambda x: x.get_study_id_from_name(tag + "nobody")),
        ("create_new_trial", "conflicting template (U1)", lambda x: x.create_new_trial(sid, conflicting) and None),
        ("set_trial_param", "incompatible distribution", lambda x: x.set_trial_param(run, "p", 0.0, cat)),
        ("get_trial_id_from_study_id_trial_number", "unknown number", lambda x: x.get_trial_id_from_study_id_trial_number(sid, 99)),
        ("get_trial_param", "unknown parameter", lambda x: x.get_trial_param(run, "nope")),
        ("get_best_trial", "no complete trial", lambda x: x.get_best_trial(sid)),
        ("get_best_trial", "multi-objective", lambda x: x.get_best_trial(sid2)),
    ]
    for what, study in (("unknown study", bad), ("deleted study", gone)):
        sc += [
            ("delete_study", what, lambda x, i=study: x.delete_study(i)),
            ("set_study_user_attr", what, lambda x, i=study: x.set_study_user_attr(i, "k", 1)),
            ("set_study_system_attr", what, lambda x, i=study: x.set_study_system_attr(i, "k", 1)),
            ("get_study_name_from_id", what, lambda x, i=study: x.get_study_name_from_id(i)),
            ("get_study_directions", what, lambda x, i=study: x.get_study_directions(i)),
            ("get_study_user_attrs", what, lambda x, i=study: x.get_study_user_attrs(i)),
            ("get_study_system_attrs", what, lambda x, i=study: x.get_study_system_attrs(i)),
            ("create_new_trial", what, lambda x, i=study: x.create_new_trial(i)),
            ("get_trial_id_from_study_id_trial_number", what, lambda x, i=study: x.get_trial_id_from_study_id_trial_number(i, 0)),
            ("get_all_trials", what, lambda x, i=study: x.get_all_trials(i, deepcopy=False)),
            ("get_n_trials", what, lambda x, i=study: x.get_n_trials(i)),
            ("get_best_trial", what, lambda x, i=study: x.get_best_trial(i)),
        ]
    for what, tid in (("unknown trial", bad), ("trial of a deleted study", gone_tid), ("finished trial", fin)):
        sc += [
            ("set_trial_param", what, lambda x, i=tid: x.set_trial_param(i, "q", 0.5, FloatDistribution(0, 1))),
            ("set_trial_state_values", what, lambda x, i=tid: x.set_trial_state_values(i, TrialState.COMPLETE, [1.0])),
            ("set_trial_intermediate_value", what, lambda x, i=tid: x.set_trial_intermediate_value(i, 0, 1.0)),
            ("set_trial_user_attr", what, lambda x, i=tid: x.set_trial_user_attr(i, "k", 1)),
            ("set_trial_system_attr", what, lambda x, i=tid: x.set_trial_system_attr(i, "k", 1)),
        ]
        if what != "finished trial":
            sc += [
                ("get_trial", what, lambda x, i=tid: x.get_trial(i)),
                ("get_trial_number_from_id", what, lambda x, i=tid: x.get_trial_number_from_id(i)),
                ("get_trial_param", what, lambda x, i=tid: x.get_trial_param(i, "p")),
            ]
    return sc


CLIENT_SIDE = {("get_trial_param", "unknown parameter"), ("get_best_trial", "no complete trial"), ("get_best_trial", "multi-objective")}


def stream_errors(chk: core.Check, handles: dict[str, fleet.Handle]) -> None:
    matrix: dict[str, dict[str, str]] = {}
    u1_seen: list[str] = []
    for cfg, h in handles.items():
        inner = h.inner.storage  # type: ignore[attr-defined]
        try:
            scen = error_scenarios(inner, "err%d_%s_" % (chk.seed, re.sub(r"\W", "", cfg)))
        except Exception as e:  # noqa: BLE001 - the BACKEND refused a plain, valid set-up call: a broken tie, not an infrastructure failure
            chk.broke("correspondence", {"stream": "grpc-errors", "backend": cfg, "why": "set-up of the error scenarios raised %s: %s on the inner storage" % (type(e).__name__, str(e)[:200])})
            continue
        asks, rows = [], []
        for method, what, thunk in scen:
            a = _err_of(lambda: thunk(inner))
            b = _err_of(lambda: thunk(h.storage))
            rows.append((method, what, a, b))
            if a["e"] in ("KeyError", "DuplicatedStudyError", "UpdateFinishedTrialError", "ValueError", "RuntimeError") and (method, what) not in CLIENT_SIDE:
                asks.append({"op": "transport", "rpc": RPC_OF[method], "err": a["e"]})
            else:
                asks.append({"op": "state", "code": 0})  # placeholder, keeps the lists aligned
        resp = core.driver_batch(GEN.DRIVER, asks)
        for (method, what, a, b), ask, m in zip(rows, asks, resp):
            case = {"stream": "errors", "cfg": cfg, "method": method, "provocation": what}
            chk.case(case, nontrivial=a["e"] is not None)
            chk.count("errors:%s:%s" % (method, a["e"]))
            matrix.setdefault(method, {})[str(a["e"])] = str(b["e"]) if b["code"] is None else "%s(%s)" % (b["e"], b["code"])
            if a["e"] is None:
                # this backend does not raise here (U1: only SQLite rejects the template) - then the proxy must not either
                if b["e"] is not None:
                    chk.violation({"backend": cfg, "base": h.base, "op": method, "kind": "error-class"}, case,
                                  "%s over %s raises %s where the backend itself raises nothing (%s)" % (method, cfg, b["e"], what))
                continue
            if ask["op"] == "transport":
                pred = m["caller"]
                seen = {"k": "err", "e": b["e"]} if b["code"] is None else {"k": "rpcError", "code": b["code"]}
                if b["e"] is None:
                    seen = {"k": "no exception"}
                if pred != seen:
                    chk.broke("correspondence", {"stream": "errors", "case": case, "backend_raised": a["e"], "proxy_raised": seen, "model": pred})
            if method == "get_best_trial" and {a["e"], b["e"]} <= {"ValueError", "RuntimeError"}:
                continue  # U3: which of the two applicable errors wins is unspecified
            if (method, what, cfg) == ("create_new_trial", "conflicting template (U1)", "grpc(rdb)"):
                # the pair that CreateNewTrial used to lose: it must be provoked here (SQLite rejects the template) ...
                if a["e"] != "ValueError":
                    chk.broke("correspondence", {"stream": "errors", "case": case, "why": "SQLite no longer rejects the conflicting template (%s): the "
                                                 "create_new_trial/ValueError pair is not exercised" % a["e"]})
                u1_seen.append("%s -> %s" % (a["e"], b["e"] if b["code"] is None else "%s(%s)" % (b["e"], b["code"])))
            if a["e"] != b["e"]:
                # ... and, like every other pair, arrive as the same class
                entry = dict(case, backend=a["e"], proxy=b["e"], code=b["code"])
                chk.violation({"backend": cfg, "base": h.base, "op": method, "kind": "error-class"}, entry,
                              "%s: the backend raises %s, the proxy over it raises %s%s (%s)" % (
                                  method, a["e"], b["e"], "" if b["code"] is None else " code=%s" % b["code"], what))
    chk.extra["grpc_error_matrix_backend_to_proxy"] = matrix
    chk.extra["grpc_create_new_trial_value_error_backend_to_proxy"] = u1_seen


# ---------------------------------------------------------------------------------------------- proxy histories
def _wire_sensitive(r: random.Random, g: K.Gen, op: dict[str, Any]) -> dict[str, Any]:
    from optuna.distributions import distribution_to_json

    k = op["op"]
    if k == "setTrialStateValues" and op["state"] != 1 and r.random() < 0.3:
        op["values"] = []
    elif k == "createTrial" and op.get("tmpl") is not None:
        t = op["tmpl"]
        if t["state"] != 1 and r.random() < 0.3:
            t["values"] = []
        if r.random() < 0.15:
            d = r.choice(K.DISTS)  # possibly conflicting with the study's family for this name (U1)
            t["params"]["p%d" % r.randrange(g.npar)] = {"dist": distribution_to_json(d), "ext": K.ext_value(r, d)}
        for _ in range(r.randrange(3)):
            t["user"]["u%d" % r.randrange(6)] = r.choice(K.ATTRS)
    elif k == "createStudy":
        if r.random() < 0.2:
            op["dirs"] = [r.choice([0, 1, 2]) for _ in op["dirs"]]
        if r.random() < 0.1:
            op["name"] = ""
    return op


def _obs_to_pout(obs: dict[str, Any]) -> dict[str, Any]:
    if obs.get("k") == "err" and str(obs.get("e", "")).startswith("other:") and "RpcError" in obs["e"]:
        m = re.search(r"StatusCode\.(\w+)", obs.get("msg", ""))
        return {"k": "rpcError", "code": m.group(1) if m else "?"}
    return obs


def run_proxy_history(cfg: str, h: fleet.Handle, r: random.Random, drv: core.Driver, n_ops: int, tag: str) -> dict[str, Any]:
    drv.ask({"op": "reset"})
    pre = {fs._study_id for fs in h.storage.get_all_studies()}
    ex = K.Exec(h.storage, ignore_studies=pre)
    g = K.Gen(r, max_trials=8)
    stats = {"wire_sensitive": 0, "ops": 0}
    for i in range(n_ops):
        op = _wire_sensitive(r, g, g.next(multi_objective=True))
        if op["op"] in ("createStudy", "getStudyIdFromName") and op["name"] != "":
            op["name"] = tag + op["name"]
        if (op["op"] == "setTrialStateValues" and op["values"] == []) or (op["op"] == "createStudy" and (0 in op["dirs"] or op["name"] == "")) \
                or (op["op"] == "createTrial" and op.get("tmpl") and op["tmpl"]["values"] == []):
            stats["wire_sensitive"] += 1
        try:
            obs = _obs_to_pout(ex.run(op))
        except K.IdReuse:
            return {"ok": True, "stats": stats, "skipped": "id reuse (F12)"}
        uuid = "uuid"
        if op["op"] == "createStudy" and op["name"] == "" and obs.get("k") == "id":
            real_name = h.storage.get_study_name_from_id(ex.rs(obs["n"]))
            if not real_name.startswith("no-name-"):
                return {"step": i, "op": op, "why": "an empty study name became %r" % real_name, "stats": stats}
            uuid = real_name[len("no-name-"):]
        raised = obs.get("k") == "err" and obs.get("e") == "ValueError"
        mutating = op["op"] in K.MUTATING
        dump = mutating and (r.random() < 0.3 or i == n_ops - 1)
        req = dict(K.to_driver(op, impl_raised=raised, dump=dump), uuid=uuid)
        resp = drv.ask(req)
        if "out" not in resp:
            raise core.DriverBroken("driver proto: %s on %s" % (resp, req))
        GEN.take(resp, req)  # T-grpc2: generated client + servicer + converters side by side with Proto.proxyStep
        g.feedback(op, resp["out"])
        stats["ops"] += 1
        mo = resp["out"]
        why = K.compare_out(mo, obs)
        if why is not None and op["op"] == "getBestTrial" and mo.get("k") == "err" and obs.get("k") == "err" \
                and {mo["e"], obs["e"]} <= {"ValueError", "RuntimeError"}:
            why = None  # U3
        if why is not None:
            return {"step": i, "op": op, "why": why, "stats": stats}
        if dump:
            real, model = ex.dump(), K.strip_model(resp["state"])
            if real != model:
                return {"step": i, "op": op, "stats": stats,
                        "why": "readable state differs: model %s / proxy %s" % (json.dumps(model, sort_keys=True)[:500], json.dumps(real, sort_keys=True)[:500])}
    return {"ok": True, "stats": stats}


def stream_proxy(chk: core.Check, handles: dict[str, fleet.Handle], n_hist: int, n_ops: tuple[int, int]) -> None:
    drv = core.Driver(GEN.DRIVER)
    try:
        for cfg, h in handles.items():
            for i in range(n_hist):
                seed = chk.rng.randrange(2 ** 32)
                r = random.Random(seed)
                n = r.randint(*n_ops)
                res = run_proxy_history(cfg, h, r, drv, n, "px%d_%d_%d_" % (chk.seed, i, seed % 1000))
                chk.case({"stream": "proxy", "cfg": cfg, "seed": seed, "n_ops": n}, nontrivial=res.get("stats", {}).get("wire_sensitive", 0) >= 1)
                chk.count("proxy-histories:" + cfg)
                chk.traces_validated += 1
                if not res.get("ok"):
                    # the model of the proxy and the proxy disagree; whether the *contract* is violated is decided by the
                    # call-by-call comparison with Storage.step in c01.correspond (same configurations)
                    chk.broke("correspondence", {"stream": "proxy", "cfg": cfg, "seed": seed, "step": res.get("step"), "op": res.get("op"), "why": res.get("why")})
                    break
    finally:
        drv.close()


# ---------------------------------------------------------------------------------------------- entry
def correspond(chk: core.Check, tier: str) -> None:
    quick = tier == "quick"
    core.ensure_driver()
    cfgs = ["grpc(mem)", "grpc(rdb)", "grpc(journal)"]
    handles: dict[str, fleet.Handle] = {}
    try:
        for c in cfgs:
            handles[c] = fleet.make(c, chk.tmp)
        stream_conv(chk, 400 if quick else 6000)
        stream_enums(chk, handles)
        stream_errors(chk, handles)
        stream_proxy(chk, handles if not quick else {c: handles[c] for c in cfgs[:2]}, 8 if quick else 60, (10, 40) if quick else (10, 120))
        GEN.differential(chk, 60 if quick else 600)  # T-grpc2: synthetic histories / converter / ladder probes, generated vs hand
    except core.DriverBroken as e:
        chk.broke("correspondence", {"driver proto": str(e)[:800]})
    finally:
        for h in handles.values():
            h.close()
    GEN.report(chk)  # generated-vs-hand disagreements, after the property oracles
    chk.assumptions += [
        "gRPC wire model: attribute payloads, distribution json and doubles are opaque tokens handed through unchanged; datetimes "
        "are present/absent in the model (their text round trip is checked by the model-free oracle for years 1000-9999, naive)",
        "GrpcClientCache is Model/Cache.lean (C08); the wire model's get_all_trials is the cold request",
    ]
