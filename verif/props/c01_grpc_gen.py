"""C01, gRPC layer, translator tie T-grpc2: the METHOD BODIES of servicer.py / client.py as written today -> Lean data
(Generated/GrpcMethods.lean) -> interpreted by Model/GrpcIR.lean -> proved equal to the wire model (Props/C01GrpcGen.lean).

regenerate(chk)   run verif/translators/tgrpc2.py on core.REPO, write lean/OptunaVerif/Generated/GrpcMethods.lean (only when the text
                  changed), record what was read in chk.translated / chk.extra["grpc_ir"], report every method outside the whitelist as
                  chk.broke("translation", …) (it is written as the stub `.unrep`, so the theorem naming it fails).  Call it BEFORE
                  chk.prove([... MODULE]).
MODULES           ["OptunaVerif.Props.C01GrpcGen", "OptunaVerif.Props.C01GrpcGenSpec"] (prove both)
explain_proof_failure(chk)   after chk.prove failed: the declarations of Props/C01GrpcGen.lean whose proof no longer checks
                  -> chk.extra["c01grpcgen_failed"] + broke("proof")
DRIVER            "protogen": the protocol of `proto`, plus the interpreter of the generated bodies run side by side with the hand
                  model on every storage op / "trial" / "state" (field "gen" of the answer; null = agree)
take(resp, what)  pop the "gen" field of an answer and remember a disagreement (reported by report(chk) AFTER the property oracles)
differential(chk, n)   synthetic histories + converter probes + the ladder probe through `driver protogen`, no live server needed
report(chk)       chk.broke("correspondence", …) for the remembered disagreements

Used by verif/props/c01.py and verif/props/c01_grpc.py (helper module, like c01_inmem_gen.py / c08_gen.py).
"""
from __future__ import annotations

import os
import random
import re
from typing import Any

from verif import core
from verif import storage_k as K
from verif.translators import tgrpc2

OUT = tgrpc2.OUT
MODULE = "OptunaVerif.Props.C01GrpcGen"
# the theorems of Props/C01Grpc.lean restated for the generated bodies (imports both; MODULE itself does not import Props/C01Grpc)
SPEC_MODULE = "OptunaVerif.Props.C01GrpcGenSpec"
COMPOSE_MODULE = "OptunaVerif.Props.C01GrpcCompose"  # the proxy over ANY refining backend; instance: generated in-memory methods
MODULES = [MODULE, SPEC_MODULE, COMPOSE_MODULE]
DRIVER = "protogen"

_pending: list[dict[str, Any]] = []
_seen = {"answers": 0}


def regenerate(chk: core.Check | None = None) -> dict[str, Any] | None:
    try:
        text, info, problems = tgrpc2.translate(core.REPO)
    except (tgrpc2.Untranslatable, SyntaxError, OSError) as e:
        if chk is None:
            raise
        chk.broke("translation", {"translator": "T-grpc2", "why": str(e)[:600]})
        return None
    changed = core.write_if_changed(OUT, text)
    if chk is not None:
        ns, nc, nv = sum(info["servicer"].values()), sum(info["client"].values()), sum(info["converters"].values())
        chk.translated.append("GrpcMethods: %d/%d rpc methods of OptunaStorageProxyService, %d/%d methods of GrpcStorageProxy / "
                              "GrpcClientCache, %d/%d converter functions as IR; __getstate__ drops %s, __setstate__ rebuilds %s%s" % (
                                  ns, len(info["servicer"]), nc, len(info["client"]), nv, len(info["converters"]),
                                  info["pickle"]["dropped"], info["pickle"]["rebuilt"], " (file changed)" if changed else ""))
        chk.extra["grpc_ir"] = {"servicer": info["servicer"], "client": info["client"], "converters": info["converters"],
                                "pickle": info["pickle"]}
        for p in problems:
            chk.broke("translation", dict(p, translator="T-grpc2"))
        a = ("T-grpc2: json.dumps/json.loads, distribution_to_json/json_to_distribution, to_internal_repr/to_external_repr are the identity "
             "on tokens (C11); strftime/strptime with DATETIME_FORMAT keep present/absent; list/set/str/copy.deepcopy are the identity; "
             "TypeError / AttributeError / AssertionError are one coarse class no clause catches; GrpcClientCache beyond the wire half of "
             "_read_trials_from_remote_storage is C08's (Props/C08Gen.lean); the four BaseStorage defaults running in the client are "
             "the hand model's (read from _base.py by T-inmem / T-best)")
        if a not in chk.assumptions:
            chk.assumptions.append(a)
    return info


def explain_proof_failure(chk: core.Check) -> list[str]:
    pr = chk.proof
    if pr is None or pr.ok:
        return []
    names: list[str] = []
    for mod in MODULES:
        rel = mod.replace("OptunaVerif.", "").replace(".", "/") + ".lean"
        lines = sorted({int(m.group(1)) for m in re.finditer(r"error: [^\n]*?" + re.escape(rel) + r":(\d+):\d+", pr.build_log)}
                       | {int(m.group(1)) for m in re.finditer(re.escape(rel) + r":(\d+):\d+: error", pr.build_log)})
        if not lines:
            continue
        src = open(os.path.join(core.LEAN_DIR, mod.replace(".", "/") + ".lean")).read().splitlines()
        for ln in lines:
            for i in range(min(ln, len(src)) - 1, -1, -1):
                m = re.match(r"\s*(?:theorem|def|example)\b\s*([^\s:(]*)", src[i])
                if m:
                    name = m.group(1) or ("example at line %d: %s" % (i + 1, src[i].strip()[:90]))
                    if name not in names:
                        names.append(name)
                    break
    if names:
        chk.extra["c01grpcgen_failed"] = names
        chk.broke("proof", {"module": MODULE, "generated_grpc_methods_no_longer_equal_wire_model": names})
    return names


def take(resp: Any, what: Any) -> None:
    """pop "gen" from an answer of `driver protogen`; remember a disagreement"""
    if not isinstance(resp, dict) or "gen" not in resp:
        return
    g = resp.pop("gen")
    _seen["answers"] += 1
    if g is not None and len(_pending) < 50:
        _pending.append({"input": what, "gen": g})


def report(chk: core.Check) -> None:
    chk.extra["grpc_gen_side_by_side_answers"] = chk.extra.get("grpc_gen_side_by_side_answers", 0) + _seen["answers"]
    _seen["answers"] = 0
    seen_kinds: set[str] = set()
    for d in _pending:
        kind = str(d["gen"].get("what")) + "/" + str((d["input"] or {}).get("op"))
        if kind in seen_kinds:
            continue
        seen_kinds.add(kind)
        chk.broke("correspondence", {"translator": "T-grpc2", "why": "the interpreter of the generated gRPC bodies and the hand wire model "
                                     "(Model/Proto.lean) disagree", "input": d["input"], "generated": d["gen"].get("generated"),
                                     "hand": d["gen"].get("hand"), "what": d["gen"].get("what")})
    del _pending[:]


# ---- differential on synthetic histories (model only) -------------------------------------------------------------------
def differential(chk: core.Check, n_hist: int, n_ops: tuple[int, int] = (10, 45)) -> None:
    from verif.props import c01_grpc  # noqa: PLC0415  (circular at import time)

    core.ensure_driver()
    drv = core.Driver(DRIVER)
    r = random.Random(chk.seed * 1009 + 17)
    n_calls = 0
    try:
        for i in range(n_hist):
            drv.ask({"op": "reset"})
            g = K.Gen(r, max_trials=8)
            for _ in range(r.randint(*n_ops)):
                op = c01_grpc._wire_sensitive(r, g, g.next(multi_objective=True))
                req = dict(K.to_driver(op, impl_raised=r.random() < 0.3), uuid="u%d" % i)
                resp = drv.ask(req)
                if "out" not in resp:
                    raise core.DriverBroken("driver protogen: %s on %s" % (resp, req))
                take(resp, req)
                g.feedback(op, resp["out"])
                n_calls += 1
    finally:
        drv.close()
    dists = c01_grpc._dists_all()
    reqs = [{"op": "trial", "frozen": c01_grpc.frozen_to_driver(c01_grpc.gen_frozen(r, dists))} for _ in range(40 * max(1, n_hist // 10))]
    reqs += [{"op": "state", "code": n} for n in range(8)]
    for q, m in zip(reqs, core.driver_batch(DRIVER, reqs)):
        take(m, q)
    # the ladders read off the generated bodies vs the table functions of the hand model
    probes = [{"op": "ladder", "rpc": rpc, "err": e} for rpc in tgrpc2.T.RPCS
              for e in ("KeyError", "DuplicatedStudyError", "UpdateFinishedTrialError", "ValueError", "RuntimeError")]
    for q, m in zip(probes, core.driver_batch(DRIVER, probes)):
        _seen["answers"] += 1
        if m.get("status") != m.get("hand") and len(_pending) < 50:
            _pending.append({"input": q, "gen": {"what": "servicer ladder", "generated": m.get("status"), "hand": m.get("hand")}})
    chk.extra["grpc_gen_differential"] = {"histories": n_hist, "calls": n_calls, "converter_probes": len(reqs), "ladder_probes": len(probes)}
