"""C01, in-memory refinement tie.

`Props/C01InMem.lean` proves that the implementation-shaped model `Model/InMemory.lean` refines the
storage contract for every history.  This module ties that model to `optuna/storages/_in_memory.py`:
generated C01 histories are replayed on a real `InMemoryStorage` and on the compiled model
(`driver inmemory`) in lockstep, with the *real* ids, and after every call the OUTPUT and the PRIVATE
FIELDS (`_max_study_id`, `_max_trial_id`, `_trial_id_to_study_id_and_number`, `_study_name_to_id`,
`_prev_waiting_trial_number`, and per `_StudyInfo`: the stored trials with their `_trial_id`s,
`best_trial_id`, `param_distribution`, name, directions, attrs) are compared.

A private attribute that no longer exists is dropped from the comparison (recorded, not alarmed).
Any difference is `broke("correspondence")`: whether the real storage departs from the *contract*
is decided by `c01.py` (real storage vs contract model), not here.
"""
from __future__ import annotations

import json
import random
from typing import Any

from optuna.distributions import json_to_distribution
from optuna.storages import InMemoryStorage
from optuna.study import StudyDirection
from optuna.trial import TrialState

import optuna

from verif import core
from verif import storage_k as K
from verif.props import c01_inmem_gen

optuna.logging.set_verbosity(optuna.logging.ERROR)

MISSING = object()

RULE_INMEM = (
    "in-memory refinement tie: C01 histories (same generator; second family with <=2 studies/<=14 trials; third "
    "family with off-contract writes: directions [] / NOT_SET / 3 entries, COMPLETE with values None / [] / NaN / two "
    "values) replayed on a real InMemoryStorage and on Model/InMemory.lean with the real ids; output and every "
    "private field compared after every call"
)


# ---- histories ---------------------------------------------------------------------------------
def gen_history(r: random.Random, drv: core.Driver, n_ops: int, **gen_kw: Any) -> list[dict[str, Any]]:
    """A history in canonical ids (creation order), generated against the contract driver."""
    drv.ask({"op": "reset"})
    g = K.Gen(r, **gen_kw)
    ops = []
    for _ in range(n_ops):
        op = g.next(multi_objective=True)
        resp = drv.ask(K.to_driver(op))
        if resp.get("k") in ("bad-op", "bad-json"):
            raise core.DriverBroken("driver rejected %s: %s" % (op, resp))
        g.feedback(op, resp["out"])
        ops.append(op)
    return ops


def off_contract(r: random.Random, ops: list[dict[str, Any]]) -> list[dict[str, Any]]:
    """Turn some writes of a history into ones the contract's clients never issue (the model must still
    follow the code: state effect, and the error class up to IndexError/AssertionError ~ RuntimeError)."""
    out = []
    for op in ops:
        op = dict(op)
        if op["op"] == "createStudy" and r.random() < 0.35:
            op["dirs"] = r.choice([[], [0], [1, 1, 2], [2, 0]])
        elif op["op"] == "setTrialStateValues" and op["state"] == 1 and r.random() < 0.5:
            op["values"] = r.choice([None, [], ["nan"], ["1/1", "2/1"], ["nan", "0/1"]])
        elif op["op"] == "createTrial" and op.get("tmpl") and op["tmpl"]["state"] == 1 and r.random() < 0.5:
            op["tmpl"] = dict(op["tmpl"], values=r.choice([None, [], ["nan"], ["1/1", "2/1"]]))
        out.append(op)
    return out


# ---- the real storage, with its own ids --------------------------------------------------------
def _states(op: dict[str, Any]) -> Any:
    st = op.get("states")
    return None if st is None else tuple(TrialState(x) for x in st)


def real_call(s: InMemoryStorage, ex: K.Exec, op: dict[str, Any]) -> dict[str, Any]:
    """Execute one op whose ids are the storage's own; the observation in the driver's `out` shape."""
    k = op["op"]
    ct = lambda t: K.canon_trial(t, t._trial_id)  # noqa: E731
    try:
        if k == "createStudy":
            return {"k": "id", "n": s.create_new_study([StudyDirection(d) for d in op["dirs"]], op["name"])}
        if k == "deleteStudy":
            s.delete_study(op["sid"])
            return {"k": "unit"}
        if k == "setStudyUserAttr":
            s.set_study_user_attr(op["sid"], op["k"], json.loads(json.dumps(op["v"])))
            return {"k": "unit"}
        if k == "setStudySystemAttr":
            s.set_study_system_attr(op["sid"], op["k"], json.loads(json.dumps(op["v"])))
            return {"k": "unit"}
        if k == "createTrial":
            tmpl = None if op.get("tmpl") is None else ex.build_template(op["tmpl"])
            return {"k": "id", "n": s.create_new_trial(op["sid"], tmpl)}
        if k == "setTrialParam":
            s.set_trial_param(op["tid"], op["name"], K.untok(op["internal"]), json_to_distribution(op["dist"]))
            return {"k": "unit"}
        if k == "setTrialStateValues":
            vals = None if op["values"] is None else [K.untok(v) for v in op["values"]]
            return {"k": "bool", "b": bool(s.set_trial_state_values(op["tid"], TrialState(op["state"]), vals))}
        if k == "setTrialInter":
            s.set_trial_intermediate_value(op["tid"], op["step"], K.untok(op["v"]))
            return {"k": "unit"}
        if k == "setTrialUserAttr":
            s.set_trial_user_attr(op["tid"], op["k"], json.loads(json.dumps(op["v"])))
            return {"k": "unit"}
        if k == "setTrialSystemAttr":
            s.set_trial_system_attr(op["tid"], op["k"], json.loads(json.dumps(op["v"])))
            return {"k": "unit"}
        if k == "getStudyIdFromName":
            return {"k": "nat", "n": s.get_study_id_from_name(op["name"])}
        if k == "getStudyNameFromId":
            return {"k": "str", "s": s.get_study_name_from_id(op["sid"])}
        if k == "getStudyDirections":
            return {"k": "nats", "l": [int(d.value) for d in s.get_study_directions(op["sid"])]}
        if k == "getStudyUserAttrs":
            return {"k": "attrs", "v": {a: K.atok(v) for a, v in s.get_study_user_attrs(op["sid"]).items()}}
        if k == "getStudySystemAttrs":
            return {"k": "attrs", "v": {a: K.atok(v) for a, v in s.get_study_system_attrs(op["sid"]).items()}}
        if k == "getAllStudies":
            return {"k": "studies", "l": [K.canon_study(fs, fs._study_id) for fs in s.get_all_studies()]}
        if k == "getTrialIdFromNumber":
            return {"k": "nat", "n": s.get_trial_id_from_study_id_trial_number(op["sid"], op["number"])}
        if k == "getTrialNumberFromId":
            return {"k": "nat", "n": s.get_trial_number_from_id(op["tid"])}
        if k == "getTrialParam":
            return {"k": "str", "s": K.ftok(s.get_trial_param(op["tid"], op["name"]))}
        if k == "getTrial":
            return {"k": "trial", "t": ct(s.get_trial(op["tid"]))}
        if k == "getAllTrials":
            return {"k": "trials", "l": [ct(t) for t in s.get_all_trials(op["sid"], deepcopy=False, states=_states(op))]}
        if k == "getNTrials":
            return {"k": "nat", "n": s.get_n_trials(op["sid"], _states(op))}
        if k == "getBestTrial":
            return {"k": "trial", "t": ct(s.get_best_trial(op["sid"]))}
    except Exception as e:  # noqa: BLE001 - the class of the error is the observation
        return {"k": "err", "e": K.err_name(e), "msg": str(e)[:120]}
    raise ValueError("unknown op %r" % k)


def internals(s: InMemoryStorage) -> tuple[dict[str, Any], set[str]]:
    """The Python view of the private fields, in the shape of the sub-driver's `state`; plus the
    names of the fields that do not exist (any more) and are therefore not compared."""
    out: dict[str, Any] = {}
    dropped: set[str] = set()

    def attr(obj: Any, name: str, key: str) -> Any:
        v = getattr(obj, name, MISSING)
        if v is MISSING:
            dropped.add(key)
        return v

    v = attr(s, "_max_study_id", "max_study_id")
    if v is not MISSING:
        out["max_study_id"] = v
    v = attr(s, "_max_trial_id", "max_trial_id")
    if v is not MISSING:
        out["max_trial_id"] = v
    v = attr(s, "_trial_id_to_study_id_and_number", "tid_map")
    if v is not MISSING:
        out["tid_map"] = {str(tid): [p[0], p[1]] for tid, p in v.items()}
    v = attr(s, "_study_name_to_id", "name_to_id")
    if v is not MISSING:
        out["name_to_id"] = dict(v)
    v = attr(s, "_prev_waiting_trial_number", "prev_waiting")
    if v is not MISSING:
        out["prev_waiting"] = {str(k): n for k, n in v.items()}
    studies = attr(s, "_studies", "studies")
    if studies is not MISSING:
        l = []
        for sid, info in studies.items():
            d: dict[str, Any] = {"id": sid}
            for name, key, f in [
                ("name", "name", lambda x: x),
                ("directions", "dirs", lambda x: [int(y.value) for y in x]),
                ("user_attrs", "user", lambda x: {a: K.atok(b) for a, b in x.items()}),
                ("system_attrs", "system", lambda x: {a: K.atok(b) for a, b in x.items()}),
                ("best_trial_id", "best", lambda x: x),
                ("param_distribution", "param_distribution", lambda x: {a: K.dist_body(b) for a, b in x.items()}),
            ]:
                w = attr(info, name, "studies." + key)
                if w is not MISSING:
                    d[key] = f(w)
            w = attr(info, "trials", "studies.trials")
            if w is not MISSING:
                d["trial_ids"] = [t._trial_id for t in w]
                d["trials"] = [K.canon_trial(t, t._trial_id) for t in w]
            l.append(d)
        out["studies"] = l
    return out, dropped


def model_view(state: dict[str, Any], dropped: set[str]) -> dict[str, Any]:
    """The sub-driver's `state` brought to the shape of `internals` (dicts unordered, model-only
    fields and the fields the implementation no longer has removed)."""
    st = K.strip_model(state)
    out: dict[str, Any] = {
        "max_study_id": st["max_study_id"],
        "max_trial_id": st["max_trial_id"],
        "tid_map": {str(a): [b, c] for a, b, c in st["tid_map"]},
        "name_to_id": {a: b for a, b in st["name_to_id"]},
        "prev_waiting": {str(a): b for a, b in st["prev_waiting"]},
        "studies": [dict(x, param_distribution={a: b for a, b in x["param_distribution"]}) for x in st["studies"]],
    }
    for key in dropped:
        if key.startswith("studies."):
            f = key.split(".", 1)[1]
            for x in out.get("studies", []):
                x.pop(f, None)
                if f == "trials":
                    x.pop("trial_ids", None)
        else:
            out.pop(key, None)
    return out


COARSE = {"other:IndexError": "RuntimeError", "other:AssertionError": "RuntimeError", "other:TypeError": "RuntimeError"}


def first_diff(a: Any, b: Any, path: str = "") -> str:
    if type(a) is not type(b):
        return "%s: model %s / implementation %s" % (path or ".", json.dumps(a, sort_keys=True)[:200], json.dumps(b, sort_keys=True, default=str)[:200])
    if isinstance(a, dict):
        for k in sorted(set(a) | set(b)):
            if k not in a or k not in b:
                return "%s.%s: only in %s" % (path, k, "model" if k in a else "implementation")
            if a[k] != b[k]:
                return first_diff(a[k], b[k], "%s.%s" % (path, k))
    if isinstance(a, list):
        if len(a) != len(b):
            return "%s: lengths %d (model) / %d (implementation)" % (path, len(a), len(b))
        for i, (x, y) in enumerate(zip(a, b)):
            if x != y:
                return first_diff(x, y, "%s[%d]" % (path, i))
    return "%s: model %s / implementation %s" % (path or ".", json.dumps(a, sort_keys=True)[:200], json.dumps(b, sort_keys=True, default=str)[:200])


def run_history(ops: list[dict[str, Any]], drv: core.Driver, coarse_errors: bool = False) -> dict[str, Any]:
    """Lockstep replay.  `ops` use canonical ids; both sides are called with the real ones."""
    drv.ask({"op": "reset"})
    s = InMemoryStorage()
    ex = K.Exec(s)  # only for build_template
    s2r: list[int] = []
    t2r: list[int] = []
    dropped_all: set[str] = set()
    stats = {"steps": 0, "burnt": 0, "cursor_moves": 0, "best_changes": 0, "faults": 0}
    gen: Any = None  # first call on which the interpreter of the GENERATED methods and the hand model differ (driver `inmemorygen`)
    last_prev: Any = None
    last_best: Any = None
    for i, cop in enumerate(ops):
        op = dict(cop)
        if "sid" in op:
            op["sid"] = s2r[op["sid"]] if op["sid"] < len(s2r) else K.UNKNOWN_ID + op["sid"]
        if "tid" in op:
            op["tid"] = t2r[op["tid"]] if op["tid"] < len(t2r) else K.UNKNOWN_ID + op["tid"]
        obs = real_call(s, ex, op)
        resp = drv.ask(K.to_driver(op))
        if "out" not in resp:
            raise core.DriverBroken("driver inmemory: %s on %s" % (resp, op))
        if gen is None and c01_inmem_gen.gen_disagreement(resp) is not None:
            gen = {"step": i, "op": op, "diff": c01_inmem_gen.gen_disagreement(resp)}
        mo = K.strip_model(resp["out"])
        o = {k: v for k, v in obs.items() if k != "msg"}
        if coarse_errors and o.get("k") == "err":
            o["e"] = COARSE.get(o["e"], o["e"])
            if obs["e"] in COARSE:
                stats["faults"] += 1
        stats["steps"] += 1
        if mo != o:
            return {"step": i, "op": op, "kind": "output", "gen": gen,
                    "why": "output: model %s / InMemoryStorage %s" % (json.dumps(mo, sort_keys=True)[:300], json.dumps(obs, sort_keys=True)[:300])}
        real, dropped = internals(s)
        dropped_all |= dropped
        model = model_view(resp["state"], dropped)
        if real != model:
            return {"step": i, "op": op, "kind": "internal", "gen": gen, "why": "private state after the call differs at " + first_diff(model, real)}
        if o.get("k") == "id":
            (s2r if op["op"] == "createStudy" else t2r).append(o["n"])
        if op["op"] == "createStudy" and o.get("k") == "err":
            stats["burnt"] += 1
        pw = real.get("prev_waiting")
        if last_prev is not None and pw != last_prev:
            stats["cursor_moves"] += 1
        last_prev = pw
        best = [x.get("best") for x in real.get("studies", [])]
        if last_best is not None and best != last_best:
            stats["best_changes"] += 1
        last_best = best
    return {"ok": True, "stats": stats, "dropped": sorted(dropped_all), "gen": gen}


def minimise(ops: list[dict[str, Any]], drv: core.Driver, coarse: bool) -> list[dict[str, Any]]:
    def fails(cand: list[dict[str, Any]]) -> bool:
        try:
            res = run_history(cand, drv, coarse)
        except Exception:  # noqa: BLE001 - an ill-formed candidate is not a smaller witness
            return False
        return not res.get("ok")

    return core.ddmin(list(ops), fails, budget=150)


def _tm(values: Any) -> dict[str, Any]:
    return {"state": 1, "values": values, "params": {}, "user": {}, "system": {}, "inter": {}, "start": True, "complete": True}


# the concrete histories of the witness theorems of Props/C01InMem.lean (what is false on today's code)
WITNESSES: dict[str, list[dict[str, Any]]] = {
    "plain_step_witness": [
        {"op": "createStudy", "name": "a", "dirs": [1]}, {"op": "createStudy", "name": "a", "dirs": [1]},
        {"op": "createStudy", "name": "b", "dirs": [1]}],
    "empty_directions_witness": [
        {"op": "createStudy", "name": "a", "dirs": []}, {"op": "createTrial", "sid": 0, "tmpl": _tm(["1/1"])},
        {"op": "getBestTrial", "sid": 0}],
    "complete_without_value_witness": [
        {"op": "createStudy", "name": "a", "dirs": [1]}, {"op": "createTrial", "sid": 0, "tmpl": None},
        {"op": "setTrialStateValues", "tid": 0, "state": 1, "values": None}, {"op": "getBestTrial", "sid": 0}],
    "nan_value_witness": [
        {"op": "createStudy", "name": "a", "dirs": [1]}, {"op": "createTrial", "sid": 0, "tmpl": _tm(["nan"])},
        {"op": "createTrial", "sid": 0, "tmpl": _tm(["0/1"])}, {"op": "getBestTrial", "sid": 0}],
    "not_set_direction_witness": [
        {"op": "createStudy", "name": "a", "dirs": [0]}, {"op": "createTrial", "sid": 0, "tmpl": _tm(["1/1"])},
        {"op": "createTrial", "sid": 0, "tmpl": _tm(["2/1"])}, {"op": "getBestTrial", "sid": 0}],
}


def replay_witnesses(chk: core.Check, drv: core.Driver) -> dict[str, Any]:
    """Replay the witness histories on the real storage (in lockstep with the model, so that the Lean
    statement about the model is a statement about the code) and record what the code answers."""
    seen: dict[str, Any] = {}
    for name, ops in WITNESSES.items():
        res = run_history(ops, drv, coarse_errors=True)
        s = InMemoryStorage()
        ex = K.Exec(s)
        outs = []
        for op in ops:  # the ids of these histories are the real ones up to the burnt study id
            o = real_call(s, ex, op)
            outs.append({"id": o["n"]} if o["k"] == "id" else {"err": o["e"]} if o["k"] == "err" else
                        {"trial": o["t"]["id"], "values": o["t"]["values"]} if o["k"] == "trial" else o["k"])
        seen[name] = {"real_outputs": outs, "model_agrees": bool(res.get("ok"))}
        if not res.get("ok"):
            chk.broke("correspondence", {"what": "witness %s of Props/C01InMem.lean no longer describes the code" % name,
                                         "why": res["why"], "ops": ops})
    return seen


def correspond(chk: core.Check, tier: str | None = None) -> None:
    """Called from c01.main.  Adds cases / counts to `chk`; a difference is broke("correspondence")."""
    tier = tier or chk.tier
    quick = tier == "quick"
    core.ensure_driver()
    r = random.Random(chk.seed * 104729 + 17)
    plan = [  # (family, how many, (min ops, max ops), generator options, off-contract?)
        ("c01", 120 if quick else 1200, (5, 60) if quick else (5, 200), {}, False),
        ("dense", 60 if quick else 600, (20, 80) if quick else (20, 250), {"max_studies": 2, "max_trials": 14}, False),
        ("offcontract", 60 if quick else 600, (10, 60) if quick else (10, 150), {"max_studies": 3, "max_trials": 10}, True),
    ]
    chk.rule = (chk.rule + " || " if chk.rule else "") + RULE_INMEM
    gdrv = core.Driver("storage")
    drv = core.Driver(c01_inmem_gen.DRIVER)
    totals = {"histories": 0, "steps": 0, "burnt": 0, "cursor_moves": 0, "best_changes": 0, "faults": 0}
    dropped: set[str] = set()
    failures = 0
    gen_failures = 0
    try:
        histories: list[tuple[str, list[dict[str, Any]], bool]] = []
        for c in core.corpus_cases("C01"):
            histories.append(("corpus", c["ops"], False))
        for fam, n, (lo, hi), kw, off in plan:
            for _ in range(n):
                ops = gen_history(r, gdrv, r.randint(lo, hi), **kw)
                histories.append((fam, off_contract(r, ops) if off else ops, off))
        chk.extra["inmem_witnesses"] = replay_witnesses(chk, drv)
        for fam, ops, off in histories:
            res = run_history(ops, drv, coarse_errors=off)
            totals["histories"] += 1
            chk.count("inmem-histories:" + fam)
            if res.get("gen") is not None and gen_failures < 3:
                gen_failures += 1
                g = res["gen"]
                chk.broke("correspondence", {
                    "what": "the interpreter of the methods generated from _in_memory.py (Generated/InMemoryMethods.lean) and the hand model "
                            "Model/InMemory.lean differ", "family": fam, "at": g["op"], "step": g["step"],
                    "method": g["diff"].get("method"), "generated_out": g["diff"]["generated"]["out"], "hand_out": g["diff"]["hand"]["out"],
                    "ops": ops[: g["step"] + 1]})
            if res.get("ok"):
                for k, v in res["stats"].items():
                    totals[k] += v
                dropped |= set(res["dropped"])
                st = res["stats"]
                chk.case({"cfg": "inmem-model", "family": fam, "ops": ops},
                         nontrivial=st["cursor_moves"] + st["best_changes"] + st["burnt"] >= 1)
                chk.traces_validated += 1
                continue
            failures += 1
            small = minimise(ops[: res["step"] + 1], drv, off)
            again = run_history(small, drv, off)
            chk.broke("correspondence", {
                "what": "Model/InMemory.lean and optuna/storages/_in_memory.py disagree (%s)" % res["kind"],
                "family": fam, "at": res["op"], "why": (again if not again.get("ok") else res)["why"], "ops": small})
            if failures >= 3:
                break
    finally:
        gdrv.close()
        drv.close()
    chk.extra["inmem_tie"] = dict(totals, dropped_private_fields=sorted(dropped), failures=failures, gen_vs_hand_failures=gen_failures)
    if dropped:
        chk.assumptions.append("private fields of InMemoryStorage that no longer exist and are not compared: %s" % sorted(dropped))
    chk.assumptions.append(
        "in-memory refinement: Model/InMemory.lean is hand-written; tied to _in_memory.py by output + private-field "
        "comparison after every call (c01_inmem.py); `states` reaches get_all_trials as a tuple; datetimes as present/absent")


def search(chk: core.Check) -> None:
    """Failing-input search (`chk.finish(search=...)`): the model and the code disagree somewhere —
    does the real InMemoryStorage also depart from the CONTRACT?  Every minimised history on which the
    tie broke (legal ones only) is continued with random probes and further calls and run on a real
    InMemoryStorage against the contract model (`c01.run_on`, the C01 oracle); the first departure is
    reported as a C01 violation with its replay."""
    from verif import fleet
    from verif.props import c01

    prefixes = [b["detail"]["ops"] for b in chk.broken
                if b.get("what") == "correspondence" and isinstance(b.get("detail"), dict)
                and b["detail"].get("ops") and b["detail"].get("family") != "offcontract"]
    if not prefixes:
        chk.search_log.append("in-memory search: no legal history to start from")
        return
    r = random.Random(chk.seed * 7 + 5)
    drv = core.Driver("storage")
    tried = 0
    try:
        for prefix in prefixes[:3]:
            for _ in range(150 if chk.tier == "quick" else 600):
                drv.ask({"op": "reset"})
                g = K.Gen(r, max_studies=3, max_trials=14)
                for op in prefix:
                    g.feedback(op, drv.ask(K.to_driver(op))["out"])
                ops = list(prefix)
                for _ in range(r.randint(1, 12)):
                    if r.random() < 0.5 and g.ns:
                        sid = r.randrange(g.ns)
                        op = r.choice([
                            {"op": "getAllTrials", "sid": sid, "states": [4]}, {"op": "getNTrials", "sid": sid, "states": [4]},
                            {"op": "getAllTrials", "sid": sid, "states": None}, {"op": "getBestTrial", "sid": sid},
                            {"op": "getTrial", "tid": g.tid()}, {"op": "getAllStudies"},
                            {"op": "getTrialIdFromNumber", "sid": sid, "number": r.randrange(4)},
                            {"op": "getTrialNumberFromId", "tid": g.tid()}])
                    else:
                        op = g.next(multi_objective=True)
                    g.feedback(op, drv.ask(K.to_driver(op))["out"])
                    ops.append(op)
                h = fleet.make("mem", chk.tmp)
                try:
                    res = c01.run_on("mem", h, ops, drv, 1.0, r)
                finally:
                    h.close()
                tried += 1
                if res and not res.get("ok"):
                    small = c01.minimise("mem", ops[: res["step"] + 1], drv, chk.tmp)
                    chk.search_log.append("in-memory search: contract departure after %d histories" % tried)
                    chk.violation(res["signature"], {"backend": "mem", "ops": small, "full_len": len(ops)},
                                  "backend mem departs from the storage contract at %s: %s (found by the search started from a "
                                  "history on which Model/InMemory.lean and _in_memory.py disagree)" % (json.dumps(res["op"])[:200], res["why"]))
                    return
        chk.search_log.append("in-memory search: %d continuations of %d histories agree with the contract" % (tried, len(prefixes[:3])))
    finally:
        drv.close()
