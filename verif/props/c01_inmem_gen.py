"""C01, in-memory backend, translator tie: the methods of InMemoryStorage as written in the source today -> Lean data ->
proved equal to the hand model (Model/InMemory.lean).

regenerate(chk)   run verif/translators/tinmem.py on core.REPO, write lean/OptunaVerif/Generated/InMemoryMethods.lean (only when
                  the text changed), record what was read in chk.translated / chk.extra["inmem_ir"], and report every
                  untranslatable method as chk.broke("translation", ...).  Call it BEFORE chk.prove([... MODULE]).
MODULE            "OptunaVerif.Props.C01InMemGen"
explain_proof_failure(chk)   after chk.prove failed: the declarations of Props/C01InMemGen.lean and Lemmas/InMemoryIR.lean whose
                  proof no longer checks (the build log only has line numbers) -> chk.extra["c01inmemgen_failed"] + broke("proof")
DRIVER            "inmemorygen": the protocol of `inmemory`, plus the interpreter of the generated methods run side by side with the
                  hand model on every call (field "gen" of every answer)
gen_disagreement(resp)  -> None | {"method", "generated", "hand"}

Used by verif/props/c01.py and verif/props/c01_inmem.py (helper module, like c01_grpc.py / c06_gen.py).
"""
from __future__ import annotations

import os
import re
from typing import Any

from verif import core
from verif.translators import tinmem

OUT = os.path.join(core.LEAN_DIR, "OptunaVerif", "Generated", "InMemoryMethods.lean")
MODULE = "OptunaVerif.Props.C01InMemGen"
LEMMAS = "OptunaVerif.Lemmas.InMemoryIR"
DRIVER = "inmemorygen"


def _count(ir: Any) -> int:
    n = 0
    for s in ir or []:
        n += 1
        if isinstance(s, tuple):
            for x in s[1:]:
                if isinstance(x, list) and x and isinstance(x[0], tuple) and isinstance(x[0][0], str) and x[0][0] in (
                        "raise", "ret", "act", "ite", "call", "for"):
                    n += _count(x)
    return n


def regenerate(chk: core.Check | None = None) -> dict[str, Any] | None:
    try:
        text, info, problems = tinmem.translate(core.REPO)
    except (tinmem.Untranslatable, SyntaxError, OSError) as e:
        if chk is None:
            raise
        chk.broke("translation", {"translator": "T-inmem", "why": str(e)[:600]})
        return None
    changed = core.write_if_changed(OUT, text)
    if chk is not None:
        n_ok = sum(1 for v in info["methods"].values() if v is not None)
        chk.translated.append("InMemoryMethods: %d/%d methods of InMemoryStorage / BaseStorage as IR (%d public), _StudyInfo.__init__ %d fields, "
                              "InMemoryStorage.__init__ %d fields%s" % (n_ok, len(info["methods"]), len(info["public"]), len(info["studyInfoInit"]),
                                                                      len(info["storageInit"]), " (file changed)" if changed else ""))
        chk.extra["inmem_ir"] = {"statements": {k: (None if v is None else _count(v)) for k, v in info["methods"].items()},
                                 "assumed": info["assumed"], "studyInfoInit": info["studyInfoInit"], "storageInit": info["storageInit"]}
        for p in problems:
            chk.broke("translation", dict(p, translator="T-inmem"))
        a = ("T-inmem: copy.copy / copy.deepcopy are the identity on values; `assert trial.number == trial_number` and `assert best_trial is not "
             "None` hold; get_n_trials receives a tuple or None; IndexError / AssertionError / TypeError are one coarse class")
        if a not in chk.assumptions:
            chk.assumptions.append(a)
    return info


def explain_proof_failure(chk: core.Check) -> list[str]:
    pr = chk.proof
    if pr is None or pr.ok:
        return []
    names: list[str] = []
    for mod in (LEMMAS, MODULE):
        rel = mod.replace("OptunaVerif.", "").replace(".", "/") + ".lean"
        lines = sorted({int(m.group(1)) for m in re.finditer(re.escape(rel) + r":(\d+):\d+", pr.build_log)})
        if not lines:
            continue
        src = open(os.path.join(core.LEAN_DIR, mod.replace(".", "/") + ".lean")).read().splitlines()
        for ln in lines:
            for i in range(min(ln, len(src)) - 1, -1, -1):
                m = re.match(r"\s*(?:theorem|def|example)\b\s*([^\s:(]*)", src[i])
                if m:
                    name = m.group(1) or ("example at line %d: %s" % (i + 1, src[i].strip()[:90]))
                    if name not in names:
                        names.append(name)
                    break
    if names:
        chk.extra["c01inmemgen_failed"] = names
        chk.broke("proof", {"module": MODULE, "generated_methods_no_longer_equal_hand_model": names})
    return names


def gen_disagreement(resp: Any) -> Any:
    """the "gen" field of an answer of the `inmemorygen` driver (None = generated interpreter and hand model agree)"""
    if isinstance(resp, dict):
        return resp.get("gen")
    return None
