"""C01 (RDB part) — the relational model `Model/RdbLogic.lean` against the real `RDBStorage` on SQLite.

translate:  verif/translators/rdb_codec.py re-emits Generated/RdbCodec.lean (the two enums and the four codec
            functions of models.py); T-best re-emits Generated/Best.lean (ORDER BY rank table used by the model)
prove:      Props/C01Rdb.lean (codec round trips against the generated definitions, table invariant, refinement of
            the contract model) — built by `chk.prove([... , "OptunaVerif.Props.C01Rdb"])` in c01.py
correspond: `correspond(chk, tier)`: generated C01 histories run in lockstep on a real RDBStorage over a SQLite
            file and on the compiled relational model (`driver rdblogic`).  After EVERY call two things are
            compared: the answer (value / error class) and the contents of all eleven tables, read with
            `SELECT *` through the storage's own engine.  Rows are canonicalised by renaming primary keys in
            creation order per table (SQLite re-uses the newest deleted id: F12), foreign keys through the same
            maps, datetimes to present/absent, JSON payloads to canonical text, floats exactly (as rationals).
            Extra calls outside `BaseStorage`: `record_heartbeat` (its table takes part in the cascade) and
            `_get_trials` with included ids / a lower id bound (what `_CachedStorage` uses).
A difference is `broke("correspondence")`: whether the backend breaks the *contract* is decided by c01.py.
"""
from __future__ import annotations

import json
import os
import random
import time
from typing import Any

import sqlalchemy

from optuna.storages import RDBStorage
from optuna.study import StudyDirection
from optuna.trial import TrialState

from verif import core
from verif import storage_k as K
from verif.translators import best as tbest
from verif.translators import rdb_codec

# table -> (primary key column, columns after the primary key in the order the driver prints them)
TABLES: dict[str, tuple[str, list[str]]] = {
    "studies": ("study_id", ["study_name"]),
    "study_directions": ("study_direction_id", ["study_id", "objective", "direction"]),
    "study_user_attributes": ("study_user_attribute_id", ["study_id", "key", "value_json"]),
    "study_system_attributes": ("study_system_attribute_id", ["study_id", "key", "value_json"]),
    "trials": ("trial_id", ["number", "study_id", "state", "datetime_start", "datetime_complete"]),
    "trial_params": ("param_id", ["trial_id", "param_name", "param_value", "distribution_json"]),
    "trial_values": ("trial_value_id", ["trial_id", "objective", "value", "value_type"]),
    "trial_intermediate_values": ("trial_intermediate_value_id", ["trial_id", "step", "intermediate_value", "intermediate_value_type"]),
    "trial_user_attributes": ("trial_user_attribute_id", ["trial_id", "key", "value_json"]),
    "trial_system_attributes": ("trial_system_attribute_id", ["trial_id", "key", "value_json"]),
    "trial_heartbeats": ("trial_heartbeat_id", ["trial_id", "heartbeat"]),
}
ORDER = list(TABLES)  # parents before children


class Tables:
    """Reads every table through the storage's engine and renames ids in creation order."""

    def __init__(self, storage: RDBStorage) -> None:
        self.engine = storage.engine
        self.maps: dict[str, dict[int, int]] = {t: {} for t in TABLES}
        self.next: dict[str, int] = {t: 0 for t in TABLES}

    def raw(self) -> dict[str, list[tuple]]:
        out = {}
        with self.engine.connect() as conn:
            for t, (pk, cols) in TABLES.items():
                q = "SELECT %s FROM %s ORDER BY %s" % (", ".join('"%s"' % c for c in [pk] + cols), t, pk)
                out[t] = [tuple(r) for r in conn.execute(sqlalchemy.text(q))]
        return out

    def _rename(self, t: str, rows: list[tuple]) -> None:
        m = self.maps[t]
        present = {r[0] for r in rows}
        for k in [k for k in m if k not in present]:
            del m[k]  # deleted (SQLite may hand the id out again: it then counts as a new row)
        for r in rows:  # ascending primary key = creation order among the new ones
            if r[0] not in m:
                m[r[0]] = self.next[t]
                self.next[t] += 1

    def canon(self) -> dict[str, list[list[Any]]]:
        raw = self.raw()
        for t in ORDER:
            self._rename(t, raw[t])
        sm, tm = self.maps["studies"], self.maps["trials"]

        def fk(m: dict[int, int], v: Any) -> Any:
            return m.get(v, "?%s" % v)

        def jtxt(s: Any) -> Any:
            return None if s is None else json.dumps(json.loads(s), sort_keys=True)

        def ftok(v: Any) -> Any:
            return None if v is None else K.ftok(v)

        out: dict[str, list[list[Any]]] = {}
        for t in ORDER:
            m = self.maps[t]
            rows = []
            for r in raw[t]:
                i = m[r[0]]
                if t == "studies":
                    row = [i, r[1]]
                elif t == "study_directions":
                    row = [i, fk(sm, r[1]), r[2], int(StudyDirection[r[3]].value)]
                elif t in ("study_user_attributes", "study_system_attributes"):
                    row = [i, fk(sm, r[1]), r[2], jtxt(r[3])]
                elif t == "trials":
                    row = [i, r[1], fk(sm, r[2]), int(TrialState[r[3]].value), r[4] is not None, r[5] is not None]
                elif t == "trial_params":
                    row = [i, fk(tm, r[1]), r[2], ftok(r[3]), jtxt(r[4])]
                elif t in ("trial_values", "trial_intermediate_values"):
                    row = [i, fk(tm, r[1]), r[2], ftok(r[3]), r[4]]
                elif t in ("trial_user_attributes", "trial_system_attributes"):
                    row = [i, fk(tm, r[1]), r[2], jtxt(r[3])]
                else:  # trial_heartbeats
                    row = [i, fk(tm, r[1])]
                rows.append(row)
            out[t] = sorted(rows, key=lambda x: x[0])
        return out


def first_diff(model: dict[str, Any], real: dict[str, Any]) -> str:
    for t in ORDER:
        a, b = model.get(t), real.get(t)
        if a != b:
            only_m = [r for r in (a or []) if r not in (b or [])][:3]
            only_r = [r for r in (b or []) if r not in (a or [])][:3]
            return "table %s: model-only rows %s, implementation-only rows %s (model %d rows, implementation %d rows)" % (
                t, json.dumps(only_m), json.dumps(only_r), len(a or []), len(b or []))
    return "tables equal"


def same_answer(op: dict[str, Any], model_out: dict[str, Any], obs: dict[str, Any]) -> str | None:
    m = K.strip_model(model_out)
    o = {k: v for k, v in obs.items() if k != "msg"}
    if m == o:
        return None
    if m.get("k") == "crash" and o.get("k") == "err" and str(o.get("e", "")).startswith("other:"):
        return None if o["e"] == "other:" + m["f"] else "model crashes with %s, implementation with %s" % (m["f"], o["e"])
    if op["op"] == "getBestTrial" and m.get("k") == "trial" and o.get("k") == "trial":
        # U4: SQL does not say which of several rows with the same ORDER BY key comes first
        mv, ov = m["t"]["values"], o["t"]["values"]
        if mv and ov and mv[0] == ov[0] and m["t"]["state"] == o["t"]["state"] == 1:
            return None
    return "model answers %s, implementation answers %s" % (json.dumps(m, sort_keys=True)[:400], json.dumps(o, sort_keys=True)[:400])


def wipe(storage: RDBStorage) -> None:
    for fs in storage.get_all_studies():
        storage.delete_study(fs._study_id)


class Lockstep:
    def __init__(self, storage: RDBStorage, drv: core.Driver, r: random.Random, extras: bool) -> None:
        self.s, self.drv, self.r, self.extras = storage, drv, r, extras
        self.stats: dict[str, int] = {}

    def count(self, k: str) -> None:
        self.stats[k] = self.stats.get(k, 0) + 1

    def ask(self, req: dict[str, Any]) -> dict[str, Any]:
        resp = self.drv.ask(req)
        if "out" not in resp:
            raise core.DriverBroken("driver rdblogic: %s on %s" % (resp, json.dumps(req)[:200]))
        return resp

    def run(self, ops: list[dict[str, Any]]) -> dict[str, Any] | None:
        """None if model and implementation agree after every call, else {"step","op","why","kind"}."""
        wipe(self.s)
        self.drv.ask({"op": "reset"})
        ex = K.Exec(self.s)
        tb = Tables(self.s)
        empty = tb.canon()
        if any(empty[t] for t in ORDER):
            return {"step": -1, "op": {"op": "wipe"}, "why": "tables not empty after deleting every study: %s" % first_diff({t: [] for t in ORDER}, empty), "kind": "tables"}
        for i, op in enumerate(ops):
            try:
                obs = ex.run(op)
            except K.IdReuse as e:
                return {"step": i, "op": op, "why": "id reuse: %s" % e, "kind": "id-reuse"}
            resp = self.ask(K.to_driver(op, dump=True))
            why = same_answer(op, resp["out"], obs)
            if why is not None:
                return {"step": i, "op": op, "why": why, "kind": "answer"}
            real = tb.canon()
            if real != resp["tables"]:
                return {"step": i, "op": op, "why": first_diff(resp["tables"], real), "kind": "tables"}
            self.count("calls")
            if obs.get("k") == "err":
                self.count("rejected")
            elif op["op"] in K.MUTATING:
                self.count("ok_writes")
            if self.extras and op["op"] in ("createTrial", "setTrialStateValues", "deleteStudy") and self.r.random() < 0.35:
                bad = self.extra_calls(ex, tb, i)
                if bad is not None:
                    return bad
        return None

    def extra_calls(self, ex: K.Exec, tb: Tables, i: int) -> dict[str, Any] | None:
        r = self.r
        live_trials = sorted(tb.maps["trials"].values())
        live_studies = sorted(tb.maps["studies"].values())
        inv_t = {c: real for real, c in tb.maps["trials"].items()}
        inv_s = {c: real for real, c in tb.maps["studies"].items()}
        if live_trials and r.random() < 0.5:
            c = r.choice(live_trials)
            op = {"op": "recordHeartbeat", "tid": c}
            self.s.record_heartbeat(inv_t[c])
            resp = self.ask(dict(op, dump=True))
            real = tb.canon()
            self.count("record_heartbeat")
            if resp["out"] != {"k": "unit"} or real != resp["tables"]:
                return {"step": i, "op": op, "why": "after record_heartbeat: answer %s; %s" % (resp["out"], first_diff(resp["tables"], real)), "kind": "tables"}
        if live_studies:
            c = r.choice(live_studies)
            inc = sorted(r.sample(live_trials, min(len(live_trials), r.randrange(3))))
            gt = r.choice([-1, -1, 0, 1, 2, 5])
            states = r.choice([None, None, [1], [0, 4], [1, 2, 3]])
            op = {"op": "getTrials", "sid": c, "states": states, "included": inc, "greaterThan": gt}
            # the real lower bound is a real trial id: the largest real id whose canonical id is <= gt
            real_gt = -1 if gt < 0 else max([inv_t[x] for x in live_trials if x <= gt], default=0)
            sts = None if states is None else tuple(TrialState(x) for x in states)
            try:
                ts = self.s._get_trials(inv_s[c], sts, {inv_t[x] for x in inc}, real_gt)
                obs: dict[str, Any] = {"k": "trials", "l": [K.canon_trial(t, tb.maps["trials"].get(t._trial_id, "?")) for t in ts]}
            except Exception as e:  # noqa: BLE001
                obs = {"k": "err", "e": K.err_name(e)}
            # the model compares canonical ids with the canonical bound: the two orders agree because ids are
            # renamed monotonically among live rows
            resp = self.ask(op)
            self.count("_get_trials")
            why = same_answer(op, resp["out"], obs)
            if why is not None:
                return {"step": i, "op": op, "why": "_get_trials: " + why, "kind": "answer"}
        return None


def run_histories(storage: RDBStorage, histories: list[tuple[str, list[dict[str, Any]]]], seed: int, extras: bool = True,
                  budget_s: float | None = None) -> dict[str, Any]:
    drv = core.Driver("rdblogic")
    ls = Lockstep(storage, drv, random.Random(seed), extras)
    out: dict[str, Any] = {"failures": [], "cases": [], "stats": ls.stats}
    t0 = time.time()
    try:
        for tag, ops in histories:
            if budget_s is not None and time.time() - t0 > budget_s:
                out["stopped_early"] = True
                break
            before = dict(ls.stats)
            bad = ls.run(ops)
            nontrivial = ls.stats.get("ok_writes", 0) > before.get("ok_writes", 0) and ls.stats.get("rejected", 0) > before.get("rejected", 0)
            out["cases"].append({"tag": tag, "nontrivial": nontrivial, "n": len(ops)})
            if bad is not None:
                bad["tag"] = tag
                bad["ops"] = minimise(storage, drv, ops[: bad["step"] + 1], seed) if bad["step"] >= 0 else []
                out["failures"].append(bad)
                break
    finally:
        drv.close()
    return out


def minimise(storage: RDBStorage, drv: core.Driver, ops: list[dict[str, Any]], seed: int) -> list[dict[str, Any]]:
    def fails(cand: list[dict[str, Any]]) -> bool:
        try:
            return Lockstep(storage, drv, random.Random(seed), False).run(cand) is not None
        except Exception:  # noqa: BLE001
            return False

    if not fails(list(ops)):
        return ops  # needs the extra calls: keep the whole prefix
    return core.ddmin(list(ops), fails, budget=80)


# Hand-written histories outside the generator's domain (and outside `WfOp` of Props/C01Rdb.lean): the three
# witness theorems of that file are replayed here on the real RDBStorage, in lockstep with the model as always.
def _h(*ops: dict[str, Any]) -> list[dict[str, Any]]:
    return [{"op": "createStudy", "name": "w", "dirs": [1]}, {"op": "createTrial", "sid": 0, "tmpl": None}] + list(ops)


DIRECTED: list[tuple[str, list[dict[str, Any]], Any]] = [
    # (tag, history, values that get_trial(0).values must read back on the real storage = what the Lean witness states)
    ("w_u2_", _h({"op": "setTrialStateValues", "tid": 0, "state": 0, "values": ["1/1"]}, {"op": "getTrial", "tid": 0}), [1.0]),
    ("w_partial_overwrite_", _h({"op": "setTrialStateValues", "tid": 0, "state": 4, "values": ["1/1", "2/1"]},
                                {"op": "setTrialStateValues", "tid": 0, "state": 1, "values": ["3/1"]}, {"op": "getTrial", "tid": 0}), [3.0, 2.0]),
    ("w_empty_values_", _h({"op": "setTrialStateValues", "tid": 0, "state": 1, "values": []}, {"op": "getTrial", "tid": 0}), None),
    ("w_best_inf_", _h({"op": "setTrialStateValues", "tid": 0, "state": 1, "values": ["inf"]}, {"op": "createTrial", "sid": 0, "tmpl": None},
                       {"op": "setTrialStateValues", "tid": 1, "state": 1, "values": ["-inf"]}, {"op": "createTrial", "sid": 0, "tmpl": None},
                       {"op": "setTrialStateValues", "tid": 2, "state": 1, "values": ["5/2"]}, {"op": "getBestTrial", "sid": 0},
                       {"op": "getTrialIdFromNumber", "sid": 0, "number": 2}, {"op": "deleteStudy", "sid": 0}, {"op": "getTrial", "tid": 1}), "skip"),
]


def translate(chk: core.Check) -> None:
    """Regenerate the Lean files the relational model is built on (call before `chk.prove`)."""
    rdb_codec.run(chk)
    tbest.run(chk)


def directed(chk: core.Check, storage: RDBStorage) -> None:
    seen = {}
    for tag, ops, want in DIRECTED:
        res = run_histories(storage, [(tag, ops)], chk.seed, extras=False)
        for f in res["failures"]:
            chk.broke("correspondence", {"tie": "rdblogic (directed history %s)" % tag, "kind": f["kind"], "at": f["op"], "why": f["why"][:900], "ops": ops})
        chk.traces_validated += 1
        if want != "skip" and not res["failures"]:
            # the storage still holds the history's rows (the next history wipes them): read trial 0 back
            sid = storage.get_all_studies()[0]._study_id
            got = storage.get_all_trials(sid, deepcopy=False)[0].values
            seen[tag] = got
            if got != want:
                chk.broke("correspondence", {"tie": "rdblogic witness replay", "history": tag, "lean_theorem_says": want, "real_storage_reads": got})
    chk.extra["rdblogic_witness_replays"] = seen


def correspond(chk: core.Check, tier: str) -> None:
    """Entry point used by c01.py (after `chk.prove`)."""
    from verif.props import c01

    quick = tier == "quick"
    n_hist, n_ops = (40, (5, 60)) if quick else (300, (5, 200))
    r = random.Random(chk.seed * 1000003 + 7001)
    t0 = time.time()
    try:
        core.ensure_driver()
        gdrv = core.Driver("storage")
        try:
            histories = [("corpus%d_" % i, c["ops"]) for i, c in enumerate(core.corpus_cases("C01"))]
            for i in range(n_hist):
                histories.append(("r%d_" % i, c01.gen_history(r, gdrv, r.randint(*n_ops), "r%d_" % i)))
        finally:
            gdrv.close()
        url = "sqlite:///" + os.path.join(chk.tmp, "rdblogic_%d.sqlite3" % os.getpid())
        storage = RDBStorage(url, engine_kwargs={"connect_args": {"timeout": 30}})
        directed(chk, storage)
        res = run_histories(storage, histories, chk.seed, budget_s=None if quick else 900)
    except core.DriverBroken as e:
        chk.broke("correspondence", {"tie": "rdblogic", "driver": str(e)[:800]})
        return
    by_tag = dict(histories)
    for c in res["cases"]:
        chk.case({"cfg": "rdblogic-lockstep", "ops": by_tag[c["tag"]]}, nontrivial=c["nontrivial"])
        chk.count("histories:rdblogic-lockstep")
        chk.traces_validated += 1
    for k, v in res["stats"].items():
        chk.count("rdblogic:" + k, v)
    for f in res["failures"]:
        chk.broke("correspondence", {"tie": "rdblogic (relational model vs RDBStorage on SQLite)", "kind": f["kind"], "at": f["op"],
                                     "why": f["why"][:900], "ops": f["ops"], "history": f["tag"]})
    chk.extra["rdblogic"] = {"histories": len(res["cases"]), "calls_compared": res["stats"].get("calls", 0),
                             "tables_compared_after_every_call": len(TABLES), "record_heartbeat_calls": res["stats"].get("record_heartbeat", 0),
                             "_get_trials_calls": res["stats"].get("_get_trials", 0), "wall_s": round(time.time() - t0, 1),
                             "stopped_early": bool(res.get("stopped_early"))}
    chk.assumptions += [
        "rdblogic tie: SQLite stands for every RDB dialect (the MySQL / generic branches of _set_trial_attr_without_commit are not run)",
        "rdblogic tie: primary keys are compared after renaming in creation order per table (F12: SQLite re-uses the newest deleted id)",
    ]


if __name__ == "__main__":  # development: the tie alone, without the Lean proofs
    import sys

    _chk = core.Check("C01", sys.argv[1] if len(sys.argv) > 1 else "quick", int(os.environ.get("VERIF_SEED", "0") or 0))
    translate(_chk)
    correspond(_chk, _chk.tier)
    print(json.dumps({"broken": _chk.broken, "extra": _chk.extra, "hist": {k: v for k, v in _chk.hist.items() if "rdblogic" in k}}, indent=1)[:6000])
