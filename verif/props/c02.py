"""C02 — every trial run by optimize / ask / tell ends in a well-formed terminal state.

prove:      Props/C02.lean (+ Generated/TellGen.lean regenerated from /repo by the translator)
correspond: (a) objective programs run through the real `Study.optimize` (n_jobs = 1) and through the
                Lean model `optimizeSeq` (driver sub-command `tell`, cmd `seq`): final state + values of
                every trial, the exception leaving optimize, the callback log, the trial count;
            (b) `Study.tell(trial, values, state, skip_if_finished)` over all argument combinations on
                RUNNING / finished / WAITING / unknown trials vs `studyTell`;
            (c) `Study.optimize(n_jobs = 2|3)`: every trial vs the model, and the recorded
                submit/begin/finish/wait/exit trace of the real thread pool validated against `Pool.step`.
observe:    oracles that do not use the model: no started trial RUNNING after optimize returns/raises;
            COMPLETE <=> feasible (values = the float casts); FAIL has no values; an uncaught objective
            exception leaves optimize (the same instance) after its trial is FAIL; callbacks exactly
            once; exactly n trials; tell leaves a finished trial byte-for-byte alone.
"""
from __future__ import annotations

import array
import collections
import copy
import datetime as real_datetime
import decimal
import fractions
import json
import logging
import math
import os
import random
import sys
import threading
import warnings
from collections.abc import Sequence
from concurrent.futures import ALL_COMPLETED, FIRST_COMPLETED, ThreadPoolExecutor
from concurrent.futures import wait as real_wait
from typing import Any

import numpy as np
import optuna
from optuna.exceptions import UpdateFinishedTrialError
from optuna.trial import TrialState

from verif import core, fleet

optuna.logging.set_verbosity(optuna.logging.ERROR)

RULE = (
    "seeded objective programs from a grammar (return values: floats incl. nan/+-inf/subnormal, ints incl. 10**400, bools, "
    "None, numeric/non-numeric str and bytes, lists/tuples/ranges/deques/arrays/custom Sequences of mixtures and wrong "
    "lengths, numpy scalars/0-d/1-d, Decimal, Fraction, complex, objects whose __float__ raises Value/Type/Overflow/"
    "Runtime/ZeroDivision/Key/custom errors; raise points before/after suggests and reports; TrialPruned with/without "
    "(NaN) reports; catch tuples incl. base classes; callbacks that log/stop/raise; after_trial raising / interrupted; "
    "another worker finishing the trial before or during the final tell; virtual-clock timeouts; enqueued trials) run on "
    "Study.optimize with n_jobs in {1,2,3}, samplers Random/TPE/NSGA-II, storages from the fleet, plus Study.tell over "
    "all (values, state, skip_if_finished) combinations on RUNNING/finished/WAITING/unknown trials; a case is non-trivial "
    "when it exercises >= 2 distinct outcome classes or an exceptional path; distinct by SHA-1 of the case"
)

# --------------------------------------------------------------------------------------------------
# exception classes the programs use


class VerifUserError(Exception):
    pass


class VerifValueSub(ValueError):
    pass


class VerifPrunedSub(optuna.TrialPruned):
    pass


class PlanExhausted(BaseException):
    """harness bug guard: the loop asked for more trials than the case planned"""


EXC_BY_NAME: dict[str, type] = {
    c.__name__: c
    for c in [ValueError, TypeError, RuntimeError, KeyError, ZeroDivisionError, OverflowError, IndexError,
              NotImplementedError, AssertionError, ArithmeticError, LookupError, Exception, VerifUserError,
              VerifValueSub, KeyboardInterrupt, UpdateFinishedTrialError, UnboundLocalError, AttributeError,
              BaseException]
}
RAISABLE = ["ValueError", "TypeError", "RuntimeError", "KeyError", "ZeroDivisionError", "VerifUserError",
            "VerifValueSub", "IndexError", "AssertionError", "OverflowError"]
CATCHABLE = ["ValueError", "RuntimeError", "Exception", "VerifUserError", "KeyError", "ArithmeticError",
             "LookupError", "TypeError", "KeyboardInterrupt", "BaseException"]

_CLASS_IDS: dict[str, int] = {}


def cid(cls: type) -> int:
    name = cls.__module__ + "." + cls.__qualname__
    if name not in _CLASS_IDS:
        _CLASS_IDS[name] = len(_CLASS_IDS) + 1
        _CLASS_BY_ID[_CLASS_IDS[name]] = cls
    return _CLASS_IDS[name]


_CLASS_BY_ID: dict[int, type] = {}
for _c in EXC_BY_NAME.values():
    cid(_c)


def make_exc(name: str) -> BaseException:
    e = EXC_BY_NAME[name]("verif")
    e._verif_user = True  # type: ignore[attr-defined]
    return e


def token(e: BaseException | None) -> str | None:
    """The model's name for an exception instance leaving optimize/tell."""
    if e is None:
        return None
    if getattr(e, "_verif_cast", None) is not None:
        return "cast:" + e._verif_cast  # type: ignore[attr-defined]
    if getattr(e, "_verif_user", False):
        return "kbd" if isinstance(e, KeyboardInterrupt) else "user:%d" % cid(type(e))
    for cls, name in ((UpdateFinishedTrialError, "UpdateFinishedTrialError"), (AssertionError, "AssertionError"),
                      (UnboundLocalError, "UnboundLocalError"), (ValueError, "ValueError"), (TypeError, "TypeError")):
        if type(e) is cls:
            return name
    return "other:" + type(e).__name__


def catch_tokens(catch: tuple) -> list[str]:
    out = ["user:%d" % i for i, c in sorted(_CLASS_BY_ID.items()) if catch and issubclass(c, catch)]
    if catch and issubclass(KeyboardInterrupt, catch):
        out.append("kbd")
    return out


# --------------------------------------------------------------------------------------------------
# value grammar: JSON specs -> Python objects


class FloatRaises:
    def __init__(self, name: str) -> None:
        self.name = name

    def __float__(self) -> float:
        e = EXC_BY_NAME[self.name]("verif-float")
        cls = "value" if isinstance(e, ValueError) else "type" if isinstance(e, TypeError) else \
            "overflow" if isinstance(e, OverflowError) else "other:%d" % cid(type(e))
        e._verif_cast = cls  # type: ignore[attr-defined]
        raise e

    def __repr__(self) -> str:
        return "FloatRaises(%s)" % self.name


class FloatGives:
    def __init__(self, x: float) -> None:
        self.x = x

    def __float__(self) -> float:
        return self.x

    def __repr__(self) -> str:
        return "FloatGives(%r)" % self.x


class IndexOnly:
    def __index__(self) -> int:
        return 7


class MySeq(Sequence):
    def __init__(self, items: list) -> None:
        self.items = items

    def __getitem__(self, i):  # type: ignore[no-untyped-def]
        return self.items[i]

    def __len__(self) -> int:
        return len(self.items)

    def __repr__(self) -> str:
        return "MySeq(%r)" % (self.items,)


def fenc(x: float) -> str:
    return "nan" if x != x else "inf" if x == math.inf else "-inf" if x == -math.inf else float(x).hex()


def fdec(s: str) -> float:
    return float(s) if s in ("nan", "inf", "-inf") else float.fromhex(s)


def build(spec: Any) -> Any:
    t = spec["t"]
    if t == "float":
        return fdec(spec["v"])
    if t == "int":
        return int(spec["v"])
    if t == "bool":
        return bool(spec["v"])
    if t == "none":
        return None
    if t == "str":
        return spec["v"]
    if t == "bytes":
        return spec["v"].encode("latin1")
    if t in ("list", "tuple", "myseq", "deque", "set"):
        items = [build(x) for x in spec["v"]]
        return {"list": list, "tuple": tuple, "myseq": MySeq, "deque": collections.deque, "set": lambda l: set(map(repr, l))}[t](items)
    if t == "range":
        return range(spec["v"])
    if t == "arr":
        return array.array("d", [fdec(x) for x in spec["v"]])
    if t == "np":
        return getattr(np, spec["dtype"])(fdec(spec["v"]))
    if t == "np0d":
        return np.array(fdec(spec["v"]))
    if t == "np1d":
        return np.array([fdec(x) for x in spec["v"]])
    if t == "decimal":
        return decimal.Decimal(spec["v"])
    if t == "fraction":
        return fractions.Fraction(int(spec["n"]), int(spec["d"]))
    if t == "complex":
        return complex(1.0, 2.0)
    if t == "floatraises":
        return FloatRaises(spec["v"])
    if t == "floatgives":
        return FloatGives(fdec(spec["v"]))
    if t == "indexonly":
        return IndexOnly()
    if t == "dict":
        return {1: 2.0}
    if t == "gen":
        return (x for x in [1.0])
    raise ValueError(t)


FLOATS = [0.0, -0.0, 1.5, -2.25, 1e308, -1e308, 5e-324, 2.2250738585072014e-308, math.inf, -math.inf, math.nan, 3.0, 0.1]
STRS = ["5", "1e3", " 2.5 ", "nan", "inf", "-inf", "abc", "", "1_0", "٣", "infinity", "0x10", "12", "1.5", "7", "-3", "9\n"]


def gen_good_elem(r: random.Random) -> Any:
    """an element whose float() is a non-NaN float"""
    k = r.randrange(12)
    if k <= 2:
        return {"t": "float", "v": fenc(r.choice([x for x in FLOATS if x == x] + [r.uniform(-10, 10)]))}
    if k == 3:
        return {"t": "int", "v": str(r.choice([0, 1, -7, 2 ** 53 + 1, 10 ** 308, r.randrange(-100, 100)]))}
    if k == 4:
        return {"t": "bool", "v": r.random() < 0.5}
    if k == 5:
        return {"t": "str", "v": r.choice(["5", "1e3", " 2.5 ", "inf", "-inf", "1_0", "٣", "infinity", "7"])}
    if k == 6:
        return {"t": "np", "dtype": r.choice(["float32", "float64", "float16", "int64", "bool_"]), "v": fenc(r.choice([0.0, 1.0, 2.5, -3.0]))}
    if k == 7:
        return {"t": "np0d", "v": fenc(r.choice([2.0, -1.5, math.inf]))}
    if k == 8:
        return {"t": "decimal", "v": r.choice(["1.5", "-2", "Infinity", "0.1"])}
    if k == 9:
        return {"t": "fraction", "n": str(r.randrange(-9, 9)), "d": str(r.randrange(1, 9))}
    if k == 10:
        return {"t": "floatgives", "v": fenc(r.choice([2.5, -math.inf, 0.0]))}
    return r.choice([{"t": "indexonly"}, {"t": "bytes", "v": "5"}])


def gen_bad_elem(r: random.Random) -> Any:
    """an element that is NaN or whose float() raises"""
    k = r.randrange(14)
    if k <= 2:
        return {"t": "float", "v": "nan"}
    if k == 3:
        return {"t": "int", "v": str(r.choice([10 ** 400, -10 ** 400]))}
    if k == 4:
        return {"t": "none"}
    if k == 5:
        return {"t": "str", "v": r.choice(["nan", "abc", "", "0x10", "12a"])}
    if k == 6:
        return r.choice([{"t": "np", "dtype": "float64", "v": "nan"}, {"t": "np1d", "v": [fenc(1.0)]}, {"t": "np1d", "v": [fenc(1.0), fenc(2.0)]}])
    if k == 7:
        return {"t": "decimal", "v": r.choice(["NaN", "sNaN"])}
    if k == 8:
        return {"t": "fraction", "n": str(10 ** 400), "d": "1"}
    if k == 9:
        return {"t": "complex"}
    if k in (10, 11):
        return {"t": "floatraises", "v": r.choice(["ValueError", "TypeError", "OverflowError", "VerifValueSub"])}
    if k == 12:
        return {"t": "floatraises", "v": r.choice(["RuntimeError", "ZeroDivisionError", "VerifUserError", "KeyError"])}
    return r.choice([{"t": "list", "v": [{"t": "float", "v": fenc(1.0)}]}, {"t": "floatgives", "v": "nan"}, {"t": "dict"},
                     {"t": "bytes", "v": "abc"}, {"t": "gen"}])


def gen_elem(r: random.Random, p_bad: float = 0.3) -> Any:
    return gen_bad_elem(r) if r.random() < p_bad else gen_good_elem(r)


def gen_value(r: random.Random, n_obj: int) -> Any:
    """a value an objective may return / a user may pass to tell"""
    k = r.random()
    if k < 0.35:  # feasible shape, all good
        if n_obj == 1 and r.random() < 0.6:
            return gen_good_elem(r)
        if r.random() < 0.12:
            return {"t": "str", "v": "".join(r.choice("0123456789") for _ in range(n_obj))}
        if r.random() < 0.08:
            return {"t": "bytes", "v": "".join(r.choice("0159") for _ in range(n_obj))}
        if r.random() < 0.06 and n_obj <= 3:
            return {"t": "range", "v": n_obj}
        return {"t": r.choice(["list", "tuple", "list", "myseq", "deque"]), "v": [gen_good_elem(r) for _ in range(n_obj)]}
    if k < 0.50:  # right length, one element bad somewhere
        items = [gen_good_elem(r) for _ in range(n_obj)]
        items[r.randrange(n_obj)] = gen_bad_elem(r)
        if r.random() < 0.3 and n_obj > 1:
            items[r.randrange(n_obj)] = gen_bad_elem(r)
        if n_obj == 1 and r.random() < 0.5:
            return items[0]
        return {"t": r.choice(["list", "tuple", "myseq"]), "v": items}
    if k < 0.62:  # wrong length
        n = r.choice([x for x in (0, 1, 2, 3, 4) if x != n_obj])
        return {"t": r.choice(["list", "tuple", "myseq", "deque"]), "v": [gen_elem(r, 0.15) for _ in range(n)]}
    if k < 0.68:
        return {"t": "none"}
    if k < 0.76:
        return {"t": "str", "v": r.choice(STRS)}
    if k < 0.80:
        return {"t": "bytes", "v": r.choice(["5", "", "12", "abc"])}
    if k < 0.84:
        return r.choice([{"t": "np1d", "v": [fenc(1.0)] * r.randrange(0, 3)}, {"t": "arr", "v": [fenc(r.choice(FLOATS)) for _ in range(r.randrange(0, 4))]},
                         {"t": "range", "v": r.randrange(0, 4)}, {"t": "set", "v": [{"t": "float", "v": fenc(1.0)}]}, {"t": "dict"}])
    if k < 0.92:
        return gen_elem(r, 0.6)
    return {"t": r.choice(["list", "tuple"]), "v": [gen_elem(r, 0.4) for _ in range(r.randrange(0, 5))]}


# --------------------------------------------------------------------------------------------------
# observational classifier: Python object -> the model's PyVal  (trusted; calls float / isinstance / iter)


def xval(f: float) -> str:
    if f != f:
        return "nan"
    if f == math.inf:
        return "inf"
    if f == -math.inf:
        return "-inf"
    q = fractions.Fraction(f)
    return "%d/%d" % (q.numerator, q.denominator)


def classify_elem(e: Any) -> dict[str, Any]:
    try:
        with warnings.catch_warnings():
            warnings.simplefilter("ignore")
            f = float(e)
    except ValueError:
        return {"bad": "value"}
    except TypeError:
        return {"bad": "type"}
    except OverflowError:
        return {"bad": "overflow"}
    except Exception as ex:
        return {"bad": "other:%d" % cid(type(ex))}
    return {"ok": xval(f)}


def classify(obj: Any) -> Any:
    if obj is None:
        return None
    if isinstance(obj, Sequence):
        return {"seq": [classify_elem(e) for e in obj]}
    return {"scalar": classify_elem(obj)}


def py_feasible(obj: Any, n_obj: int) -> list[float] | None:
    """Specification-level oracle (independent of the model and of the code's scan order): the floats
    if the value is float-convertible, NaN-free and one per objective, else None."""
    if obj is None:
        return None
    vals = obj if isinstance(obj, Sequence) else [obj]
    try:
        with warnings.catch_warnings():
            warnings.simplefilter("ignore")
            fl = [float(v) for v in vals]
    except Exception:
        return None
    if any(x != x for x in fl) or len(fl) != n_obj:
        return None
    return fl


def has_bad_cast(pv: Any) -> bool:
    """does float() fail (any exception class) on some element of the classified value?"""
    if pv is None:
        return False
    elems = pv["seq"] if "seq" in pv else [pv["scalar"]]
    return any("bad" in e for e in elems)


# --------------------------------------------------------------------------------------------------
# case generation


def gen_env(r: random.Random, n_obj: int, p: float = 0.18) -> dict[str, Any]:
    env: dict[str, Any] = {}
    if r.random() < p:
        env["after"] = r.choice(["raises:RuntimeError", "raises:ValueError", "raises:VerifUserError", "kbd"])
    if r.random() < p * 0.6:
        st = r.choice([1, 2, 3])
        env["interfere"] = {"state": st, "values": [fenc(float(i + 3)) for i in range(n_obj)] if st == 1 else None}
    return env


def gen_acts(r: random.Random, n_obj: int, seq: bool) -> list[dict[str, Any]]:
    acts = []
    for _ in range(r.choice([0, 0, 1, 2, 3, 5])):
        k = r.random()
        if k < 0.30:
            acts.append({"a": "suggest", "kind": r.choice(["float", "int", "cat"])})
        elif k < 0.70:
            step: Any = r.choice([0, 1, 2, 3, 5, 8, r.randrange(0, 12)])
            if r.random() < 0.06:
                step = r.choice([-1, "3", 2.0, "x", None])
            v = {"t": "float", "v": fenc(r.choice(FLOATS + [r.uniform(-5, 5)]))} if r.random() < 0.8 else gen_elem(r, 0.5)
            acts.append({"a": "report" if (n_obj == 1 or r.random() < 0.15) else "rawreport", "step": step, "value": v})
        elif k < 0.78:
            acts.append({"a": "attr"})
        elif k < 0.86:
            acts.append({"a": "should_prune"})
        elif k < 0.90:
            acts.append({"a": "stop"})
        elif seq:
            acts.append({"a": "sleep", "d": r.choice([1, 2, 5])})
    return acts


def gen_plan(r: random.Random, n_obj: int, n_cbs: int, seq: bool, calm: float) -> dict[str, Any]:
    """`calm`: probability scale of disruptive features (lower = quieter plan)."""
    k = r.random()
    if k < 0.62:
        end: dict[str, Any] = {"k": "ret", "v": gen_value(r, n_obj)}
    elif k < 0.80:
        end = {"k": "pruned", "sub": r.random() < 0.3}
    else:
        end = {"k": "raise", "cls": r.choice(RAISABLE + (["KeyboardInterrupt"] if r.random() < 0.5 else []))}
    plan: dict[str, Any] = {"acts": gen_acts(r, n_obj, seq), "end": end, "env": gen_env(r, n_obj, 0.18 * calm)}
    if r.random() < 0.08 * calm:
        st = r.choice([1, 2, 3])
        plan["pre"] = {"state": st, "via": r.choice(["storage", "tell"]),
                       "values": [fenc(float(i + 7)) for i in range(n_obj)] if st == 1 else None}
    cbs = []
    for _ in range(n_cbs):
        cb: dict[str, Any] = {"stop": r.random() < 0.04 * calm}
        if r.random() < 0.04 * calm:
            cb["raises"] = r.choice(RAISABLE)
        cbs.append(cb)
    plan["cbs"] = cbs
    return plan


def gen_opt_case(r: random.Random, tier: str, n_jobs: int = 1, storage: str = "mem") -> dict[str, Any]:
    n_obj = r.choice([1, 1, 1, 2, 3])
    n_cbs = r.choice([0, 1, 2, 3])
    seq = n_jobs == 1
    calm = r.choice([0.0, 0.3, 1.0, 1.0, 2.0])
    n_trials: int | None = r.choice([1, 2, 3, 4, 6]) if tier == "quick" else r.choice([1, 2, 3, 5, 8, 12])
    n_plans = n_trials + 1
    case: dict[str, Any] = {
        "kind": "seq" if seq else "pool", "n_obj": n_obj, "n_jobs": n_jobs, "storage": storage,
        "sampler": r.choice(["random", "random", "tpe", "nsga2"]), "pruner": r.choice(["default", "default", "nop", "hyperband"]),
        "n_cbs": n_cbs, "cb_none": n_cbs == 0 and r.random() < 0.5, "gc": r.random() < 0.1,
        "catch": sorted(set(r.choice(CATCHABLE) for _ in range(r.choice([0, 0, 1, 1, 2, 3])))),
        "catch_form": r.choice(["tuple", "tuple", "list", "single"]),
        "enqueue": r.choice([0, 0, 0, 1, 3]), "log_info": r.random() < 0.2, "timeout": None,
    }
    if seq and r.random() < 0.18:
        case["timeout"] = r.choice([0, 1, 3, 6, 10])
        if r.random() < 0.4:
            n_trials = None
            n_plans = 8
    case["n_trials"] = n_trials
    plans = [gen_plan(r, n_obj, n_cbs, seq, calm) for _ in range(n_plans)]
    if seq and r.random() < 0.04:
        plans[r.randrange(len(plans))]["ask_raises"] = r.choice(["RuntimeError", "ValueError"])
    if n_trials is None:
        # make sure the loop ends: the clock passes the timeout at the latest in the last plan
        for p in plans:
            p["acts"].append({"a": "sleep", "d": 2})
    case["plans"] = plans
    return case


# --------------------------------------------------------------------------------------------------
# running a case on the real code


class FakeClock:
    """Virtual clock for optuna.study._optimize (n_jobs = 1 cases): `datetime.datetime.now()`."""

    def __init__(self) -> None:
        self.t = 0
        outer = self

        class _DT:
            @staticmethod
            def now() -> real_datetime.datetime:
                return real_datetime.datetime(2000, 1, 1) + real_datetime.timedelta(seconds=outer.t)

        class _Mod:
            datetime = _DT
            timedelta = real_datetime.timedelta

        self.module = _Mod


class TrialObs:
    def __init__(self) -> None:
        self.started = False       # before_trial seen (the trial exists)
        self.entered = False       # objective entered
        self.reports: list[list[Any]] = []
        self.out: Any = None       # model Outcome json
        self.ret_obj: Any = None
        self.exc: BaseException | None = None
        self.pre: Any = None
        self.stop = False
        self.armed = False
        self.future: int | None = None
        self.ask_exc: BaseException | None = None
        self.cb_seen: list[Any] = []
        self.slept = 0


class EnvSampler(optuna.samplers.BaseSampler):
    """Delegates to a real sampler; plays the plan's sampler-side behaviour (ask raising, after_trial
    raising / interrupted, another worker finishing the trial while after_trial runs)."""

    def __init__(self, inner: optuna.samplers.BaseSampler, runner: "Runner") -> None:
        self.inner = inner
        self.runner = runner

    def infer_relative_search_space(self, study, trial):  # type: ignore[no-untyped-def]
        return self.inner.infer_relative_search_space(study, trial)

    def sample_relative(self, study, trial, search_space):  # type: ignore[no-untyped-def]
        return self.inner.sample_relative(study, trial, search_space)

    def sample_independent(self, study, trial, param_name, param_distribution):  # type: ignore[no-untyped-def]
        return self.inner.sample_independent(study, trial, param_name, param_distribution)

    def reseed_rng(self) -> None:
        self.inner.reseed_rng()

    def before_trial(self, study, trial) -> None:  # type: ignore[no-untyped-def]
        self.inner.before_trial(study, trial)
        ob, plan = self.runner.slot(trial.number)
        if ob is None:
            return
        ob.started = True
        if plan.get("ask_raises"):
            ob.ask_exc = make_exc(plan["ask_raises"])
            raise ob.ask_exc

    def after_trial(self, study, trial, state, values) -> None:  # type: ignore[no-untyped-def]
        self.inner.after_trial(study, trial, state, values)
        ob, plan = self.runner.slot(trial.number)
        if ob is None or not ob.armed:
            return
        ob.armed = False
        env = plan.get("env", {})
        it = env.get("interfere")
        if it:
            vals = [fdec(x) for x in it["values"]] if it["values"] is not None else None
            self.runner.study._storage.set_trial_state_values(trial._trial_id, TrialState(it["state"]), vals)
        a = env.get("after")
        if a == "kbd":
            raise make_exc("KeyboardInterrupt")
        if a:
            raise make_exc(a.split(":")[1])


SUGGEST = {
    "float": lambda t: t.suggest_float("x", 0.0, 1.0),
    "int": lambda t: t.suggest_int("n", 0, 5),
    "cat": lambda t: t.suggest_categorical("c", ["a", "b"]),
}


def mk_sampler(name: str, seed: int) -> optuna.samplers.BaseSampler:
    with warnings.catch_warnings():
        warnings.simplefilter("ignore")
        if name == "tpe":
            return optuna.samplers.TPESampler(seed=seed, n_startup_trials=2)
        if name == "nsga2":
            return optuna.samplers.NSGAIISampler(seed=seed, population_size=3)
        return optuna.samplers.RandomSampler(seed=seed)


def mk_pruner(name: str) -> Any:
    if name == "nop":
        return optuna.pruners.NopPruner()
    if name == "hyperband":
        return optuna.pruners.HyperbandPruner(min_resource=1, max_resource=9, reduction_factor=3)
    return None


class Runner:
    def __init__(self, case: dict[str, Any], tmp: str) -> None:
        self.case = case
        self.plans = case.get("plans", [])
        self.obs = [TrialObs() for _ in self.plans]
        self.lock = threading.Lock()
        self.cb_log: list[list[int]] = []
        self.events: list[dict[str, Any]] = []
        self.clock = FakeClock()
        self.tls = threading.local()
        self.n_futures = 0
        self.res_ids: dict[str, int] = {}
        self.handle = fleet.make(case.get("storage", "mem"), tmp)
        with warnings.catch_warnings():
            warnings.simplefilter("ignore")
            self.study = optuna.create_study(
                storage=self.handle.storage, directions=["minimize"] * case["n_obj"],
                sampler=EnvSampler(mk_sampler(case.get("sampler", "random"), case.get("sseed", 1)), self),
                pruner=mk_pruner(case.get("pruner", "default")),
                study_name="c02_%d_%d" % (id(self) & 0xFFFFFF, random.getrandbits(40)))
        self.exc: BaseException | None = None

    def close(self) -> None:
        self.handle.close()

    def slot(self, number: int) -> tuple[TrialObs | None, dict[str, Any]]:
        if 0 <= number < len(self.plans):
            return self.obs[number], self.plans[number]
        return None, {}

    def log(self, ev: dict[str, Any]) -> None:
        with self.lock:
            self.events.append(ev)

    # ---- the objective ------------------------------------------------------------------------
    def objective(self, trial: optuna.Trial) -> Any:
        ob, plan = self.slot(trial.number)
        if ob is None:
            raise PlanExhausted("trial %d" % trial.number)
        ob.entered = True
        ob.future = getattr(self.tls, "future", None)
        try:
            try:
                for act in plan["acts"]:
                    self.do_act(trial, act, ob)
                end = plan["end"]
                if end["k"] == "ret":
                    v = build(end["v"])
                    ob.ret_obj = v
                    ob.out = {"k": "ret", "v": classify(v)}
                    return v
                if end["k"] == "pruned":
                    raise (VerifPrunedSub if end.get("sub") else optuna.TrialPruned)("verif")
                raise make_exc(end["cls"])
            finally:
                self.apply_pre(trial, plan, ob)
        except PlanExhausted:
            raise
        except BaseException as e:
            ob.exc = e
            if isinstance(e, optuna.TrialPruned):
                ob.out = {"k": "pruned"}
            else:
                # whatever was raised inside the objective (by the program or by library code it
                # called) is "the objective's exception" for the model
                try:
                    e._verif_cast = None  # type: ignore[attr-defined]
                    e._verif_user = True  # type: ignore[attr-defined]
                except Exception:
                    pass
                ob.out = {"k": "exc", "e": token(e)}
            raise
        finally:
            ob.armed = True

    def do_act(self, trial: optuna.Trial, act: dict[str, Any], ob: TrialObs) -> None:
        a = act["a"]
        if a == "suggest":
            SUGGEST[act["kind"]](trial)
        elif a == "report":
            v = build(act["value"])
            with warnings.catch_warnings():
                warnings.simplefilter("ignore")
                trial.report(v, act["step"])
                ob.reports.append([int(act["step"]), xval(float(v))])
        elif a == "rawreport":
            # multi-objective studies refuse Trial.report; another client may still have written
            # intermediate values through the storage
            v = build(act["value"])
            f = float(v)
            step = int(act["step"])
            if step < 0:
                raise ValueError("negative step")
            if any(s == step for s, _ in ob.reports):
                return
            self.study._storage.set_trial_intermediate_value(trial._trial_id, step, f)
            ob.reports.append([step, xval(f)])
        elif a == "attr":
            trial.set_user_attr("k", 1)
        elif a == "should_prune":
            if self.case["n_obj"] == 1:
                trial.should_prune()
        elif a == "stop":
            if ob.future is not None:
                self.log({"e": "stop", "i": ob.future})
            ob.stop = True
            trial.study.stop()
        elif a == "sleep":
            self.clock.t += act["d"]
            ob.slept += act["d"]

    def apply_pre(self, trial: optuna.Trial, plan: dict[str, Any], ob: TrialObs) -> None:
        pre = plan.get("pre")
        if not pre:
            return
        vals = [fdec(x) for x in pre["values"]] if pre["values"] is not None else None
        try:
            if pre["via"] == "tell":
                with warnings.catch_warnings():
                    warnings.simplefilter("ignore")
                    self.study.tell(trial, vals, state=TrialState(pre["state"]))
            else:
                self.study._storage.set_trial_state_values(trial._trial_id, TrialState(pre["state"]), vals)
        finally:
            ft = self.study._storage.get_trial(trial._trial_id)
            if ft.state.is_finished():
                ob.pre = {"state": int(ft.state), "values": None if ft.values is None else [xval(x) for x in ft.values]}

    # ---- callbacks ----------------------------------------------------------------------------
    def make_cb(self, j: int):  # type: ignore[no-untyped-def]
        def cb(study: optuna.Study, ft: optuna.trial.FrozenTrial) -> None:
            ob, plan = self.slot(ft.number)
            with self.lock:
                self.cb_log.append([ft.number, j])
            if ob is None:
                return
            ob.cb_seen.append(int(ft.state))
            act = plan["cbs"][j]
            if act.get("stop"):
                fut = getattr(self.tls, "future", None)
                if fut is not None:
                    self.log({"e": "stop", "i": fut})
                study.stop()
            if act.get("raises"):
                raise make_exc(act["raises"])

        return cb

    # ---- optimize -----------------------------------------------------------------------------
    def res_id(self, e: BaseException) -> int:
        t = token(e) or "?"
        with self.lock:
            if t not in self.res_ids:
                self.res_ids[t] = len(self.res_ids) + 1
            return self.res_ids[t]

    def run_optimize(self) -> None:
        import optuna.study._optimize as om

        case = self.case
        for i in range(case.get("enqueue", 0)):
            with warnings.catch_warnings():
                warnings.simplefilter("ignore")
                self.study.enqueue_trial({"x": 0.25 + 0.1 * i})
        catch_classes = tuple(EXC_BY_NAME[c] for c in case["catch"])
        catch_arg: Any = catch_classes
        if case["catch_form"] == "list":
            catch_arg = list(catch_classes)
        elif case["catch_form"] == "single" and len(catch_classes) == 1:
            catch_arg = catch_classes[0]
        cbs = None if case.get("cb_none") else [self.make_cb(j) for j in range(case["n_cbs"])]
        runner = self
        fut_ids: dict[Any, int] = {}

        class TracingExecutor(ThreadPoolExecutor):
            def submit(self, fn, *args, **kw):  # type: ignore[no-untyped-def]
                i = runner.n_futures
                runner.n_futures += 1
                runner.log({"e": "submit"})

                def wrapped():  # type: ignore[no-untyped-def]
                    runner.tls.future = i
                    runner.log({"e": "begin", "i": i})
                    try:
                        r = fn(*args, **kw)
                    except BaseException as e:
                        runner.log({"e": "finish", "i": i, "r": runner.res_id(e)})
                        raise
                    runner.log({"e": "finish", "i": i})
                    return r

                f = super().submit(wrapped)
                fut_ids[f] = i
                return f

        def traced_wait(fs, timeout=None, return_when=ALL_COMPLETED):  # type: ignore[no-untyped-def]
            res = real_wait(fs, timeout=timeout, return_when=return_when)
            if return_when == FIRST_COMPLETED:
                runner.log({"e": "waitFirst", "c": sorted(fut_ids[f] for f in res.done)})
            else:
                runner.log({"e": "waitAll"})
            return res

        saved = (om.datetime, om.ThreadPoolExecutor, om.wait)
        info = case.get("log_info")
        null_handler = logging.NullHandler()
        if info:
            # INFO level makes _run_trial's logging branches (incl. study.best_trial) run; output is discarded
            logging.getLogger("optuna").addHandler(null_handler)
            optuna.logging.disable_default_handler()
            optuna.logging.set_verbosity(optuna.logging.INFO)
        try:
            if case["n_jobs"] == 1:
                om.datetime = self.clock.module  # type: ignore[assignment]
            else:
                om.ThreadPoolExecutor = TracingExecutor  # type: ignore[misc]
                om.wait = traced_wait  # type: ignore[assignment]
            with warnings.catch_warnings():
                warnings.simplefilter("ignore")
                try:
                    self.study.optimize(self.objective, n_trials=case["n_trials"], timeout=case["timeout"],
                                        n_jobs=case["n_jobs"], catch=catch_arg, callbacks=cbs,
                                        gc_after_trial=case.get("gc", False))
                except PlanExhausted:
                    raise
                except BaseException as e:
                    self.exc = e
        finally:
            om.datetime, om.ThreadPoolExecutor, om.wait = saved  # type: ignore[misc,assignment]
            if info:
                optuna.logging.set_verbosity(optuna.logging.ERROR)
                optuna.logging.enable_default_handler()
                logging.getLogger("optuna").removeHandler(null_handler)
        if case["n_jobs"] != 1:
            self.log({"e": "exit", "r": self.res_id(self.exc)} if self.exc is not None else {"e": "exit"})

    # ---- abstraction for the model --------------------------------------------------------------
    def model_plan(self, k: int) -> dict[str, Any]:
        ob, plan = self.obs[k], self.plans[k]
        env = plan.get("env", {})
        menv: dict[str, Any] = {}
        if env.get("after"):
            a = env["after"]
            menv["after"] = "kbd" if a == "kbd" else "raises:%d" % cid(EXC_BY_NAME[a.split(":")[1]])
        if env.get("interfere"):
            it = env["interfere"]
            menv["interfere"] = {"state": it["state"], "values": None if it["values"] is None else [xval(fdec(x)) for x in it["values"]]}
        script = {"reports": ob.reports, "out": ob.out or {"k": "ret", "v": None}, "pre": ob.pre, "env": menv}
        cbs = [{"stop": bool(c.get("stop")), "raises": cid(EXC_BY_NAME[c["raises"]]) if c.get("raises") else None} for c in plan["cbs"]]
        if self.case.get("cb_none"):
            cbs = []
        return {"askRaises": cid(EXC_BY_NAME[plan["ask_raises"]]) if plan.get("ask_raises") else None,
                "script": script, "sleep": ob.slept,
                "stopInObj": ob.stop, "cbs": cbs}

    def real_trials(self) -> list[dict[str, Any]]:
        out = []
        for t in self.study.get_trials(deepcopy=False):
            out.append({"number": t.number, "state": int(t.state),
                        "values": None if t.values is None else [xval(x) for x in t.values]})
        return out


# --------------------------------------------------------------------------------------------------
# checking one optimize case


def model_cfg(case: dict[str, Any]) -> dict[str, Any]:
    return {"nObj": case["n_obj"], "catch": catch_tokens(tuple(EXC_BY_NAME[c] for c in case["catch"]))}


def sig(kind: str, cause: str) -> dict[str, Any]:
    return {"kind": kind, "cause": cause}


def running_cause(run: Runner, k: int) -> str:
    ob, plan = run.obs[k], run.plans[k]
    if ob.ask_exc is not None or (ob.started and not ob.entered):
        return "sampler-raises-in-ask"
    if ob.out and ob.out.get("k") == "ret" and has_bad_cast(ob.out.get("v")):
        # regression of the repaired defect "a returned value whose float() raises any exception must
        # fail the trial" (and of F1): never a known finding, always an alarm
        return "float-failure"
    return "other"


def oracle_optimize(run: Runner) -> list[dict[str, Any]]:
    """The property itself, checked on the implementation without the model."""
    case = run.case
    fails: list[dict[str, Any]] = []
    trials = run.real_trials()
    catch = tuple(EXC_BY_NAME[c] for c in case["catch"])
    started = [t for t in trials if t["state"] != int(TrialState.WAITING)]
    for ft in run.study.get_trials(deepcopy=False):
        if ft.state.is_finished():
            try:
                ft._validate()
            except Exception as e:  # the library's own definition of a well-formed finished trial
                fails.append({"sig": sig("finished-trial-invalid", "FrozenTrial._validate"), "trial": ft.number,
                              "msg": "trial %d (%s) is not a valid FrozenTrial: %s" % (ft.number, ft.state.name, e)})
    for t in started:
        k = t["number"]
        ob = run.obs[k] if k < len(run.obs) else None
        st = t["state"]
        if st == int(TrialState.RUNNING):
            cause = running_cause(run, k) if ob else "other"
            fails.append({"sig": sig("trial-left-running", cause), "trial": k,
                          "msg": "trial %d is still RUNNING after optimize %s (cause: %s)" % (
                              k, "raised %s" % type(run.exc).__name__ if run.exc else "returned", cause)})
            continue
        if ob is None or not ob.entered:
            continue
        plan = run.plans[k]
        disturbed = ob.pre is not None or bool(plan.get("env", {}).get("interfere"))
        if disturbed:
            continue
        feas = py_feasible(ob.ret_obj, case["n_obj"]) if (ob.out and ob.out["k"] == "ret") else None
        if (st == int(TrialState.COMPLETE)) != (feas is not None):
            fails.append({"sig": sig("complete-iff-feasible", "state"), "trial": k,
                          "msg": "trial %d: state %s but returned value %r is %sfeasible" % (k, TrialState(st).name, ob.ret_obj, "" if feas is not None else "in")})
        elif feas is not None and t["values"] != [xval(x) for x in feas]:
            fails.append({"sig": sig("complete-iff-feasible", "values"), "trial": k,
                          "msg": "trial %d: stored values %s are not the float casts %s" % (k, t["values"], feas)})
        if st == int(TrialState.FAIL) and t["values"] is not None:
            fails.append({"sig": sig("fail-has-values", "values"), "trial": k, "msg": "FAIL trial %d has values %s" % (k, t["values"])})
        if ob.out and ob.out["k"] == "pruned":
            exp = None
            if ob.reports:
                top = max(s for s, _ in ob.reports)
                first = next(v for s, v in ob.reports if s == top)
                if first != "nan" and case["n_obj"] == 1:
                    exp = [first]
            if st != int(TrialState.PRUNED) or t["values"] != exp:
                fails.append({"sig": sig("pruned-value", "last-report"), "trial": k,
                              "msg": "pruned trial %d: state %s values %s, expected PRUNED %s (reports %s)" % (k, TrialState(st).name, t["values"], exp, ob.reports)})
        if ob.out and ob.out["k"] == "exc":
            if st != int(TrialState.FAIL):
                fails.append({"sig": sig("exception-not-failed", "state"), "trial": k,
                              "msg": "objective of trial %d raised %r but the trial is %s" % (k, ob.exc, TrialState(st).name)})
            uncaught = not (catch and isinstance(ob.exc, catch))
            env = plan.get("env", {})
            if uncaught and run.exc is None:
                fails.append({"sig": sig("uncaught-swallowed", "optimize-returned"), "trial": k,
                              "msg": "objective of trial %d raised %r (not in catch %s) but optimize returned normally" % (k, ob.exc, case["catch"])})
            elif uncaught and not env.get("after") and case["n_jobs"] == 1 and run.exc is not ob.exc:
                fails.append({"sig": sig("uncaught-replaced", "other-exception"), "trial": k,
                              "msg": "objective of trial %d raised %r uncaught; optimize raised %r instead" % (k, ob.exc, run.exc)})
            if not uncaught and run.exc is ob.exc:
                fails.append({"sig": sig("caught-exception-propagated", "catch"), "trial": k,
                              "msg": "objective of trial %d raised %r, an instance of catch=%s, but it left optimize" % (k, ob.exc, case["catch"])})
            if run.exc is ob.exc and any(n == k for n, _ in run.cb_log):
                fails.append({"sig": sig("callback-for-propagating-trial", "count"), "trial": k,
                              "msg": "the exception %r of trial %d propagated out of optimize, yet callbacks %s ran for it" % (
                                  ob.exc, k, [j for n, j in run.cb_log if n == k])})
        if ob.out and ob.out["k"] in ("pruned", "ret") and run.exc is not None and run.exc is ob.exc:
            fails.append({"sig": sig("pruned-propagated", "optimize-raised"), "trial": k,
                          "msg": "TrialPruned %r of trial %d left optimize" % (ob.exc, k)})
        if any(s not in (1, 2, 3) for s in ob.cb_seen):
            fails.append({"sig": sig("callback-saw-unfinished", "state"), "trial": k, "msg": "callback saw trial %d in state %s" % (k, ob.cb_seen)})
    # callbacks: never twice; once for every trial that is not the last started one
    n_cbs = 0 if case.get("cb_none") else case["n_cbs"]
    cnt = collections.Counter(map(tuple, run.cb_log))
    if any(c > 1 for c in cnt.values()):
        fails.append({"sig": sig("callback-twice", "count"), "msg": "callback invoked twice: %s" % [k for k, c in cnt.items() if c > 1]})
    if case["n_jobs"] == 1 and started:
        last = max(t["number"] for t in started)
        for t in started:
            for j in range(n_cbs):
                if t["number"] != last and cnt.get((t["number"], j), 0) != 1:
                    fails.append({"sig": sig("callback-missing", "count"), "msg": "callback %d ran %d times for trial %d" % (j, cnt.get((t["number"], j), 0), t["number"])})
        # the last started trial: when optimize returned normally nothing propagated, so every callback ran once for it
        # too - whatever ended the loop (n_trials, stop(), the timeout passing while the trial ran)
        if run.exc is None:
            for j in range(n_cbs):
                if cnt.get((last, j), 0) != 1:
                    fails.append({"sig": sig("callback-missing", "count"), "msg": "optimize returned normally (timeout=%r, n_trials=%r) but callback %d ran %d times for the last trial %d" % (
                        case["timeout"], case["n_trials"], j, cnt.get((last, j), 0), last)})
    # exactly n trials when nothing stops the loop
    quiet = (run.exc is None and case["timeout"] is None and case["n_trials"] is not None
             and not any(ob.stop for ob in run.obs) and not any(c.get("stop") for p in run.plans for c in p["cbs"]))
    if quiet and len(started) != case["n_trials"]:
        fails.append({"sig": sig("trial-count", "n_trials"), "msg": "%d trials ran, n_trials=%d, nothing stopped the loop" % (len(started), case["n_trials"])})
    return fails


def check_opt_case(case: dict[str, Any], drv: core.Driver, tmp: str) -> dict[str, Any]:
    """Run one optimize case on the real code and on the model. Returns a result dict (picklable)."""
    run = Runner(case, tmp)
    res: dict[str, Any] = {"violations": [], "broke": [], "tags": []}
    try:
        try:
            run.run_optimize()
        except PlanExhausted as e:
            res["broke"].append({"why": "harness: plan exhausted (%s)" % e})
            return res
        real_exc = token(run.exc)
        trials = run.real_trials()
        started = [t for t in trials if t["state"] != int(TrialState.WAITING)]
        res["violations"] = oracle_optimize(run)
        cfg = model_cfg(case)
        tags = set()
        for ob in run.obs:
            if ob.out:
                tags.add("out:" + ob.out["k"])
        for t in started:
            tags.add("state:" + TrialState(t["state"]).name)
        if real_exc:
            tags.add("exc:" + real_exc.split(":")[0])
        res["tags"] = sorted(tags)
        if case["n_jobs"] == 1:
            n_model = len(started) + 1
            plans = [run.model_plan(k) for k in range(min(n_model, len(run.plans)))]
            m = drv.ask({"cmd": "seq", "cfg": cfg, "nTrials": case["n_trials"], "timeout": case["timeout"], "plans": plans})
            if "trials" not in m:
                res["broke"].append({"why": "driver: %s" % m})
                return res
            mt = [{"state": x["final"]["state"], "values": x["final"]["values"]} for x in m["trials"]]
            rt = [{"state": t["state"], "values": t["values"]} for t in started]
            why = None
            if m["exhausted"]:
                why = "model: the loop would have continued beyond the %d trials the implementation ran" % len(started)
            elif mt != rt:
                why = "trials differ: model %s / implementation %s" % (json.dumps(mt), json.dumps(rt))
            elif m["raised"] != real_exc:
                why = "exception leaving optimize: model %s / implementation %s (%r)" % (m["raised"], real_exc, run.exc)
            elif m["cbLog"] != run.cb_log:
                why = "callback log: model %s / implementation %s" % (m["cbLog"], run.cb_log)
            if why:
                res["broke"].append({"why": why})
        else:
            # per trial: the future that ran it = optimizeSeq(n_trials=1) on its plan
            worker_exc: dict[int, str] = {}
            for k, t in enumerate(started):
                ob = run.obs[t["number"]]
                m = drv.ask({"cmd": "seq", "cfg": cfg, "nTrials": 1, "timeout": None, "plans": [run.model_plan(t["number"])]})
                if "trials" not in m or len(m["trials"]) != 1:
                    res["broke"].append({"why": "driver: %s" % m})
                    continue
                fin = m["trials"][0]["final"]
                if {"state": fin["state"], "values": fin["values"]} != {"state": t["state"], "values": t["values"]}:
                    res["broke"].append({"why": "trial %d: model %s / implementation %s" % (t["number"], fin, t)})
                mine = [j for (n, j) in run.cb_log if n == t["number"]]
                if mine != [j for (_, j) in m["cbLog"]]:
                    res["broke"].append({"why": "trial %d callbacks: model %s / implementation %s" % (t["number"], m["cbLog"], mine)})
                if m["raised"] is not None and ob.future is not None:
                    worker_exc[ob.future] = m["raised"]
            # the futures' results as the model predicts them must be what the trace recorded
            inv = {v: k for k, v in run.res_ids.items()}
            for ev in run.events:
                if ev["e"] == "finish":
                    got = inv.get(ev.get("r")) if ev.get("r") is not None else None
                    if worker_exc.get(ev["i"]) != got:
                        res["broke"].append({"why": "future %d: model says it raises %s, trace says %s" % (ev["i"], worker_exc.get(ev["i"]), got)})
            v = drv.ask({"cmd": "pool", "k": case["n_jobs"], "n": case["n_trials"], "events": run.events})
            res["trace_len"] = len(run.events)
            if not v.get("ok"):
                at = v.get("rejectedAt")
                res["broke"].append({"why": "thread-pool trace is not an execution of the model: event #%s %s rejected; trace %s" % (
                    at, run.events[at] if isinstance(at, int) and at < len(run.events) else v, json.dumps(run.events)[:1500])})
            elif not str(v.get("phase", "")).startswith("exited"):
                res["broke"].append({"why": "trace did not end in exit: %s" % v})
        return res
    finally:
        run.close()


# --------------------------------------------------------------------------------------------------
# Study.tell correspondence


def gen_tell_case(r: random.Random, storage: str = "mem") -> dict[str, Any]:
    n_obj = r.choice([1, 1, 2, 3])
    ops: list[dict[str, Any]] = []
    n_live = 0
    for _ in range(r.randrange(3, 14)):
        k = r.random()
        if k < 0.25 or n_live == 0:
            ops.append({"op": "ask"})
            n_live += 1
        elif k < 0.32:
            ops.append({"op": "enqueue"})
            n_live += 1
        elif k < 0.45:
            ops.append({"op": "report", "t": r.randrange(n_live), "step": r.choice([0, 1, 2, 5, 9]),
                        "value": fenc(r.choice(FLOATS))})
        else:
            ref: dict[str, Any]
            q = r.random()
            if q < 0.55:
                ref = {"by": "obj", "k": r.randrange(n_live)}
            elif q < 0.85:
                ref = {"by": "number", "n": r.choice([r.randrange(n_live), r.randrange(n_live), n_live + r.randrange(3), 10 ** 6])}
            elif q < 0.90 and storage == "mem":
                # a bool is an int for `_get_frozen_trial`; other backends (protobuf, SQL binding) may
                # refuse the bool itself, which is not this property's business
                ref = {"by": "bool", "v": r.random() < 0.5}
            else:
                ref = {"by": "bad", "v": r.choice(["str", "float", "none", "list"])}
            op: dict[str, Any] = {"op": "tell", "ref": ref, "state": r.choice([None, None, None, 0, 1, 1, 2, 2, 3, 3, 4]),
                                  "skip": r.random() < 0.4, "env": gen_env(r, n_obj, 0.12)}
            if r.random() < 0.7:
                op["values"] = gen_value(r, n_obj)
            ops.append(op)
    return {"kind": "tell", "n_obj": n_obj, "storage": storage, "sampler": r.choice(["random", "tpe", "nsga2"]),
            "pruner": r.choice(["default", "nop", "hyperband"]), "ops": ops}


WHY_OF = [("could not be cast to float", "cast"), ("is not acceptable", "nan"), ("did not match the number of the objectives", "count")]


def frozen_key(ft: optuna.trial.FrozenTrial) -> Any:
    return (int(ft.state), None if ft.values is None else [xval(x) for x in ft.values], ft.datetime_start, ft.datetime_complete,
            sorted(ft.params.items()), sorted((k, repr(v)) for k, v in ft.user_attrs.items()),
            sorted((k, repr(v)) for k, v in ft.system_attrs.items()), sorted((s, xval(v)) for s, v in ft.intermediate_values.items()))


def check_tell_case(case: dict[str, Any], drv: core.Driver, tmp: str) -> dict[str, Any]:
    res: dict[str, Any] = {"violations": [], "broke": [], "tags": []}
    run = Runner({"n_obj": case["n_obj"], "storage": case["storage"], "sampler": case["sampler"], "pruner": case["pruner"], "plans": []}, tmp)
    tags = set()
    try:
        study = run.study
        storage = study._storage
        objs: list[Any] = []   # ("trial", Trial) | ("number", n)
        for idx, op in enumerate(case["ops"]):
            with warnings.catch_warnings(record=True) as wlog:
                warnings.simplefilter("always")
                if op["op"] == "ask":
                    objs.append(study.ask())
                    continue
                if op["op"] == "enqueue":
                    study.enqueue_trial({"x": 0.5}, skip_if_exists=False)
                    n = len(study.get_trials(deepcopy=False)) - 1
                    objs.append(n)
                    continue
                if op["op"] == "report":
                    t = objs[op["t"]]
                    if isinstance(t, optuna.Trial):
                        tid, num = t._trial_id, t.number
                    else:
                        num = t
                        tid = storage.get_trial_id_from_study_id_trial_number(study._study_id, num)
                    try:
                        if isinstance(t, optuna.Trial) and case["n_obj"] == 1:
                            t.report(fdec(op["value"]), op["step"])
                        else:
                            if op["step"] not in storage.get_trial(tid).intermediate_values:
                                storage.set_trial_intermediate_value(tid, op["step"], fdec(op["value"]))
                    except Exception:
                        pass  # e.g. the trial is finished already
                    continue
            # ---- tell
            ref = op["ref"]
            n_trials = len(study.get_trials(deepcopy=False))
            if ref["by"] == "obj":
                arg: Any = objs[ref["k"]]
                if not isinstance(arg, optuna.Trial):
                    arg = int(arg)
            elif ref["by"] == "number":
                arg = ref["n"]
            elif ref["by"] == "bool":
                arg = ref["v"]
            else:
                arg = {"str": "0", "float": 0.0, "none": None, "list": [0]}[ref["v"]]
            if isinstance(arg, optuna.Trial):
                lookup, num = "found", arg.number
            elif isinstance(arg, int):
                num = int(arg)
                lookup = "found" if 0 <= num < n_trials else "unknown"
            else:
                lookup, num = "badType", -1
            before = None
            rec = {"state": 0, "values": None, "inter": []}
            slot_ob = TrialObs()
            if lookup == "found":
                tid = storage.get_trial_id_from_study_id_trial_number(study._study_id, num)
                before = copy.deepcopy(storage.get_trial(tid))
                rec = {"state": int(before.state), "values": None if before.values is None else [xval(x) for x in before.values],
                       "inter": [[s, xval(v)] for s, v in before.intermediate_values.items()]}
                # arm the sampler-side environment for exactly this tell
                while len(run.obs) <= num:
                    run.obs.append(TrialObs())
                    run.plans.append({})
                run.plans[num] = {"env": op.get("env", {})}
                run.obs[num] = slot_ob
                slot_ob.armed = True
            kwargs: dict[str, Any] = {"state": None if op["state"] is None else TrialState(op["state"]), "skip_if_finished": op["skip"]}
            vobj = None
            if "values" in op:
                vobj = build(op["values"])
                kwargs["values"] = vobj
            ret = exc = None
            with warnings.catch_warnings(record=True) as wlog:
                warnings.simplefilter("always")
                try:
                    ret = study.tell(arg, **kwargs)
                except BaseException as e:  # noqa: BLE001
                    exc = e
            slot_ob.armed = False
            warned = None
            for w in wlog:
                if issubclass(w.category, UserWarning):
                    msg = str(w.message)
                    if msg == "The value None could not be cast to float.":
                        warned = "none"
                    else:
                        warned = next((why for pat, why in WHY_OF if pat in msg), None)
                    if warned:
                        break
            after = storage.get_trial(tid) if lookup == "found" else None
            # ---- oracle: a finished trial is never altered
            if before is not None and before.state.is_finished():
                tags.add("tell-on-finished")
                if frozen_key(after) != frozen_key(before):
                    res["violations"].append({"sig": sig("tell-altered-finished", "record"), "op": idx,
                                              "msg": "tell(%r, %s) changed finished trial %d: %s -> %s" % (arg, kwargs, num, frozen_key(before), frozen_key(after))})
                if op["skip"] and (exc is not None or int(ret.state) != int(before.state) or ret.values != before.values):
                    res["violations"].append({"sig": sig("tell-skip", "result"), "op": idx, "msg": "skip_if_finished tell did not return the finished trial: %r %r" % (ret, exc)})
                if not op["skip"] and not isinstance(exc, ValueError):
                    res["violations"].append({"sig": sig("tell-finished-no-error", "result"), "op": idx, "msg": "tell on finished trial %d without skip_if_finished gave %r %r" % (num, ret, exc)})
            if before is not None and before.state == TrialState.RUNNING and after.state == TrialState.RUNNING and exc is None:
                res["violations"].append({"sig": sig("tell-returned-running", "state"), "op": idx, "msg": "tell returned normally but trial %d is RUNNING" % num})
            if before is not None and before.state == TrialState.RUNNING and not op.get("env", {}).get("interfere") and op["state"] is None and exc is None:
                feas = py_feasible(vobj, case["n_obj"])
                if (after.state == TrialState.COMPLETE) != (feas is not None) or (feas is not None and [xval(x) for x in after.values] != [xval(x) for x in feas]):
                    res["violations"].append({"sig": sig("complete-iff-feasible", "tell"), "op": idx,
                                              "msg": "tell(%r): %s %s, value feasible=%s" % (vobj, after.state.name, after.values, feas)})
            # ---- model
            env = op.get("env", {})
            menv: dict[str, Any] = {}
            if env.get("after"):
                a = env["after"]
                menv["after"] = "kbd" if a == "kbd" else "raises:%d" % cid(EXC_BY_NAME[a.split(":")[1]])
            if env.get("interfere"):
                it = env["interfere"]
                menv["interfere"] = {"state": it["state"], "values": None if it["values"] is None else [xval(fdec(x)) for x in it["values"]]}
            m = drv.ask({"cmd": "tell", "nObj": case["n_obj"], "env": menv, "lookup": lookup, "rec": rec,
                         "args": {"v": classify(vobj), "state": op["state"], "skip": op["skip"]}})
            if "out" not in m:
                res["broke"].append({"why": "driver: %s" % m})
                break
            mo = m["out"]
            tags.add("tell:" + mo["k"] + (":" + str(mo.get("e", mo.get("state")))))
            if exc is not None:
                real = {"k": "raised", "e": token(exc)}
            else:
                real = {"k": "skipped" if (before is not None and before.state.is_finished()) else "ok", "state": int(ret.state),
                        "values": None if ret.values is None else [xval(x) for x in ret.values]}
                if real["k"] == "ok":
                    real["warned"] = warned
            cmp_m = {k: v for k, v in mo.items() if k != "warnKey"}
            why = None
            if cmp_m != real:
                why = "tell outcome: model %s / implementation %s" % (cmp_m, real)
            elif after is not None:
                ra = {"state": int(after.state), "values": None if after.values is None else [xval(x) for x in after.values]}
                if {"state": m["rec"]["state"], "values": m["rec"]["values"]} != ra:
                    why = "record after tell: model %s / implementation %s" % (m["rec"], ra)
            if why:
                res["broke"].append({"why": "op %d tell(%r, %s) on %s: %s" % (idx, arg, {k: (v if k != "values" else op.get("values")) for k, v in kwargs.items()}, rec, why), "op": idx})
                break
        res["tags"] = sorted(tags)
        return res
    finally:
        run.close()


# --------------------------------------------------------------------------------------------------
# fixed probes: the corner cases the property statement names, the witnesses of the repaired defects
# (F1, F2, float() raising any exception) as regression tests, and the witness of the known finding


def fixed_cases() -> list[dict[str, Any]]:
    def one(end: dict[str, Any], **kw: Any) -> dict[str, Any]:
        plan = {"acts": kw.pop("acts", []), "end": end, "env": kw.pop("env", {}), "cbs": [{"stop": False}]}
        if "pre" in kw:
            plan["pre"] = kw.pop("pre")
        if "ask_raises" in kw:
            plan["ask_raises"] = kw.pop("ask_raises")
        case = {"kind": "seq", "n_obj": 1, "n_jobs": 1, "storage": "mem", "sampler": "random", "pruner": "default", "n_cbs": 1,
                "cb_none": False, "gc": False, "catch": [], "catch_form": "tuple", "enqueue": 0, "log_info": False, "timeout": None,
                "n_trials": 1, "plans": [plan, copy.deepcopy(plan)]}
        case.update(kw)
        return case

    F = lambda x: {"t": "float", "v": fenc(x)}  # noqa: E731
    out = [
        one({"k": "ret", "v": {"t": "str", "v": "5"}}),
        one({"k": "ret", "v": {"t": "list", "v": [{"t": "str", "v": "5"}]}}),
        one({"k": "ret", "v": {"t": "int", "v": str(10 ** 400)}}),
        one({"k": "ret", "v": {"t": "bytes", "v": "5"}}),
        one({"k": "ret", "v": F(math.nan)}),
        one({"k": "ret", "v": {"t": "none"}}),
        one({"k": "ret", "v": {"t": "list", "v": [F(1.0), F(math.nan)]}}, n_obj=2),
        one({"k": "ret", "v": {"t": "list", "v": [F(1.0), F(2.0)]}}),
        one({"k": "ret", "v": {"t": "floatraises", "v": "OverflowError"}}),
        one({"k": "ret", "v": {"t": "floatraises", "v": "RuntimeError"}}),                       # regression: repaired, must end FAIL
        one({"k": "ret", "v": {"t": "floatraises", "v": "ZeroDivisionError"}}),
        one({"k": "ret", "v": {"t": "list", "v": [{"t": "floatraises", "v": "VerifUserError"}, F(math.nan)]}}, n_obj=2),
        one({"k": "ret", "v": {"t": "list", "v": [F(math.nan), {"t": "floatraises", "v": "RuntimeError"}]}}, n_obj=2),
        one({"k": "ret", "v": F(1.0)}, ask_raises="RuntimeError"),                                # finding: ask raises
        one({"k": "raise", "cls": "ValueError"}),
        one({"k": "raise", "cls": "VerifValueSub"}, catch=["ValueError"], n_trials=2),
        one({"k": "raise", "cls": "KeyboardInterrupt"}),
        one({"k": "raise", "cls": "ValueError"}, env={"after": "raises:RuntimeError"}, catch=["ValueError"]),
        one({"k": "ret", "v": F(math.nan)}, env={"after": "raises:RuntimeError"}),
        one({"k": "ret", "v": F(1.0)}, env={"after": "kbd"}),
        one({"k": "ret", "v": F(1.0)}, env={"interfere": {"state": 3, "values": None}}),
        one({"k": "ret", "v": F(1.0)}, pre={"state": 1, "via": "tell", "values": [fenc(4.0)]}),
        one({"k": "raise", "cls": "KeyError"}, pre={"state": 3, "via": "storage", "values": None}),
        one({"k": "pruned"}, acts=[{"a": "report", "step": 3, "value": F(1.0)}, {"a": "report", "step": 1, "value": F(2.0)},
                                   {"a": "report", "step": 3, "value": F(5.0)}]),
        one({"k": "pruned"}, acts=[{"a": "report", "step": 0, "value": F(1.0)}, {"a": "report", "step": 4, "value": F(math.nan)}]),
        one({"k": "pruned", "sub": True}, n_trials=2),
    ]
    # a raising trial in the last batch of a thread pool (F2's witness)
    p_ok = {"acts": [], "end": {"k": "ret", "v": F(1.0)}, "env": {}, "cbs": []}
    p_bad = {"acts": [], "end": {"k": "raise", "cls": "VerifUserError"}, "env": {}, "cbs": []}
    out.append({"kind": "pool", "n_obj": 1, "n_jobs": 2, "storage": "mem", "sampler": "random", "pruner": "default", "n_cbs": 0,
                "cb_none": True, "gc": False, "catch": [], "catch_form": "tuple", "enqueue": 0, "log_info": False, "timeout": None,
                "n_trials": 1, "plans": [p_bad, p_ok]})
    out.append({"kind": "pool", "n_obj": 1, "n_jobs": 3, "storage": "mem", "sampler": "random", "pruner": "default", "n_cbs": 0,
                "cb_none": True, "gc": False, "catch": [], "catch_form": "tuple", "enqueue": 0, "log_info": False, "timeout": None,
                "n_trials": 3, "plans": [p_ok, p_ok, p_bad, p_ok]})
    return out


# --------------------------------------------------------------------------------------------------
# driver of the whole check


CASE_TIMEOUT_S = int(os.environ.get("VERIF_C02_CASE_TIMEOUT", "240"))
_CURRENT_CASE: list[Any] = [None]


def run_case(case: dict[str, Any], drv: core.Driver, tmp: str) -> dict[str, Any]:
    if case["kind"] == "tell":
        return check_tell_case(case, drv, tmp)
    return check_opt_case(case, drv, tmp)


def _worker(args: tuple[list[dict[str, Any]], str]) -> list[dict[str, Any]]:
    import faulthandler

    cases, tmp = args
    drv = core.Driver("tell")
    out = []
    try:
        for case in cases:
            # watchdog: a case that does not finish is a hang (of the code under test or of the harness);
            # dump every thread's stack and kill the worker so that the run ends as an infrastructure
            # failure instead of waiting for ever
            faulthandler.dump_traceback_later(CASE_TIMEOUT_S, exit=True)
            try:
                _CURRENT_CASE[0] = case
                out.append(run_case(case, drv, tmp))
            except core.DriverBroken as e:
                out.append({"violations": [], "broke": [{"why": "driver broken: %s" % str(e)[:300]}], "tags": []})
                drv = core.Driver("tell")
            except Exception as e:  # the harness itself failed on this case: not silent
                import traceback
                out.append({"violations": [], "broke": [{"why": "harness exception %r: %s" % (e, traceback.format_exc()[-800:])}], "tags": []})
            finally:
                faulthandler.cancel_dump_traceback_later()
    finally:
        drv.close()
    return out


def _map_workers(jobs: list[tuple[list[dict[str, Any]], str]], n_proc: int) -> list[list[dict[str, Any]]]:
    """Run `_worker` over the jobs in spawned processes.  A worker that dies (the per-case watchdog
    kills it after dumping all stacks to stderr) ends the run as an infrastructure failure (exit 2)
    rather than hanging it."""
    import multiprocessing as mp
    from concurrent.futures import ProcessPoolExecutor
    from concurrent.futures.process import BrokenProcessPool

    try:
        with ProcessPoolExecutor(max_workers=n_proc, mp_context=mp.get_context("spawn")) as ex:
            return list(ex.map(_worker, jobs))
    except BrokenProcessPool as e:
        raise core.InfraError("a harness worker died or a case exceeded %d s (stacks on stderr): %r" % (CASE_TIMEOUT_S, e))


def shrink_opt_case(case: dict[str, Any], pred, tmp: str) -> dict[str, Any]:  # type: ignore[no-untyped-def]
    """Greedy shrinking of an optimize case that still satisfies `pred(result)`."""
    drv = core.Driver("tell")
    try:
        def ok(c: dict[str, Any]) -> bool:
            try:
                return bool(pred(run_case(c, drv, tmp)))
            except Exception:
                return False

        cur = copy.deepcopy(case)
        if cur["kind"] == "tell":
            ops = core.ddmin(cur["ops"], lambda o: ok(dict(cur, ops=o)), budget=60)
            return dict(cur, ops=ops)
        for simpler in ({"enqueue": 0}, {"log_info": False}, {"gc": False}, {"sampler": "random"}, {"pruner": "default"}, {"storage": "mem"}):
            c2 = dict(cur, **simpler)
            if c2 != cur and ok(c2):
                cur = c2
        # fewer trials
        while cur["n_trials"] and cur["n_trials"] > 1:
            c2 = copy.deepcopy(cur)
            c2["n_trials"] -= 1
            c2["plans"] = c2["plans"][: c2["n_trials"] + 1]
            if ok(c2):
                cur = c2
            else:
                break
        i = 0
        while cur["n_trials"] and cur["n_trials"] > 1 and i < len(cur["plans"]) - 1:
            c2 = copy.deepcopy(cur)
            del c2["plans"][i]
            c2["n_trials"] -= 1
            if ok(c2):
                cur = c2
            else:
                i += 1
        for i in range(len(cur["plans"])):
            for key, val in (("acts", []), ("env", {}), ("pre", None)):
                c2 = copy.deepcopy(cur)
                if c2["plans"][i].get(key) in (val, None) and key != "acts":
                    continue
                c2["plans"][i][key] = val
                if val is None:
                    c2["plans"][i].pop(key, None)
                if ok(c2):
                    cur = c2
        return cur
    finally:
        drv.close()


def main(chk: core.Check) -> int:
    import multiprocessing as mp

    chk.rule = RULE
    quick = chk.tier == "quick"
    # ---- translate + prove
    try:
        from verif.translators import tell_gen
        tell_gen.regenerate(chk)
    except ImportError:
        pass
    if not getattr(chk, "no_prove", False):
        chk.prove()
    try:
        core.ensure_driver()
    except core.DriverBroken as e:
        chk.broke("correspondence", {"driver": str(e)[:800]})
        return chk.finish()
    r = chk.rng
    # ---- cases
    cases: list[dict[str, Any]] = [c["case"] for c in core.corpus_cases("C02")] + fixed_cases()
    n_seq, n_tell, n_pool, n_other = (1400, 800, 260, 60) if quick else (30000, 16000, 5000, 900)
    for _ in range(n_seq):
        cases.append(gen_opt_case(r, chk.tier))
    for _ in range(n_tell):
        cases.append(gen_tell_case(r))
    for _ in range(n_pool):
        cases.append(gen_opt_case(r, chk.tier, n_jobs=r.choice([2, 3])))
    others = ["rdb", "journal-symlink", "cached", "grpc(mem)"] if quick else ["rdb", "journal-symlink", "journal-redis", "cached", "grpc(mem)", "grpc(rdb)"]
    for i in range(n_other):
        st = others[i % len(others)]
        k = r.random()
        cases.append(gen_tell_case(r, st) if k < 0.3 else gen_opt_case(r, "quick", n_jobs=1 if k < 0.8 else 2, storage=st))
    for c in cases:
        c.setdefault("sseed", r.randrange(1 << 30))
    n_proc = 12
    chunks: list[list[dict[str, Any]]] = [[] for _ in range(n_proc * 4)]
    for i, c in enumerate(cases):
        chunks[i % len(chunks)].append(c)
    results_chunks = _map_workers([(ch, chk.tmp) for ch in chunks if ch], n_proc)
    flat_cases = [c for ch in chunks if ch for c in ch]
    flat_res = [x for rc in results_chunks for x in rc]
    first_broke: tuple[dict[str, Any], dict[str, Any]] | None = None
    viol_seen: dict[str, tuple[dict[str, Any], dict[str, Any]]] = {}
    for case, res in zip(flat_cases, flat_res):
        tags = res.get("tags", [])
        chk.case({"kind": case["kind"], "case": case}, nontrivial=len(tags) >= 2)
        chk.count("kind:" + case["kind"])
        chk.count("storage:" + case.get("storage", "mem"))
        for t in tags:
            chk.count(t)
        if case["kind"] == "pool" and res.get("trace_len"):
            chk.traces_validated += 1
            chk.count("pool-trace-events", res["trace_len"])
        for v in res["violations"]:
            key = core.canon(v["sig"])
            if key not in viol_seen:
                viol_seen[key] = (case, v)
        if res["broke"] and first_broke is None:
            first_broke = (case, res["broke"][0])
        for b in res["broke"][:1]:
            chk.count("broke")
    # ---- report
    for key, (case, v) in viol_seen.items():
        known = any(kf.get("property") == "C02" and kf.get("status") == "open" and
                    all(v["sig"].get(a) == b for a, b in kf.get("match", {}).items()) for kf in core.load_known_findings())
        small, msg = case, v["msg"]
        if not known:
            try:
                small = shrink_opt_case(case, lambda rr: any(core.canon(x["sig"]) == key for x in rr["violations"]), chk.tmp)
                drv = core.Driver("tell")
                try:
                    msg = next((x["msg"] for x in run_case(small, drv, chk.tmp)["violations"] if core.canon(x["sig"]) == key), msg)
                finally:
                    drv.close()
            except Exception:
                small = case
        chk.violation(v["sig"], {"case": small}, msg)
    if first_broke is not None:
        case, b = first_broke
        # a model/code disagreement without an oracle failure: correspondence broken
        if not any(True for _ in chk.violations):
            try:
                case = shrink_opt_case(case, lambda rr: bool(rr["broke"]), chk.tmp)
            except Exception:
                pass
        chk.broke("correspondence", {"first": b["why"][:1500], "case": case, "n_cases_disagreeing": chk.hist.get("broke", 0)})
    chk.extra["class_ids"] = dict(_CLASS_IDS)
    chk.assumptions += [
        "float(), iteration and len() of a returned value are deterministic and side-effect free; repr()/str() of it do not raise",
        "the objective raises Exception subclasses or KeyboardInterrupt (SystemExit / GeneratorExit are outside the property)",
        "storage calls fail only as the storage contract (C01) says: UpdateFinishedTrialError for a finished trial",
        "ThreadPoolExecutor.__exit__ joins every submitted work item (CPython concurrent.futures)",
        "warnings are not turned into errors (a UserWarning raised as an error by Study.tell leaves the trial RUNNING by design)",
    ]
    chk.trusted += ["verif/props/c02.py: value classifier (float / isinstance(Sequence) / iteration on the returned object), exception tagging, thread-pool trace recorder (wrappers around ThreadPoolExecutor.submit and concurrent.futures.wait inside optuna.study._optimize)"]
    return chk.finish(search=search)


def search(chk: core.Check) -> None:
    """Failing-input search on the real code (only the model-free oracles), run when something broke
    and no violation is known yet: many more programs, adversarial mix."""
    import multiprocessing as mp

    r = random.Random(chk.seed * 7919 + 2)
    cases = [gen_opt_case(r, "thorough", n_jobs=r.choice([1, 1, 1, 2, 3])) for _ in range(2500)] + [gen_tell_case(r) for _ in range(1200)]
    for c in cases:
        c["sseed"] = r.randrange(1 << 30)
    chunks = [cases[i::24] for i in range(24)]
    out = _map_workers([(ch, chk.tmp) for ch in chunks], 12)
    n = 0
    for ch, rs in zip(chunks, out):
        for case, res in zip(ch, rs):
            n += 1
            for v in res["violations"]:
                small = shrink_opt_case(case, lambda rr: any(x["sig"] == v["sig"] for x in rr["violations"]), chk.tmp)
                if not chk.violation(v["sig"], {"case": small}, v["msg"]):
                    chk.search_log.append("violation found after %d search cases" % n)
                    return
    chk.search_log.append("search: %d further programs on the real code, all oracles hold" % n)


def replay(chk: core.Check, path: str) -> int:
    w = json.load(open(path))
    core.ensure_driver()
    drv = core.Driver("tell")
    try:
        case = (w.get("witness") or {}).get("case") or (w.get("no_longer_checks") or [{}])[0].get("detail", {}).get("case")
        if case is None:
            print("replay file has no case")
            return 2
        res = run_case(case, drv, chk.tmp)
    finally:
        drv.close()
    bad = False
    for v in res["violations"]:
        print("REPRODUCED violation %s: %s" % (json.dumps(v["sig"]), v["msg"][:400]))
        bad = True
    for b in res["broke"]:
        print("REPRODUCED model/implementation disagreement: %s" % b["why"][:600])
        bad = True
    if not bad:
        print("not reproduced")
    return 1 if bad else 0
