"""C02 / C04, translator tie: the trial life-cycle functions as written in the source today -> Lean data -> proved equal to
the hand models (Model/Tell.lean, Model/Queue.lean).

regenerate(chk, relevant)   run verif/translators/ttell.py on core.REPO, write lean/OptunaVerif/Generated/TellMethods.lean (only when
                  the text changed), record what was read in chk.translated / chk.extra, and report every untranslatable
                  function as chk.broke("translation", ...).  Call it BEFORE chk.prove([... MODULE_C02 / MODULE_C04]).
MODULE_C02/_C04   the Props modules with the `interp generated = hand model` equalities and the restated theorems.
DRIVER            name of the sub-driver that speaks the protocol of `tell` and runs the interpreter of the generated bodies
                  side by side with the hand model (field "gen" of every tell / trial / seq answer).
gen_disagreement(resp)  -> None | {"generated": ..., "hand": ...}
explain_proof_failure(chk, module)  after a failed chk.prove: names the declarations of the module that no longer check.
differential(chk, n)    seeded synthetic inputs (no real optuna involved) run by both through that driver.

Used by verif/props/c02.py and c04.py (helper module, like c06_gen.py for C06).
"""
from __future__ import annotations

import os
import re
from typing import Any

from verif import core
from verif.translators import ttell

OUT = os.path.join(core.LEAN_DIR, "OptunaVerif", "Generated", "TellMethods.lean")
MODULE_C02 = "OptunaVerif.Props.C02Gen"
MODULE_C04 = "OptunaVerif.Props.C04Gen"
DRIVER = "tellgen"
ASSUMPTION = ("T-tell: logging calls (_logger.info/debug, _log_failed_trial, study._log_completed_trial), gc.collect, "
              "progress_bar.update, sampler.reseed_rng, storage.remove_session, fail_stale_trials and the heartbeat thread's "
              "__enter__/__exit__ neither raise nor touch the trial being run; str()/repr() of a returned value does not raise")


C02_FUNCS = {"_check_state_and_values", "_check_values_are_feasible", "_tell_with_warning", "_tell_with_warning signature",
             "_run_trial", "_optimize_sequential", "ask", "_get_frozen_trial", "tell", "optuna/exceptions.py"}
C04_FUNCS = {"_pop_waiting_trial_id"}


def regenerate(chk: core.Check | None = None, relevant: set[str] | None = None) -> dict[str, Any] | None:
    """`relevant`: names of the translated functions this property's proofs use; an untranslatable function outside that set
    is left to the other property's check (the generated file is shared)"""
    try:
        text, info, problems = ttell.translate(core.REPO)
    except (ttell.Untranslatable, SyntaxError, OSError) as e:
        if chk is None:
            raise
        chk.broke("translation", {"translator": "T-tell", "why": str(e)[:600]})
        return None
    changed = core.write_if_changed(OUT, text)
    if chk is not None:
        fs = info["functions"]
        n_ok = sum(1 for v in fs.values() if v is not None)
        line = "TellMethods: %d/%d function bodies of optuna/study/{_tell,_optimize,study}.py as statement IR (%s)%s" % (
            n_ok, len(fs), ", ".join("%s:%s" % (k, v) for k, v in fs.items()), " (file changed)" if changed else "")
        if line not in chk.translated:
            chk.translated.append(line)
        chk.extra["tell_ir"] = {"statements": fs, "exc_bases": info["exc_bases"], "ask_prefix_skipped": info["ask_prefix"]}
        for p in problems:
            if relevant is None or p["what"] in relevant:
                chk.broke("translation", dict(p, translator="T-tell"))
        if ASSUMPTION not in chk.assumptions:
            chk.assumptions.append(ASSUMPTION)
    return info


def explain_proof_failure(chk: core.Check, module: str) -> list[str]:
    """after chk.prove([..., module]) failed: name the declarations of that Props file whose proof no longer checks
    (the build log only has line numbers); recorded in chk.extra["<module>_failed"]"""
    pr = chk.proof
    if pr is None or pr.ok:
        return []
    rel = module.replace(".", "/") + ".lean"
    base = re.escape(rel.split("OptunaVerif/", 1)[1])
    lines = sorted({int(m.group(1)) for m in re.finditer(base + r":(\d+):\d+: error", pr.build_log)}
                   | {int(m.group(1)) for m in re.finditer(r"error: \S*" + base + r":(\d+):", pr.build_log)})
    if not lines:
        return []
    src = open(os.path.join(core.LEAN_DIR, rel)).read().splitlines()
    names: list[str] = []
    for ln in lines:
        name = None
        for i in range(min(ln, len(src)) - 1, -1, -1):
            m = re.match(r"\s*(?:theorem|def|example|lemma)\b\s*([^\s:(]*)", src[i])
            if m:
                name = m.group(1) or ("example at line %d: %s" % (i + 1, src[i].strip()[:90]))
                break
        if name and name not in names:
            names.append(name)
    chk.extra[module.split(".")[-1] + "_failed"] = names
    chk.broke("proof", {"module": module, "generated_bodies_no_longer_equal_hand_model": names})
    return names


def gen_disagreement(resp: Any) -> Any:
    """the "gen" field of an answer of the `tellgen` driver (None = generated interpreter and hand model agree)"""
    if isinstance(resp, dict):
        return resp.get("gen")
    return None


# ---- differential on synthetic inputs ---------------------------------------------------------------------------------
XV = ["1/2", "-3/1", "0/1", "7/3", "inf", "-inf", "nan"]
BAD = ["value", "type", "overflow", "other:3", "other:9"]
EXC = ["user:1", "user:2", "kbd", "ValueError", "TypeError", "UpdateFinishedTrialError", "AssertionError", "cast:value", "cast:other:4"]


def _elem(r: Any) -> dict[str, Any]:
    return {"bad": r.choice(BAD)} if r.random() < 0.25 else {"ok": r.choice(XV if r.random() < 0.3 else XV[:4])}


def _pyval(r: Any, n_obj: int) -> Any:
    k = r.random()
    if k < 0.15:
        return None
    if k < 0.45:
        return {"scalar": _elem(r)}
    n = n_obj if r.random() < 0.7 else r.randrange(0, 4)
    return {"seq": [_elem(r) for _ in range(n)]}


def _env(r: Any, n_obj: int) -> dict[str, Any]:
    env: dict[str, Any] = {}
    if r.random() < 0.3:
        env["after"] = r.choice(["raises:5", "raises:1", "kbd", "ok"])
    if r.random() < 0.2:
        st = r.choice([1, 2, 3])
        env["interfere"] = {"state": st, "values": [r.choice(XV[:4]) for _ in range(n_obj)] if st == 1 else None}
    return env


def _reports(r: Any) -> list[list[Any]]:
    return [[r.choice([0, 1, 2, 5]), r.choice(XV)] for _ in range(r.choice([0, 0, 1, 2, 4]))]


def _script(r: Any, n_obj: int) -> dict[str, Any]:
    k = r.random()
    out: dict[str, Any] = {"k": "ret", "v": _pyval(r, n_obj)} if k < 0.6 else {"k": "pruned"} if k < 0.75 else {"k": "exc", "e": r.choice(EXC)}
    pre = None
    if r.random() < 0.12:
        st = r.choice([1, 2, 3])
        pre = {"state": st, "values": [r.choice(XV[:4]) for _ in range(n_obj)] if st == 1 else None}
    return {"reports": _reports(r), "out": out, "pre": pre, "env": _env(r, n_obj)}


def _cfg(r: Any, n_obj: int) -> dict[str, Any]:
    return {"nObj": n_obj, "catch": sorted(set(r.choice(EXC) for _ in range(r.choice([0, 0, 1, 2, 4]))))}


def _flags(r: Any) -> dict[str, bool]:
    return {k: r.random() < (0.15 if k == "cbNone" else 0.3) for k in ("hb", "popFound", "gc", "pb", "cbNone")}


def _inter(r: Any) -> list[list[Any]]:
    steps = r.sample([0, 1, 2, 3, 5, 8], r.choice([0, 0, 1, 2, 3]))
    return [[s, r.choice(XV)] for s in steps]


def synthetic(r: Any) -> dict[str, Any]:
    n_obj = r.choice([1, 1, 2, 3])
    k = r.random()
    if k < 0.45:
        st = r.choice([0, 0, 0, 0, 1, 2, 3, 4])
        rec = {"state": st, "values": [r.choice(XV[:4]) for _ in range(n_obj)] if st == 1 else None, "inter": _inter(r)}
        args: dict[str, Any] = {"v": _pyval(r, n_obj), "state": r.choice([None, None, None, 0, 1, 1, 2, 2, 3, 3, 4]), "skip": r.random() < 0.4}
        return {"cmd": "tell", "nObj": n_obj, "env": _env(r, n_obj), "lookup": r.choice(["found"] * 8 + ["unknown", "badType"]),
                "how": r.choice(["obj", "number"]), "rec": rec, "args": args}
    if k < 0.7:
        return dict({"cmd": "trial", "cfg": _cfg(r, n_obj), "script": _script(r, n_obj)}, **_flags(r))
    plans = []
    for _ in range(r.choice([1, 2, 3, 5])):
        cbs = [{"stop": r.random() < 0.1, "raises": r.choice([None] * 8 + [1, 6])} for _ in range(r.choice([0, 1, 2, 3]))]
        plans.append({"askRaises": r.choice([None] * 9 + [4]), "script": _script(r, n_obj), "sleep": r.choice([0, 0, 1, 3]),
                      "stopInObj": r.random() < 0.1, "cbs": cbs})
    return dict({"cmd": "seq", "cfg": _cfg(r, n_obj), "nTrials": r.choice([None, 1, 2, 3, 4, 6]), "timeout": r.choice([None, None, 0, 2, 5]),
                 "plans": plans}, **_flags(r))


def differential(chk: core.Check, n: int) -> None:
    """generated interpreter vs hand model on seeded synthetic tell / trial / seq commands"""
    drv = core.Driver(DRIVER)
    try:
        for _ in range(n):
            q = synthetic(chk.rng)
            resp = drv.ask(q)
            if not isinstance(resp, dict) or "gen" not in resp:
                raise core.DriverBroken("driver %s rejected %s: %s" % (DRIVER, q, resp))
            chk.count("gen-differential:" + q["cmd"])
            if resp["gen"] is not None:
                chk.broke("correspondence", {"what": "interpreter of the generated function bodies differs from the hand model (Model/Tell.lean)",
                                             "first": resp["gen"], "input": q})
                break
    finally:
        drv.close()
