"""C02 — replay of real `study.optimize(n_jobs = k)` runs through the refined pool model (Model/PoolRun.lean).

correspond(chk, tier)
    Real runs of `Study.optimize(objective, n_trials, n_jobs=k, timeout, callbacks, catch)` on in-memory storage with
    scripted objectives (return a float / a NaN carried by a float or by numpy.float32 / raise an exception in `catch` /
    raise one that is not / prune with and without a report / call study.stop() / sleep to force overlaps), k in {2,3,4},
    n_trials < k, = k, > k, and None with a timeout.  Every run is recorded through wrappers around LIVE objects only
    (no repo change): `optuna.study._optimize.ThreadPoolExecutor` / `.wait` (submit, waitFirst, waitAll, interrupt), the
    function the executor runs (`_optimize_sequential`: finish i with the result class, the row as the worker left it and
    the callbacks that ran), the study's `_stop_flag` attribute (a property on a per-run subclass: the worker's read at its
    loop head IS the `begin i` event, a write of True from a worker IS `stopCalled i`; both under one lock, so the recorded
    order is the real order) and the storage's `create_new_trial` (the trial number future i got).  The trace goes to the
    sub-driver `poolrun` (lean/Driver/Sub/PoolRun.lean), which runs `PoolRun.step` event by event and reports the first
    event the model rejects or the first observed field (stop flag read, trial created or not, result class, row state /
    values, callbacks, submitted count, final rows / callback log) where model and run differ.

    Main-thread KeyboardInterrupt: (a) delivered while the main thread is inside `wait(...)` (an objective waits until the
    traced `wait` has been entered, calls `_thread.interrupt_main()` and sleeps): must replay as the model's `interrupt` +
    joined `exit` (all trials terminal when optimize raises).  (b) delivered at once by the second trial's objective, which
    usually lands inside `executor.submit` -> `_adjust_thread_count` -> `Thread.start()`: CPython then leaves a worker thread
    that `__exit__` does not join.  (b) is an OBSERVATION stage: outcomes are counted (chk.extra["poolrun_interrupt_submit"]),
    never a violation — unless a trial is still RUNNING after the harness has joined every thread it can see.

    Model-free oracle beside the replay: when optimize returns or raises no trial of the study is RUNNING (for (b): after
    joining the orphan threads); every callback ran exactly once for every trial whose exception did not propagate (up to
    the first raising callback), never otherwise.

Clock: `optuna.study._optimize.datetime` is proxied for the run, so the recorder SEES every clock reading: a main-thread
reading with `(now - time_start).total_seconds() > timeout` is the model's `timeout` event (the submit loop's third `break`),
a worker's first reading with `>= timeout` is `PoolRun.Job.elapsed` of its job.  Timeout runs replay as what they are.
"""
from __future__ import annotations

import _thread
import collections
import fractions
import json
import math
import random
import sys
import threading
import time
import traceback
import warnings
from concurrent.futures import ALL_COMPLETED, FIRST_COMPLETED, ThreadPoolExecutor
from concurrent.futures import wait as real_wait
from typing import Any

from verif import core

DRIVER = "poolrun"
CLS = {"ValueError": 1, "RuntimeError": 2, "KeyError": 3, "ZeroDivisionError": 4}
EXC = {"ValueError": ValueError, "RuntimeError": RuntimeError, "KeyError": KeyError, "ZeroDivisionError": ZeroDivisionError}
KBD = 1000
OTHER = 1099
CASE_TIMEOUT_S = 60


def xval(f: float) -> str:
    if f != f:
        return "nan"
    if f == math.inf:
        return "inf"
    if f == -math.inf:
        return "-inf"
    q = fractions.Fraction(f)
    return "%d/%d" % (q.numerator, q.denominator)


def cls_of(e: BaseException | None) -> int | None:
    if e is None:
        return None
    if isinstance(e, KeyboardInterrupt):
        return KBD
    return CLS.get(type(e).__name__, OTHER) if getattr(e, "_verif", False) else OTHER


# --------------------------------------------------------------------------------------------------
# cases


def gen_job(r: random.Random, n_cbs: int, calm: bool) -> dict[str, Any]:
    end = r.choice(["ret", "ret", "ret", "nan", "npnan", "raise", "raise", "prune", "prune_report"] if not calm else ["ret", "ret", "prune"])
    job: dict[str, Any] = {"end": end, "value": r.choice([0.5, 1.0, -2.25, 3.0, math.inf]), "sleep": r.choice([0.0, 0.01, 0.02, 0.04, 0.07]),
                           "stop": r.random() < 0.12, "cbs": []}
    if end == "raise":
        job["cls"] = r.choice(sorted(CLS))
    if end == "prune_report":
        job["report"] = [r.choice([0, 1, 5]), r.choice([0.25, 2.0, math.nan])]
    for _ in range(n_cbs):
        job["cbs"].append({"stop": r.random() < 0.1, "raises": r.choice(sorted(CLS)) if r.random() < 0.08 else None})
    return job


def gen_case(r: random.Random, mode: str = "normal") -> dict[str, Any]:
    k = r.choice([2, 3, 4])
    shape = r.choice(["lt", "eq", "gt", "gt", "none", "none"]) if mode == "normal" else r.choice(["eq", "gt", "gt"])
    timeout = None
    if shape == "lt":
        n: int | None = r.randrange(1, k)
    elif shape == "eq":
        n = k
    elif shape == "gt":
        n = k + r.choice([1, 2, 3, 5])
    else:
        n, timeout = None, r.choice([0.06, 0.1, 0.15])
    if shape != "none" and r.random() < 0.12:
        timeout = r.choice([0.03, 0.08, 5.0])
    n_cbs = r.choice([0, 1, 1, 2])
    calm = mode != "normal" or r.random() < 0.3
    jobs = [gen_job(r, n_cbs, calm) for _ in range((n or 10) + 1)]
    case = {"kind": "poolrun", "mode": mode, "k": k, "n_trials": n, "timeout": timeout, "n_cbs": n_cbs,
            "catch": sorted(set(r.choice(sorted(CLS)) for _ in range(r.choice([0, 1, 1, 2])))), "jobs": jobs}
    if shape == "none":
        # nothing but the clock ends this run: no stop(), every raised class is in `catch`
        for j in jobs:
            j["sleep"] = max(j["sleep"], 0.02)
            j["stop"] = False
            for c in j["cbs"]:
                c["stop"] = False
                c["raises"] = None
            if j["end"] == "raise":
                case["catch"] = sorted(set(case["catch"]) | {j["cls"]})
    if mode == "interrupt-wait":
        for j in jobs:
            j["sleep"] = max(j["sleep"], 0.03)
            j["stop"] = False
            for c in j["cbs"]:
                c["stop"] = False
        jobs[0]["interrupt"] = "wait"
        jobs[0]["end"] = "ret"
    if mode == "interrupt-submit":
        for j in jobs:
            j["sleep"] = max(j["sleep"], 0.05)
        jobs[1]["interrupt"] = "now"
    return case


def fixed_cases() -> list[dict[str, Any]]:
    """The schedules the seeded changes of the n_jobs branch need, deterministically."""
    ret = {"end": "ret", "value": 1.0, "sleep": 0.0, "stop": False, "cbs": [{"stop": False, "raises": None}]}
    slow = dict(ret, sleep=0.25)
    boom = dict(ret, end="raise", cls="RuntimeError", sleep=0.03)
    out = []
    # pool full (n_trials > k), one future raises uncaught while another is still inside its objective
    out.append({"kind": "poolrun", "mode": "normal", "k": 2, "n_trials": 4, "timeout": None, "n_cbs": 1, "catch": [], "jobs": [slow, boom, ret, ret, ret]})
    out.append({"kind": "poolrun", "mode": "normal", "k": 3, "n_trials": 6, "timeout": None, "n_cbs": 1, "catch": ["ValueError"], "jobs": [slow, dict(ret, sleep=0.1), boom, ret, ret, ret, ret]})
    # a NaN that is not a `float` instance
    out.append({"kind": "poolrun", "mode": "normal", "k": 2, "n_trials": 3, "timeout": None, "n_cbs": 1, "catch": [], "jobs": [dict(ret, end="npnan"), dict(ret, end="nan"), ret, ret]})
    # stop() from an objective while the pool is full
    out.append({"kind": "poolrun", "mode": "normal", "k": 2, "n_trials": 8, "timeout": None, "n_cbs": 1, "catch": [], "jobs": [dict(ret, stop=True, sleep=0.02)] + [dict(ret, sleep=0.03)] * 8})
    # F42, second variant: a future raised uncaught -> optimize is leaving the `with` block -> the interrupt arrives during the join
    # (which worker the main thread happens to be joining decides whether a trial is still RUNNING at the raise: several pool sizes)
    for k_ in (3, 4, 5, 6):
        out.append({"kind": "poolrun", "mode": "interrupt-exit", "k": k_, "n_trials": k_ + 3, "timeout": None, "n_cbs": 1, "catch": [],
                    "jobs": [dict(ret, sleep=0.05, interrupt="exit"), dict(boom, sleep=0.02)] + [dict(ret, sleep=0.12), dict(ret, sleep=0.45)] * (k_ // 2 + 1)})
    return out


# --------------------------------------------------------------------------------------------------
# one real run, recorded


class Run:
    def __init__(self, case: dict[str, Any]) -> None:
        import optuna

        self.case = case
        self.lock = threading.RLock()
        self.events: list[dict[str, Any]] = []
        self.tls = threading.local()
        self.n_futures = 0
        self.begin_ev: dict[int, dict[str, Any]] = {}
        self.tid: dict[int, int] = {}
        self.cbs_of: dict[int, list[int]] = collections.defaultdict(list)
        self.cb_log: list[list[int]] = []
        self.in_wait = threading.Event()
        self.in_exit = threading.Event()  # set when the executor's shutdown (the `with` block's __exit__) starts
        self.t_start: Any = None
        self.main_timed = False
        self.worker_timed: dict[int, bool] = {}
        self.main_ident = threading.get_ident()
        self.exc: BaseException | None = None
        self.exc_where: list[str] = []
        self.exc_frames: list[str] = []
        self.notes: list[str] = []
        with warnings.catch_warnings():
            warnings.simplefilter("ignore")
            self.study = optuna.create_study(sampler=optuna.samplers.RandomSampler(seed=1))
        self._wrap_study()

    def spec(self, i: int) -> dict[str, Any]:
        jobs = self.case["jobs"]
        return jobs[i % len(jobs)]

    def log(self, ev: dict[str, Any]) -> None:
        with self.lock:
            self.events.append(ev)

    def on_clock(self, t: Any) -> None:
        """a reading of `datetime.datetime.now()` inside optuna.study._optimize"""
        timeout = self.case["timeout"]
        with self.lock:
            i = getattr(self.tls, "future", None)
            if i is None and threading.get_ident() == self.main_ident:
                if self.t_start is None:
                    self.t_start = t  # `time_start = datetime.datetime.now()`
                elif timeout is not None and not self.main_timed and (t - self.t_start).total_seconds() > timeout:
                    self.main_timed = True
                    self.events.append({"e": "timeout"})
            elif i is not None and i not in self.worker_timed and self.t_start is not None:
                # the worker's loop-head test (`elapsed_seconds >= timeout`)
                self.worker_timed[i] = timeout is not None and (t - self.t_start).total_seconds() >= timeout

    # ---- live-object wrappers -------------------------------------------------------------------
    def _wrap_study(self) -> None:
        run = self
        study = self.study
        study.__dict__["_verif_sf"] = bool(study.__dict__.pop("_stop_flag", False))

        def get(st):  # type: ignore[no-untyped-def]
            with run.lock:
                v = st.__dict__["_verif_sf"]
                i = getattr(run.tls, "future", None)
                if i is not None and i not in run.begin_ev:
                    ev = {"e": "begin", "i": i, "t": None, "stopRead": bool(v)}
                    run.begin_ev[i] = ev
                    run.events.append(ev)
                return v

        def set_(st, v):  # type: ignore[no-untyped-def]
            with run.lock:
                i = getattr(run.tls, "future", None)
                if v and i is not None:
                    run.events.append({"e": "stop", "i": i})
                st.__dict__["_verif_sf"] = bool(v)

        study.__class__ = type("TracedStudy", (type(study),), {"_stop_flag": property(get, set_)})
        storage = study._storage
        orig_create = storage.create_new_trial

        def create_new_trial(study_id, template_trial=None):  # type: ignore[no-untyped-def]
            tid = orig_create(study_id, template_trial)
            i = getattr(run.tls, "future", None)
            if i is not None:
                with run.lock:
                    run.tid[i] = tid
                    if i in run.begin_ev:
                        run.begin_ev[i]["t"] = storage.get_trial_number_from_id(tid)
            return tid

        storage.create_new_trial = create_new_trial  # type: ignore[method-assign]

    def row_of(self, i: int) -> dict[str, Any]:
        if i not in self.tid:
            return {"state": None, "values": None}
        ft = self.study._storage.get_trial(self.tid[i])
        return {"state": int(ft.state), "values": None if ft.values is None else [xval(x) for x in ft.values]}

    # ---- objective / callbacks --------------------------------------------------------------------
    def objective(self, trial):  # type: ignore[no-untyped-def]
        import numpy as np
        import optuna

        i = getattr(self.tls, "future", None)
        sp = self.spec(i if i is not None else 0)
        if sp.get("interrupt") == "wait":
            self.in_wait.wait(3.0)
            time.sleep(0.02)
            _thread.interrupt_main()
        elif sp.get("interrupt") == "now":
            _thread.interrupt_main()
        elif sp.get("interrupt") == "exit":  # while the main thread is joining the workers in ThreadPoolExecutor.__exit__
            self.in_exit.wait(3.0)
            time.sleep(0.01)
            _thread.interrupt_main()
        if sp.get("stop"):
            trial.study.stop()
        if sp.get("report"):
            with warnings.catch_warnings():
                warnings.simplefilter("ignore")
                trial.report(sp["report"][1], sp["report"][0])
        if sp["sleep"]:
            time.sleep(sp["sleep"])
        end = sp["end"]
        if end == "ret":
            return sp["value"]
        if end == "nan":
            return float("nan")
        if end == "npnan":
            return np.float32("nan")
        if end in ("prune", "prune_report"):
            raise optuna.TrialPruned("verif")
        e = EXC[sp["cls"]]("verif")
        e._verif = True  # type: ignore[attr-defined]
        raise e

    def make_cb(self, j: int):  # type: ignore[no-untyped-def]
        def cb(study, ft) -> None:  # type: ignore[no-untyped-def]
            i = getattr(self.tls, "future", None)
            with self.lock:
                self.cb_log.append([ft.number, j])
                if i is not None:
                    self.cbs_of[i].append(j)
            act = self.spec(i if i is not None else 0)["cbs"][j]
            if act.get("stop"):
                study.stop()
            if act.get("raises"):
                e = EXC[act["raises"]]("verif-cb")
                e._verif = True  # type: ignore[attr-defined]
                raise e

        return cb

    # ---- the run ------------------------------------------------------------------------------------
    def run(self) -> None:
        import optuna.study._optimize as om

        run = self
        case = self.case
        fut_ids: dict[Any, int] = {}

        class TracingExecutor(ThreadPoolExecutor):
            def submit(self, fn, *args, **kw):  # type: ignore[no-untyped-def]
                with run.lock:
                    i = run.n_futures
                    run.n_futures += 1
                    run.events.append({"e": "submit"})

                def wrapped():  # type: ignore[no-untyped-def]
                    run.tls.future = i
                    err: BaseException | None = None
                    try:
                        return fn(*args, **kw)
                    except BaseException as e:
                        err = e
                        raise
                    finally:
                        with run.lock:
                            if i not in run.begin_ev:  # the job never looked at the stop flag: not the code we model
                                run.notes.append("future %d finished without reading the stop flag" % i)
                                run.begin_ev[i] = {"e": "begin", "i": i, "t": None, "stopRead": False}
                                run.events.append(run.begin_ev[i])
                            ev = {"e": "finish", "i": i, "r": cls_of(err), "cbs": list(run.cbs_of[i])}
                            ev.update(run.row_of(i))
                            run.events.append(ev)

                f = super().submit(wrapped)
                fut_ids[f] = i
                return f

        def _shutdown(self_, wait=True, *, cancel_futures=False):  # type: ignore[no-untyped-def]
            run.in_exit.set()
            return ThreadPoolExecutor.shutdown(self_, wait=wait, cancel_futures=cancel_futures)

        TracingExecutor.shutdown = _shutdown  # type: ignore[method-assign]

        def traced_wait(fs, timeout=None, return_when=ALL_COMPLETED):  # type: ignore[no-untyped-def]
            run.in_wait.set()
            try:
                res = real_wait(fs, timeout=timeout, return_when=return_when)
            except KeyboardInterrupt:
                run.log({"e": "interrupt", "c": KBD})
                raise
            finally:
                run.in_wait.clear()
            run.log({"e": "waitFirst", "c": sorted(fut_ids[f] for f in res.done)} if return_when == FIRST_COMPLETED else {"e": "waitAll"})
            return res

        import datetime as real_dt

        class _DT:
            @staticmethod
            def now(tz=None):  # type: ignore[no-untyped-def]
                t = real_dt.datetime.now()
                run.on_clock(t)
                return t

        class _ClockModule:
            datetime = _DT
            timedelta = real_dt.timedelta

        cbs = [self.make_cb(j) for j in range(case["n_cbs"])]
        before = set(threading.enumerate())
        saved = (om.ThreadPoolExecutor, om.wait, om.datetime)
        try:
            try:
                om.ThreadPoolExecutor = TracingExecutor  # type: ignore[misc]
                om.wait = traced_wait  # type: ignore[assignment]
                om.datetime = _ClockModule  # type: ignore[assignment]
                with warnings.catch_warnings():
                    warnings.simplefilter("ignore")
                    try:
                        self.study.optimize(self.objective, n_trials=case["n_trials"], timeout=case["timeout"], n_jobs=case["k"],
                                            catch=tuple(EXC[c] for c in case["catch"]), callbacks=cbs)
                    except BaseException as e:  # noqa: BLE001 - whatever leaves optimize is the observation
                        self.exc = e
                        self.exc_frames = [f.name for f in traceback.extract_tb(e.__traceback__)]
                        self.exc_where = self.exc_frames[-4:]
                # the snapshot the property speaks about: the moment optimize returned / raised
                self.at_exit = [int(t.state) for t in self.study.get_trials(deepcopy=False)]
                time.sleep(0.005)  # a pending simulated SIGINT is delivered here, not in the harness proper
            except KeyboardInterrupt:
                self.notes.append("late KeyboardInterrupt (after optimize had ended)")
                if not hasattr(self, "at_exit"):
                    self.at_exit = [int(t.state) for t in self.study.get_trials(deepcopy=False)]
        finally:
            om.ThreadPoolExecutor, om.wait, om.datetime = saved  # type: ignore[misc,assignment]
        self.orphans = [t for t in threading.enumerate() if t not in before and t is not threading.current_thread()]
        for t in self.orphans:
            t.join(10)
        self.after_join = [int(t.state) for t in self.study.get_trials(deepcopy=False)]
        with self.lock:
            evs = self.events
            if isinstance(self.exc, KeyboardInterrupt) and not any(e["e"] == "interrupt" for e in evs):
                # raised in the main thread outside `wait`: no main-thread statement of the block ran after it
                last = max([n for n, e in enumerate(evs) if e["e"] in ("submit", "waitFirst", "waitAll", "timeout")], default=-1)
                evs.insert(last + 1, {"e": "interrupt", "c": KBD, "where": self.exc_where})
            evs.append({"e": "exit", "r": cls_of(self.exc)})

    # ---- abstraction for the model ----------------------------------------------------------------
    def model_plan(self, i: int) -> dict[str, Any]:
        sp = self.spec(i)
        end = sp["end"]
        if end == "ret":
            out: dict[str, Any] = {"k": "ret", "v": {"scalar": {"ok": xval(sp["value"])}}}
        elif end in ("nan", "npnan"):
            out = {"k": "ret", "v": {"scalar": {"ok": "nan"}}}
        elif end in ("prune", "prune_report"):
            out = {"k": "pruned"}
        else:
            out = {"k": "exc", "e": "user:%d" % CLS[sp["cls"]]}
        reports = [[sp["report"][0], xval(sp["report"][1])]] if sp.get("report") else []
        return {"askRaises": None, "script": {"reports": reports, "out": out, "pre": None, "env": {}}, "sleep": 0,
                "stopInObj": bool(sp.get("stop")),
                "cbs": [{"stop": bool(c.get("stop")), "raises": CLS[c["raises"]] if c.get("raises") else None} for c in sp["cbs"]]}

    def request(self) -> dict[str, Any]:
        case = self.case
        evs = self.events
        jobs = [{"plan": self.model_plan(i), "elapsed": 1 if self.worker_timed.get(i) else 0} for i in range(self.n_futures)]
        trials = [{"state": int(t.state), "values": None if t.values is None else [xval(x) for x in t.values]}
                  for t in self.study.get_trials(deepcopy=False)]
        return {"cfg": {"nObj": 1, "catch": ["user:%d" % CLS[c] for c in case["catch"]]}, "k": case["k"], "n": case["n_trials"],
                "timeout": None if case["timeout"] is None else 1, "joins": True, "jobs": jobs,
                "events": [{k: v for k, v in e.items() if k != "where"} for e in evs],
                "final": {"trials": trials, "cbLog": self.cb_log, "submitted": self.n_futures}}


# --------------------------------------------------------------------------------------------------
# checking one case


def sig(kind: str, cause: str) -> dict[str, Any]:
    return {"kind": kind, "cause": cause}


def oracle(run: Run) -> list[dict[str, Any]]:
    """model-free: no trial RUNNING when optimize ends; callbacks exactly once per finished trial"""
    fails = []
    how = "raised %s" % type(run.exc).__name__ if run.exc is not None else "returned"
    observation = run.case["mode"] == "interrupt-submit"
    # A main-thread KeyboardInterrupt delivered by the harness (either interrupt mode; under load the "wait" variant can land in
    # executor.submit too) that leaves a started worker un-joined is CPython's ThreadPoolExecutor behaviour: the trial is RUNNING
    # when optimize raises and is finished by the orphan worker shortly after.  Recorded as known finding F42 with its own
    # signature; the plain oracle then looks at the states after the orphan threads were joined.
    # Claimed ONLY when the traceback shows the interrupt inside the executor's submit (a change that makes optimize stop
    # waiting for its workers - interrupt raised from wait(...) or from optuna's own statements - stays an unlisted violation).
    in_submit = any(w in ("_adjust_thread_count", "start") for w in run.exc_frames) and "submit" in run.exc_frames
    # ... or inside the executor's __exit__ -> shutdown(wait=True) -> Thread.join: the join is abandoned, the remaining workers run on
    in_submit = in_submit or ("__exit__" in run.exc_frames and "join" in run.exc_frames and any(w in ("shutdown", "_shutdown") for w in run.exc_frames))
    orphan = run.case["mode"] in ("interrupt-submit", "interrupt-wait", "interrupt-exit") and isinstance(run.exc, KeyboardInterrupt) and in_submit and \
        (bool(run.orphans) or any(st == 0 for st in run.at_exit))
    if orphan and any(st == 0 for st in run.at_exit):
        fails.append({"sig": sig("trial-left-running", "poolrun-interrupt-orphan"),
                      "msg": "[poolrun] KeyboardInterrupt in the main thread of optimize(n_jobs=%d) (it landed in %s): optimize raised while trial(s) %s were still RUNNING "
                             "(%d worker thread(s) not joined by ThreadPoolExecutor.__exit__); states after joining them: %s" % (
                                 run.case["k"], "/".join(run.exc_where[-3:]) or "?", [t for t, st in enumerate(run.at_exit) if st == 0], len(run.orphans), run.after_join)})
    observation = observation or orphan
    snap = run.after_join if observation else run.at_exit
    for t, st in enumerate(snap):
        if st == 0:
            fails.append({"sig": sig("trial-left-running", "poolrun" + ("-after-join" if observation else "")),
                          "msg": "[poolrun] trial %d is still RUNNING %s optimize(n_jobs=%d) %s (states %s; %d worker thread(s) were still alive)" % (
                              t, "after joining every thread left by" if observation else "at the moment", run.case["k"], how, snap, len(run.orphans))})
            break
    for t in run.study.get_trials(deepcopy=False):
        if int(t.state) == 1 and (t.values is None or any(x != x for x in t.values)):
            fails.append({"sig": sig("complete-iff-feasible", "poolrun-nan"),
                          "msg": "[poolrun] trial %d is COMPLETE with values %s (a NaN / no value is not feasible)" % (t.number, t.values)})
            break
        if int(t.state) == 3 and t.values is not None:
            fails.append({"sig": sig("fail-has-values", "poolrun"), "msg": "[poolrun] FAIL trial %d has values %s" % (t.number, t.values)})
            break
    cnt = collections.Counter(map(tuple, run.cb_log))
    if any(c > 1 for c in cnt.values()):
        fails.append({"sig": sig("callback-twice", "poolrun"), "msg": "[poolrun] callback invoked twice: %s" % [k for k, c in cnt.items() if c > 1]})
    catch = set(run.case["catch"])
    for i, b in run.begin_ev.items():
        t = b.get("t")
        if t is None or t >= len(run.after_join) or run.after_join[t] == 0:
            continue
        sp = run.spec(i)
        propagates = sp["end"] == "raise" and sp["cls"] not in catch
        exp: list[int] = []
        if not propagates:
            for j, c in enumerate(sp["cbs"]):
                exp.append(j)
                if c.get("raises"):
                    break
        got = [j for (n, j) in run.cb_log if n == t]
        if got != exp:
            fails.append({"sig": sig("callback-count", "poolrun"), "msg": "[poolrun] trial %d (future %d, %s): callbacks %s ran, expected %s" % (t, i, sp["end"], got, exp)})
            break
    return fails


def check_case(case: dict[str, Any], drv: core.Driver) -> dict[str, Any]:
    run = Run(case)
    run.run()
    res: dict[str, Any] = {"violations": oracle(run), "broke": [], "tags": [], "obs": None, "trace_len": len(run.events)}
    tags = {"k:%d" % case["k"], "exit:" + ("ok" if run.exc is None else type(run.exc).__name__), "mode:" + case["mode"]}
    n = case["n_trials"]
    tags.add("n:" + ("none" if n is None else "lt" if n < case["k"] else "eq" if n == case["k"] else "gt"))
    for e in run.events:
        if e["e"] in ("stop", "waitFirst", "interrupt", "timeout"):
            tags.add("ev:" + e["e"])
        if e["e"] == "begin" and e["t"] is None:
            tags.add("ev:begin-no-trial")
    res["tags"] = sorted(tags)
    for note in run.notes:
        res["broke"].append({"why": "[poolrun] recorder: %s" % note})
    if case["mode"] == "interrupt-submit":
        where = "no-interrupt" if not isinstance(run.exc, KeyboardInterrupt) else (
            "in-wait" if any(e["e"] == "interrupt" and "where" not in e for e in run.events) else
            "in-submit" if any(w in ("submit", "_adjust_thread_count", "start") for w in run.exc_where) else "elsewhere")
        res["obs"] = {"where": where, "running_at_raise": any(s == 0 for s in run.at_exit), "orphans": len(run.orphans),
                      "terminal_after_join": not any(s == 0 for s in run.after_join)}
        if res["obs"]["running_at_raise"] or run.orphans:
            return res  # CPython left a worker un-joined: outside the model (Params.joins), recorded, not replayed
    if case["mode"] in ("interrupt-wait", "interrupt-exit") and isinstance(run.exc, KeyboardInterrupt) and ("submit" in run.exc_frames or "__exit__" in run.exc_frames) and \
            (run.orphans or any(s_ == 0 for s_ in run.at_exit)):
        res["tags"].append("%s-landed-in-%s" % (case["mode"], "submit" if "submit" in run.exc_frames else "exit-join"))
        return res  # the same, when the "wait" variant's signal was delivered a moment later than intended
    m = drv.ask(run.request())
    if m.get("ok"):
        if case["mode"] == "interrupt-wait" and not m.get("interrupted"):
            res["tags"].append("interrupt-missed")
        return res
    if m.get("kind") == "rejected":
        why = "[poolrun] event #%s %s of the recorded run is not a step of PoolRun.step: %s" % (m.get("at"), json.dumps(m.get("event")), m.get("why"))
    elif m.get("kind") == "field":
        why = "[poolrun] model and run differ at event #%s, field %s: model %s / run %s (event %s)" % (
            m.get("at"), m.get("field"), json.dumps(m.get("model")), json.dumps(m.get("run")), json.dumps(m.get("event")))
    else:
        why = "[poolrun] driver: %s" % json.dumps(m)[:600]
    res["broke"].append({"why": why + "; trace " + json.dumps(run.events)[:1200]})
    return res


def _worker(cases: list[dict[str, Any]]) -> list[dict[str, Any]]:
    import faulthandler

    import optuna

    optuna.logging.set_verbosity(optuna.logging.CRITICAL)
    drv = core.Driver(DRIVER)
    out = []
    try:
        for case in cases:
            faulthandler.dump_traceback_later(CASE_TIMEOUT_S, exit=True)
            try:
                out.append(check_case(case, drv))
            except core.DriverBroken as e:
                out.append({"violations": [], "broke": [{"why": "[poolrun] driver broken: %s" % str(e)[:300]}], "tags": [], "obs": None})
                drv = core.Driver(DRIVER)
            except KeyboardInterrupt:
                out.append({"violations": [], "broke": [{"why": "[poolrun] harness: stray KeyboardInterrupt outside the run"}], "tags": [], "obs": None})
            except Exception as e:  # noqa: BLE001 - the harness itself failed on this case: not silent
                out.append({"violations": [], "broke": [{"why": "[poolrun] harness exception %r: %s" % (e, traceback.format_exc()[-800:])}], "tags": [], "obs": None})
            finally:
                faulthandler.cancel_dump_traceback_later()
    finally:
        drv.close()
    return out


def correspond(chk: core.Check, tier: str) -> None:
    import multiprocessing as mp
    from concurrent.futures import ProcessPoolExecutor
    from concurrent.futures.process import BrokenProcessPool

    t0 = time.time()
    quick = tier == "quick"
    r = random.Random(chk.seed * 104729 + 17)
    n_normal, n_iw, n_is = (44, 6, 8) if quick else (1300, 100, 100)
    cases = fixed_cases() + [gen_case(r) for _ in range(n_normal)] + [gen_case(r, "interrupt-wait") for _ in range(n_iw)] + \
        [gen_case(r, "interrupt-submit") for _ in range(n_is)]
    n_proc = 6 if quick else 12
    chunks = [cases[i::n_proc * 2] for i in range(n_proc * 2)]
    chunks = [c for c in chunks if c]
    try:
        with ProcessPoolExecutor(max_workers=n_proc, mp_context=mp.get_context("spawn")) as ex:
            results = list(ex.map(_worker, chunks))
    except BrokenProcessPool as e:
        raise core.InfraError("[poolrun] a harness worker died or a case exceeded %d s: %r" % (CASE_TIMEOUT_S, e))
    obs: collections.Counter = collections.Counter()
    first_broke = None
    seen: dict[str, tuple[dict[str, Any], dict[str, Any]]] = {}
    for ch, rs in zip(chunks, results):
        for case, res in zip(ch, rs):
            chk.case({"kind": "poolrun", "case": case}, nontrivial=True)
            chk.count("kind:poolrun")
            for t in res.get("tags", []):
                chk.count("poolrun:" + t)
            if res.get("trace_len"):
                chk.traces_validated += 1
                chk.count("poolrun-trace-events", res["trace_len"])
            if res.get("obs"):
                o = res["obs"]
                obs["runs"] += 1
                obs["interrupt:" + o["where"]] += 1
                obs["orphan-worker (trial RUNNING when optimize raised)"] += int(o["running_at_raise"])
                obs["orphan thread seen by the harness"] += int(o["orphans"] > 0)
                obs["all trials terminal after joining"] += int(o["terminal_after_join"])
            for v in res["violations"]:
                seen.setdefault(core.canon(v["sig"]), (case, v))
            if res["broke"] and first_broke is None:
                first_broke = (case, res["broke"][0])
            if res["broke"]:
                chk.count("poolrun:broke")
    for case, v in seen.values():
        chk.violation(v["sig"], {"case": case}, v["msg"])
    if first_broke is not None:
        case, b = first_broke
        chk.broke("correspondence", {"first": b["why"][:1800], "case": case, "n_cases_disagreeing": chk.hist.get("poolrun:broke", 0)})
    chk.extra["poolrun_interrupt_submit"] = dict(obs)
    chk.extra["poolrun_wall_s"] = round(time.time() - t0, 2)
    chk.extra["poolrun_runs"] = len(cases)
    chk.assumptions.append("a KeyboardInterrupt reaches the main thread while it is in optuna's own statements or in wait(...); one that lands "
                           "inside ThreadPoolExecutor.submit may leave a worker that __exit__ does not join (CPython; counted in poolrun_interrupt_submit)")
    chk.trusted.append("verif/props/c02_poolrun.py: recorder (property on the study's _stop_flag, wrappers around the executor's submit, "
                       "concurrent.futures.wait, the submitted function and storage.create_new_trial), abstraction of the scripted objectives into TrialPlans, "
                       "the proxy of optuna.study._optimize.datetime (clock readings -> `timeout` event / Job.elapsed); lean/Driver/Sub/PoolRun.lean (comparison code)")


if __name__ == "__main__":  # ad-hoc: python -m verif.props.c02_poolrun [seed]
    core.ensure_driver()
    c = core.Check("C02", "quick", int(sys.argv[1]) if len(sys.argv) > 1 else 0)
    correspond(c, "quick")
    print(json.dumps({"broken": c.broken, "violations": c.violations, "extra": c.extra,
                      "hist": {k: v for k, v in c.hist.items() if k.startswith("poolrun")}}, indent=1, default=str)[:6000])
