"""C03 — concurrent use of one study is linearizable.

prove:      Props/C03.lean — lock_atomicity for every schedule of lock-structured code (+ mutual exclusion,
            completed runs are sequential, numbers stay dense); the hypothesis "every public method runs
            inside one critical section" is a `decide` over the table regenerated from /repo by T-lock.
correspond: real threads under the deterministic line-level scheduler (verif/sched.py) on InMemoryStorage and
            on JournalStorage (threads of one object + a second, process-like object on the same file);
            every completed concurrent history is checked for linearizability against the Lean contract
            model by the `lin` sub-driver (Wing-Gong search, ids erased).  Thorough tier adds free-running
            threads on SQLite / cached SQLite / the gRPC proxy and OS processes on one journal/SQLite file.
"""
from __future__ import annotations

import json
import os
import random
import threading
from typing import Any

from optuna.distributions import distribution_to_json

from verif import core, fleet, sched
from verif import storage_k as K
from verif.translators import tlock

RULE = (
    "set-up history (1-2 studies, 2-5 trials incl. WAITING ones) then 2-3 threads x 1-3 storage calls each (worker, "
    "claimer, attribute/intermediate writers on shared keys, same-name study creators, readers) under a seeded "
    "line-level schedule (uniform with stay-bias, or PCT depth<=3); a case = (backend, programs, schedule); "
    "non-trivial = the schedule switched threads inside at least one storage call; distinct by SHA-1"
)
D1 = distribution_to_json(K.DISTS[0])
D2 = distribution_to_json(K.DISTS[4])


def without_reads(calls: list[dict[str, Any]]) -> list[dict[str, Any]]:
    """The write calls of a history, with `{"ref": j}` ids re-indexed (a ref is the index of an earlier call in the list)."""
    keep = [i for i, c in enumerate(calls) if not c["op"]["op"].startswith("get")]
    new_index = {old: new for new, old in enumerate(keep)}

    def fix(op: dict[str, Any]) -> dict[str, Any]:
        out = dict(op)
        for k in ("sid", "tid"):
            v = out.get(k)
            if isinstance(v, dict) and "ref" in v:
                out[k] = {"ref": new_index.get(v["ref"], v["ref"])}
        return out

    return [dict(calls[i], op=fix(calls[i]["op"])) for i in keep]


def torn_readers(drv: Any, req: dict[str, Any]) -> list[str]:
    """For a history whose writes alone linearize: the op names of the read calls that, each taken ALONE with the writes, still
    have no linearization - the reads that saw a state that never existed."""
    calls = req["calls"]
    reads = [i for i, c in enumerate(calls) if c["op"]["op"].startswith("get")]
    out: list[str] = []
    for r_ in reads:
        keep = [i for i, c in enumerate(calls) if not c["op"]["op"].startswith("get") or i == r_]
        new_index = {old: new for new, old in enumerate(keep)}

        def fix(op: dict[str, Any]) -> dict[str, Any]:
            o = dict(op)
            for k in ("sid", "tid"):
                v = o.get(k)
                if isinstance(v, dict) and "ref" in v:
                    o[k] = {"ref": new_index.get(v["ref"], v["ref"])}
            return o

        sub = dict(req, calls=[dict(calls[i], op=fix(calls[i]["op"])) for i in keep])
        if not drv.ask(sub).get("ok"):
            out.append(calls[r_]["op"]["op"])
    return sorted(set(out))


TRIAL_READERS = {"getAllTrials", "getTrial", "getBestTrial"}   # the getters F16 is about (assembled from several SELECTs)


def erase(j: Any) -> Any:
    if isinstance(j, dict):
        ent = "number" in j or "name" in j
        return {k: erase(v) for k, v in j.items() if not (ent and k in ("id", "study"))}
    if isinstance(j, list):
        return [erase(x) for x in j]
    return j


def gen_best_race(r: random.Random) -> dict[str, Any]:
    """Two or three threads finish different RUNNING trials of one study at the same time, all improving on the
    current best; afterwards the storage is asked for the best trial."""
    d = r.choice([1, 2])
    setup: list[dict[str, Any]] = [{"op": "createStudy", "name": "s0", "dirs": [d]}]
    nthreads = r.choice([2, 2, 3])
    for _ in range(nthreads + 1):
        setup.append({"op": "createTrial", "sid": 0, "tmpl": None})
    sign = 1.0 if d == 1 else -1.0
    setup.append({"op": "setTrialStateValues", "tid": nthreads, "state": 1, "values": [K.ftok(sign * 5.0)]})
    vals = r.sample([1.0, 2.0, 3.0, 4.0], nthreads)
    calls = [{"thread": th, "op": {"op": "setTrialStateValues", "tid": th, "state": 1, "values": [K.ftok(sign * vals[th])]}} for th in range(nthreads)]
    if r.random() < 0.3:
        calls.append({"thread": r.randrange(nthreads), "op": {"op": "getBestTrial", "sid": 0}})
    calls.append({"thread": nthreads, "op": {"op": "getBestTrial", "sid": 0}})
    return {"setup": setup, "calls": calls, "nthreads": nthreads}


WAITING_TMPL = {"state": 4, "values": None, "params": {}, "user": {}, "system": {"fixed_params": {"x": 0.5}}, "inter": {}, "start": False, "complete": False}


def gen_waiting_race(r: random.Random) -> dict[str, Any]:
    """A reader lists the WAITING trials (the first thing Study.ask does; InMemoryStorage moves its WAITING cursor
    there) while another thread queues a WAITING trial / sets one back to WAITING; afterwards the WAITING trials are
    listed once more: whatever the interleaving, a trial that is WAITING at the end must be in that last answer."""
    setup: list[dict[str, Any]] = [{"op": "createStudy", "name": "s0", "dirs": [1]}]
    n0 = r.randint(0, 3)
    for _ in range(n0):
        setup.append({"op": "createTrial", "sid": 0, "tmpl": None if r.random() < 0.6 else dict(WAITING_TMPL)})
    calls: list[dict[str, Any]] = []
    nthreads = r.choice([2, 2, 3])
    for th in range(nthreads - 1):
        for _ in range(r.randint(1, 2)):
            calls.append({"thread": th, "op": {"op": "getAllTrials", "sid": 0, "states": [4]}})
    w = nthreads - 1
    for _ in range(r.randint(1, 2)):
        calls.append({"thread": w, "op": {"op": "createTrial", "sid": 0, "tmpl": dict(WAITING_TMPL)}})
    calls.append({"thread": nthreads, "op": {"op": "getAllTrials", "sid": 0, "states": [4]}})
    return {"setup": setup, "calls": calls, "nthreads": nthreads}


def gen_param_race(r: random.Random) -> dict[str, Any]:
    """Two (three) workers each set the parameter "x" of their OWN running trial of one study, with distributions that
    are not compatible with each other (Float / Int): in every sequential order exactly the first call succeeds and every
    later one raises, and all readers see one distribution for the name.  (Issuer-side check-then-act instead of
    arbitration by the log order lets both succeed.)"""
    setup: list[dict[str, Any]] = [{"op": "createStudy", "name": "s0", "dirs": [1]}]
    nthreads = r.choice([2, 2, 3])
    for _ in range(nthreads):
        setup.append({"op": "createTrial", "sid": 0, "tmpl": None})
    if r.random() < 0.3:   # the name is already taken: every racer with the other distribution must fail
        setup.append({"op": "createTrial", "sid": 0, "tmpl": None})
        setup.append({"op": "setTrialParam", "tid": nthreads, "name": "x", "dist": D1, "internal": K.ftok(0.5)})
    calls: list[dict[str, Any]] = []
    for th in range(nthreads):
        d, v = (D1, 0.5) if (th + r.randrange(2)) % 2 == 0 else (D2, 3.0)
        if th == 1 and all(c["op"].get("dist", d) == d for c in calls):
            d, v = (D2, 3.0) if d == D1 else (D1, 0.5)
        calls.append({"thread": th, "op": {"op": "setTrialParam", "tid": th, "name": "x", "dist": d, "internal": K.ftok(v)}})
        if r.random() < 0.4:
            calls.append({"thread": th, "op": {"op": "getAllTrials", "sid": 0, "states": None}})
    calls.append({"thread": nthreads, "op": {"op": "getAllTrials", "sid": 0, "states": None}})
    return {"setup": setup, "calls": calls, "nthreads": nthreads}


def gen_finish_read_race(r: random.Random) -> dict[str, Any]:
    """One thread finishes (or fails / prunes) a RUNNING trial while others read exactly that trial by id and list the study:
    a reader must see the trial either still RUNNING or finished WITH its completion time and values - never a state in
    between (a finished copy published before its completion time is set, read without the lock)."""
    setup: list[dict[str, Any]] = [{"op": "createStudy", "name": "s0", "dirs": [1]}]
    n = r.randint(1, 3)
    for _ in range(n):
        setup.append({"op": "createTrial", "sid": 0, "tmpl": None})
    nthreads = r.choice([2, 2, 3])
    calls: list[dict[str, Any]] = []
    t = r.randrange(n)
    st = r.choice([1, 1, 2, 3])
    calls.append({"thread": 0, "op": {"op": "setTrialStateValues", "tid": t, "state": st, "values": [K.ftok(float(r.randrange(5)))] if st == 1 else None}})
    for th in range(1, nthreads):
        for _ in range(r.randint(1, 3)):
            calls.append({"thread": th, "op": r.choice([{"op": "getTrial", "tid": t}, {"op": "getTrial", "tid": t}, {"op": "getAllTrials", "sid": 0, "states": None}])})
    calls.append({"thread": nthreads, "op": {"op": "getTrial", "tid": t}})
    return {"setup": setup, "calls": calls, "nthreads": nthreads}


def gen_case(r: random.Random) -> dict[str, Any]:
    if r.random() < 0.1:
        return gen_finish_read_race(r)
    if r.random() < 0.12:
        return gen_best_race(r)
    if r.random() < 0.1:
        return gen_waiting_race(r)
    if r.random() < 0.1:
        return gen_param_race(r)
    setup: list[dict[str, Any]] = [{"op": "createStudy", "name": "s0", "dirs": [1]}]
    n_studies = 1
    if r.random() < 0.3:
        setup.append({"op": "createStudy", "name": "s1", "dirs": [2]})
        n_studies = 2
    trials: list[tuple[int, int]] = []  # (tid, state)
    trial_sid: dict[int, int] = {}
    for _ in range(r.randint(2, 5)):
        sid = r.randrange(n_studies)
        trial_sid[len(trials)] = sid
        if r.random() < 0.5:
            setup.append({"op": "createTrial", "sid": sid, "tmpl": None})
            trials.append((len(trials), 0))
        else:
            setup.append({"op": "createTrial", "sid": sid, "tmpl": {"state": 4, "values": None, "params": {}, "user": {}, "system": {"fixed_params": {"x": 0.5}},
                                                                    "inter": {}, "start": False, "complete": False}})
            trials.append((len(trials), 4))
    waiting = [t for t, st in trials if st == 4]
    running = [t for t, st in trials if st == 0]
    free_running = list(running)
    r.shuffle(free_running)
    nthreads = r.choice([2, 2, 3])
    progs: list[list[dict[str, Any]]] = []
    calls: list[dict[str, Any]] = []  # global call list; each has thread + op (with refs by global index)

    def add(th: int, op: dict[str, Any]) -> int:
        calls.append({"thread": th, "op": op})
        return len(calls) - 1

    for th in range(nthreads):
        fam = r.choice(["worker", "worker", "claimer", "attrs", "creator", "reader", "mixed", "finisher"])
        if fam == "finisher" and free_running:
            # finish RUNNING trials of one study with distinct values (the best-trial bookkeeping of two
            # finishers must not be interleaved); each trial is finished by one thread only
            for t in [free_running.pop() for _ in range(min(len(free_running), r.randint(1, 2)))]:
                add(th, {"op": "setTrialStateValues", "tid": t, "state": 1, "values": [K.ftok(float(r.choice([-3, -2, -1, 0, 1, 2, 3]) + 0.25 * th))]})
                if r.random() < 0.3:
                    add(th, {"op": "getBestTrial", "sid": trial_sid[t]})
        elif fam == "worker":
            sid = r.randrange(n_studies)
            c = add(th, {"op": "createTrial", "sid": sid, "tmpl": None})
            if r.random() < 0.7:
                add(th, {"op": "setTrialParam", "tid": {"ref": c}, "name": "x", "dist": D1, "internal": K.ftok(r.choice([0.0, 0.5, 1.0]))})
            if r.random() < 0.7:
                add(th, {"op": "setTrialStateValues", "tid": {"ref": c}, "state": 1, "values": [K.ftok(float(r.randrange(5)))]})
        elif fam == "claimer" and waiting:
            for t in r.sample(waiting, min(len(waiting), r.randint(1, 2))):
                add(th, {"op": "setTrialStateValues", "tid": t, "state": 0, "values": None})
        elif fam == "attrs":
            for _ in range(r.randint(1, 3)):
                k = r.random()
                if k < 0.35:
                    add(th, {"op": "setStudyUserAttr", "sid": r.randrange(n_studies), "k": "k%d" % r.randrange(2), "v": r.randrange(3)})
                elif k < 0.7 and running:
                    add(th, {"op": "setTrialUserAttr", "tid": r.choice(running), "k": "k%d" % r.randrange(2), "v": th})
                elif running:
                    add(th, {"op": "setTrialInter", "tid": r.choice(running), "step": r.randrange(2), "v": K.ftok(float(th))})
                else:
                    add(th, {"op": "setStudySystemAttr", "sid": 0, "k": "sys", "v": th})
        elif fam == "creator":
            add(th, {"op": "createStudy", "name": "new", "dirs": [1]})
            if r.random() < 0.5:
                add(th, {"op": "getStudyIdFromName", "name": "new"})
        elif fam == "reader":
            for _ in range(r.randint(1, 2)):
                add(th, r.choice([{"op": "getAllTrials", "sid": r.randrange(n_studies), "states": None},
                                  {"op": "getNTrials", "sid": r.randrange(n_studies), "states": None},
                                  {"op": "getAllTrials", "sid": 0, "states": [4]},
                                  {"op": "getBestTrial", "sid": r.randrange(n_studies)},
                                  {"op": "getAllStudies"}]))
        else:
            if running:
                t = r.choice(running)
                st = r.choice([1, 3, 4])
                # (COMPLETE always carries a value: a COMPLETE trial without one is outside the contract)
                add(th, {"op": "setTrialStateValues", "tid": t, "state": st, "values": [K.ftok(1.0)] if st == 1 else None})
                add(th, {"op": "setTrialUserAttr", "tid": t, "k": "late", "v": th})
            add(th, {"op": "createTrial", "sid": 0, "tmpl": None})
        if not any(c["thread"] == th for c in calls):
            add(th, {"op": "createTrial", "sid": 0, "tmpl": None})
    # after all threads: what the best-trial bookkeeping ended up with (a pseudo-thread that starts when all are done)
    for sid in range(n_studies):
        calls.append({"thread": nthreads, "op": {"op": "getBestTrial", "sid": sid}})
    return {"setup": setup, "calls": calls, "nthreads": nthreads}


def install_locks(s: sched.Sched, storages: list[Any]) -> None:
    for st in storages:
        if hasattr(st, "_lock") and not isinstance(st._lock, sched.SLock):
            st._lock = sched.SLock(s, reentrant=True)
        if hasattr(st, "_thread_lock") and not isinstance(st._thread_lock, sched.SLock):
            st._thread_lock = sched.SLock(s, reentrant=False)


_TL = threading.local()


def run_case(cfg: str, case: dict[str, Any], seed: int, tmp: str, schedule: list[int] | None = None, pct: int | None = None,
             controlled: bool = True) -> dict[str, Any]:
    """Execute one case on a fresh backend; returns the `lin` request + bookkeeping."""
    h = fleet.make(cfg, tmp)
    try:
        ex0 = K.Exec(h.storage)
        for op in case["setup"]:
            ex0.run(op)
        nth = case["nthreads"]
        # threads use the first storage object; for journal backends every other thread gets its own
        # object on the same log ("process-like")
        storages = [h.storage]
        if h.base.startswith("journal") and h.has_peer():
            storages.append(h.peer())
        execs = [K.Exec(storages[t % len(storages)], share=ex0) for t in range(nth)]
        s = sched.Sched(rng=random.Random(seed), schedule=schedule, pct_depth=pct,
                        trace_prefixes=sched.optuna_prefixes("storages/") if controlled else ("/nonexistent/",))
        if controlled:
            install_locks(s, storages)
            import optuna.storages.journal._file as _jf

            _jf.time = sched.VirtualTime(s)  # the file lock's polling sleep becomes a scheduling point
        results: dict[int, dict[str, Any]] = {}
        clock = [0]
        tick = threading.Lock()

        def now() -> int:
            if controlled:
                return s.clock
            with tick:
                clock[0] += 1
                return clock[0]

        def body(th: int) -> Any:
            def f() -> None:
                _TL.i = th
                for ci, c in enumerate(case["calls"]):
                    if c["thread"] != th:
                        continue
                    op = dict(c["op"])
                    for key in ("sid", "tid"):
                        if isinstance(op.get(key), dict):
                            prev = results[op[key]["ref"]]["raw"]
                            op[key] = prev["n"] if prev.get("k") == "id" else K.UNKNOWN_ID // 2
                    inv = now()
                    raw = execs[th].run(op)
                    ret = now()
                    results[ci] = {"inv": inv, "ret": ret, "raw": raw, "op": op}
            return f

        if controlled:
            with fleet.same_ident_across_processes(lambda: getattr(_TL, "i", None), len(storages)):
                s.run([body(t) for t in range(nth)], timeout=120)
            if s.errors:
                t, e = next(iter(s.errors.items()))
                if isinstance(e, (sched.StepLimit, sched.Deadlock)):
                    return {"infra": "%s" % e, "trace": s.trace}
                return {"crash": "thread %d raised %s: %s" % (t, type(e).__name__, e), "trace": s.trace}
            if isinstance(s.aborted, (sched.StepLimit, sched.Deadlock)):
                return {"infra": str(s.aborted), "trace": s.trace}
        else:
            ths = [threading.Thread(target=body(t)) for t in range(nth)]
            with fleet.same_ident_across_processes(lambda: getattr(_TL, "i", None), len(storages)):
                for t in ths:
                    t.start()
                for t in ths:
                    t.join(120)
        # the trailing sequential calls (pseudo-thread `nth`): invoked after every thread has returned
        for ci, c in enumerate(case["calls"]):
            if c["thread"] == nth:
                inv = now() + 1
                raw = execs[0].run(dict(c["op"]))
                results[ci] = {"inv": inv, "ret": inv + 1, "raw": raw, "op": c["op"]}
                if controlled:
                    s.clock = inv + 1
        if len(results) != len(case["calls"]):
            return {"crash": "only %d of %d calls completed" % (len(results), len(case["calls"])), "trace": s.trace}
        # observations with ids erased; created trials are reported by their number
        calls = []
        for ci, c in enumerate(case["calls"]):
            res = results[ci]
            raw = res["raw"]
            obs: Any
            if raw.get("k") == "id":
                obs = {"k": "id"}
                if c["op"]["op"] == "createTrial":
                    try:
                        obs["number"] = h.storage.get_trial_number_from_id(ex0.rt(raw["n"]))
                    except Exception as e:  # noqa: BLE001
                        obs["number"] = "error:%s" % type(e).__name__
            elif raw.get("k") == "nat" and c["op"]["op"] in ("getStudyIdFromName", "getTrialIdFromNumber"):
                obs = {"k": "nat"}
            else:
                obs = erase({k: v for k, v in raw.items() if k != "msg"})
            if c["op"]["op"] == "setTrialStateValues" and c["op"]["state"] != 0 and obs == {"k": "bool", "b": False}:
                # U7: a finisher that loses a race (RDB unique-key conflict on the value rows) answers False
                # ("state kept the same") instead of raising UpdateFinishedTrialError; both mean "not applied"
                obs = {"k": "err", "e": "UpdateFinishedTrialError"}
            dop = K.to_driver(c["op"], impl_raised=(raw.get("k") == "err" and raw.get("e") == "ValueError"))
            calls.append({"thread": c["thread"], "inv": res["inv"], "ret": res["ret"], "op": dop, "obs": obs})
        final = sorted(ex0.dump(), key=lambda d: d["study"]["name"])
        req = {"setup": [K.to_driver(op) for op in case["setup"]], "calls": calls, "final": erase(final)}
        switches = sum(1 for a, b in zip(s.trace, s.trace[1:]) if a != b)
        return {"req": req, "trace": s.trace if controlled else [], "switches": switches}
    finally:
        h.close()


def _worker(args: tuple[str, list[tuple[int, dict[str, Any], int | None]], str, bool]) -> list[dict[str, Any]]:
    cfg, cases, tmp, controlled = args
    out = []
    drv = core.Driver("lin")
    try:
        for seed, case, pct in cases:
            try:
                res = run_case(cfg, case, seed, tmp, pct=pct, controlled=controlled)
            except Exception as e:  # noqa: BLE001
                import traceback
                out.append({"seed": seed, "kind": "infra", "why": "%s: %s %s" % (type(e).__name__, e, traceback.format_exc()[-300:])})
                continue
            rec: dict[str, Any] = {"seed": seed, "case": case, "pct": pct, "trace": res.get("trace", []), "switches": res.get("switches", 0)}
            if "infra" in res:
                rec.update(kind="infra", why=res["infra"])
            elif "crash" in res:
                rec.update(kind="violation", why=res["crash"])
            else:
                ans = drv.ask(res["req"])
                if ans.get("ok"):
                    rec.update(kind="ok", order=ans["order"], explored=ans["explored"])
                elif "ok" in ans:
                    # classify: does the history of the *writes* alone linearize?  Then only a reader saw an
                    # impossible state (a read assembled from several moments).
                    req2 = dict(res["req"], calls=without_reads(res["req"]["calls"]))
                    ans2 = drv.ask(req2) if len(req2["calls"]) < len(res["req"]["calls"]) else {"ok": False}
                    sub = "torn-read" if ans2.get("ok") else "not-linearizable"
                    if sub == "torn-read":
                        rd = torn_readers(drv, res["req"])
                        rec["torn_readers"] = rd
                        if not rd or not set(rd) <= TRIAL_READERS:
                            sub = "torn-read-other"   # not the family of known finding F16: stays unlisted
                    if sub == "not-linearizable":
                        # Two successful set_trial_param calls on one parameter name of ONE study with different distribution
                        # classes on two trials: impossible in every sequential order whatever else happened (the second
                        # one must raise ValueError) - the check-then-act race of the compatibility check.  Only claimed
                        # for histories that consist of such calls and reads (the generator gen_param_race), so that
                        # nothing else can hide behind the classification.
                        w = req2["calls"]
                        one_study = sum(1 for o in case["setup"] if o["op"] == "createStudy") == 1
                        only_sp = all(c["op"]["op"] == "setTrialParam" for c in w)
                        sp = [c["op"] for c in w if not c["op"].get("implRaised")]
                        if one_study and only_sp and any(a_["name"] == b_["name"] and a_["tid"] != b_["tid"] and a_["param"]["kind"] != b_["param"]["kind"]
                                                         for a_ in sp for b_ in sp):
                            sub = "param-distribution-race"
                    rec.update(kind="violation", sub=sub, observed=res["req"]["calls"],
                               why="no linearization exists (explored %d orders)%s: %s" % (
                                   ans["explored"], "; the writes alone do linearize, so a reader saw a state that never existed" if ans2.get("ok") else "",
                                   json.dumps(res["req"]["calls"])[:900]))
                else:
                    rec.update(kind="driver", why=json.dumps(ans)[:400])
            out.append(rec)
    finally:
        drv.close()
    return out


def explore(chk: core.Check, cfgs: list[str], n: int, controlled: bool = True, tag: str = "") -> None:
    import multiprocessing as mp

    jobs = []
    for ci, cfg in enumerate(cfgs):
        cases = []
        for i in range(n):
            seed = chk.seed * 1000003 + ci * 7919 + i
            r = random.Random(seed)
            cases.append((seed, gen_case(r), r.choice([None, None, 2, 3])))
        k = 4
        for j in range(k):
            jobs.append((cfg, cases[j::k], chk.tmp, controlled))
    with mp.get_context("spawn").Pool(min(len(jobs), 12)) as pool:
        results = pool.map(_worker, jobs)
    for (cfg, _, _, _), res in zip(jobs, results):
        for rec in res:
            if rec["kind"] == "ok":
                chk.case({"cfg": cfg, "programs": [[c["thread"], c["op"]["op"]] for c in rec["case"]["calls"]], "schedule_len": len(rec["trace"]),
                          "switches": rec["switches"], "linearization": rec["order"]}, nontrivial=rec["switches"] >= 2 or not controlled)
                chk.count("cases%s:%s" % (tag, cfg))
                chk.count("lin_orders_explored", rec["explored"])
                chk.traces_validated += 1
            elif rec["kind"] == "violation":
                base = {"rdb": "sqlite", "cached": "sqlite"}.get(cfg, cfg)
                chk.violation({"backend": cfg, "base": base, "kind": rec.get("sub", "crash"), "controlled": controlled},
                              {"backend": cfg, "case": rec["case"], "seed": rec["seed"], "pct": rec["pct"], "schedule": rec["trace"], "controlled": controlled,
                               "observed": rec.get("observed")},
                              "%s: %s" % (cfg, rec["why"]))
            elif rec["kind"] == "infra":
                chk.count("infra:" + cfg)
                chk.extra.setdefault("infra_notes", []).append(rec["why"][:200])
            else:
                chk.broke("correspondence", {"cfg": cfg, "why": rec["why"]})


def search(chk: core.Check) -> None:
    chk.search_log.append("searching deeper schedules on mem/journal for a non-linearizable history")
    explore(chk, ["mem", "journal-symlink"], 600, tag="-search")


def journal_create_study_race(chk: core.Check) -> None:
    """Known finding F36: JournalStorage.create_new_study finds its new study by NAME after the sync; when another worker's
    delete_study of exactly that id lands between this worker's append and its read (ids are predictable: 0, 1, 2, ...), the
    search finds nothing and the call dies with `assert False` - an answer no sequential order of {create, delete} produces.
    (Lean: C06FrontGen.front_create_new_study_deleted_in_between_witness.)"""
    from optuna.storages import JournalStorage
    from optuna.storages.journal import JournalFileBackend
    from optuna.study import StudyDirection

    path = os.path.join(chk.tmp, "f36_%d.log" % os.getpid())
    a, b = JournalStorage(JournalFileBackend(path)), JournalStorage(JournalFileBackend(path))
    orig = a._backend.append_logs

    def hooked(logs: list[dict[str, Any]]) -> None:
        orig(logs)
        if logs and logs[0].get("op_code") == 0:
            b.delete_study(0)

    a._backend.append_logs = hooked  # type: ignore[method-assign]
    try:
        got: Any = a.create_new_study([StudyDirection.MINIMIZE], "s")
        outcome = "returned %r" % (got,)
    except BaseException as e:  # noqa: BLE001
        outcome = "raised %s" % type(e).__name__
    chk.case({"part": "journal-create-study-race"}, nontrivial=True)
    chk.count("journal-create-study-race")
    if outcome != "returned 0":
        chk.violation({"backend": "journal", "kind": "create-study-deleted-in-between"}, {"part": "journal-create-study-race", "outcome": outcome},
                      "journal: create_new_study %s although the only sequential orders of {create_new_study('s'), delete_study(0) -> None} answer 0" % outcome)


def journal_param_race(chk: core.Check) -> None:
    """Two JournalStorage objects on one file ('processes').  Worker A sets parameter "x" of ITS trial with a Float
    distribution; just before A's record reaches the file, worker B's complete call sets "x" of ITS OWN trial with an Int
    distribution.  The log order arbitrates: B's record is first, A's is rejected at replay by every worker and A's call
    raises ValueError - the sequential order (B, A).  No sequential order lets both calls succeed: whichever is second sees
    an incompatible distribution for the name.  Both modes of the race (A first / B first in the file) are run."""
    from optuna.distributions import FloatDistribution, IntDistribution
    from optuna.storages import JournalStorage
    from optuna.storages.journal import JournalFileBackend
    from optuna.study import StudyDirection

    for variant in ("other-call-before-append", "other-call-after-append"):
        path = os.path.join(chk.tmp, "prace_%s_%d.log" % (variant[-13:], os.getpid()))
        a, b = JournalStorage(JournalFileBackend(path)), JournalStorage(JournalFileBackend(path))
        sid = a.create_new_study([StudyDirection.MINIMIZE], "s")
        ta, tb = a.create_new_trial(sid), b.create_new_trial(sid)
        orig = a._backend.append_logs
        out: dict[str, str] = {}

        def other() -> None:
            try:
                b.set_trial_param(tb, "x", 3.0, IntDistribution(0, 10))
                out["b"] = "ok"
            except BaseException as e:  # noqa: BLE001
                out["b"] = type(e).__name__

        def hooked(logs: list[dict[str, Any]], _orig: Any = orig, _variant: str = variant) -> None:
            mine = bool(logs) and any(l.get("param_name") == "x" for l in logs)
            if mine and _variant == "other-call-before-append" and "b" not in out:
                other()
            _orig(logs)
            if mine and _variant == "other-call-after-append" and "b" not in out:
                other()

        a._backend.append_logs = hooked  # type: ignore[method-assign]
        try:
            a.set_trial_param(ta, "x", 0.5, FloatDistribution(0, 1))
            out["a"] = "ok"
        except BaseException as e:  # noqa: BLE001
            out["a"] = type(e).__name__
        finally:
            a._backend.append_logs = orig  # type: ignore[method-assign]
        seen = {}
        for name, st in (("a", a), ("b", b), ("fresh", JournalStorage(JournalFileBackend(path)))):
            seen[name] = sorted((t.number, sorted((k, type(d).__name__) for k, d in t.distributions.items())) for t in st.get_all_trials(sid, deepcopy=False))
        chk.case({"part": "journal-param-race", "variant": variant}, nontrivial=True)
        chk.count("journal-param-race")
        kinds = {d for rows in seen.values() for _, ds in rows for _, d in ds}
        if "b" not in out:
            chk.broke("correspondence", {"what": "journal-param-race: the hook on append_logs never saw a SET_TRIAL_PARAM record for 'x' (%s)" % variant})
        elif sorted(out.values()) != ["ValueError", "ok"] or len(kinds) != 1 or len({json.dumps(v) for v in seen.values()}) != 1:
            chk.violation({"backend": "journal", "kind": "param-distribution-race"}, {"part": "journal-param-race", "variant": variant, "outcome": out, "seen": seen},
                          "journal (%s): two workers set parameter 'x' of two trials of one study with incompatible distributions: outcomes %s, distributions seen %s "
                          "- in every sequential order exactly one call succeeds and one raises ValueError, and the study holds one distribution for the name" % (
                              variant, json.dumps(out, sort_keys=True), json.dumps(seen, sort_keys=True)[:300]))


def rdb_param_race(chk: core.Check) -> None:
    """Known finding F37, deterministically: two RDBStorage objects on one SQLite file; worker B's whole
    set_trial_param("x", Int) on its trial is placed just before worker A's INSERT of its own ("x", Float) row, i.e. after
    A's compatibility check.  In every sequential order the second call raises ValueError."""
    import sqlalchemy

    from optuna.distributions import FloatDistribution, IntDistribution
    from optuna.storages import RDBStorage
    from optuna.study import StudyDirection

    url = "sqlite:///" + os.path.join(chk.tmp, "f37_%d.db" % os.getpid())
    a, b = RDBStorage(url), RDBStorage(url)
    sid = a.create_new_study([StudyDirection.MINIMIZE], "s")
    ta, tb = a.create_new_trial(sid), b.create_new_trial(sid)
    out: dict[str, str] = {}

    def hook(conn: Any, cursor: Any, statement: str, parameters: Any, context: Any, executemany: Any) -> None:
        if statement.lstrip().upper().startswith("INSERT INTO TRIAL_PARAMS") and "b" not in out:
            try:
                b.set_trial_param(tb, "x", 3.0, IntDistribution(0, 10))
                out["b"] = "ok"
            except Exception as e:  # noqa: BLE001
                out["b"] = type(e).__name__

    sqlalchemy.event.listen(a.engine, "before_cursor_execute", hook)
    try:
        a.set_trial_param(ta, "x", 0.5, FloatDistribution(0, 1))
        out["a"] = "ok"
    except Exception as e:  # noqa: BLE001
        out["a"] = type(e).__name__
    finally:
        sqlalchemy.event.remove(a.engine, "before_cursor_execute", hook)
    chk.case({"part": "rdb-param-race"}, nontrivial=True)
    chk.count("rdb-param-race")
    if "b" not in out:
        chk.broke("correspondence", {"what": "rdb-param-race: no INSERT INTO trial_params was seen on worker A's connection"})
    elif sorted(out.values()) != ["ValueError", "ok"]:
        chk.violation({"backend": "rdb", "base": "sqlite", "kind": "param-distribution-race", "controlled": False},
                      {"part": "rdb-param-race", "outcome": out},
                      "rdb: two workers set parameter 'x' of two trials of one study with incompatible distributions, the second call placed between the "
                      "first one's compatibility check and its INSERT: outcomes %s - in every sequential order exactly one call succeeds" % json.dumps(out, sort_keys=True))


def main(chk: core.Check) -> int:
    chk.rule = RULE
    tables = tlock.regenerate(chk)
    chk.extra["lock_table"] = {k: {n: s for n, s in v} for k, v in tables.items()}
    if not getattr(chk, "no_prove", False):
        from verif.props import c01_inmem_gen
        c01_inmem_gen.regenerate(chk)   # Props/C03InMem instantiates the lock theorem at Generated/InMemoryMethods.lean
        from verif.props import c06_front, c06_gen
        c06_gen.regenerate(chk)         # Props/C03Journal instantiates the lock theorem at the generated JournalStorage
        c06_front.regenerate(chk)       # front end (Generated/JournalFront.lean) + handlers (Generated/JournalHandlers.lean)
        chk.prove(["OptunaVerif.Props.C03", "OptunaVerif.Props.C03Cache", "OptunaVerif.Props.C03InMem",
                   "OptunaVerif.Props.C03Journal"])
    quick = chk.tier == "quick"
    journal_create_study_race(chk)
    journal_param_race(chk)
    rdb_param_race(chk)
    try:
        core.ensure_driver()
        explore(chk, ["mem", "journal-symlink", "journal-open"], 160 if quick else 3000)
        explore(chk, ["rdb", "cached", "grpc(mem)", "grpc(journal)"], 12 if quick else 300, controlled=False, tag="-free")
        # SQLite, deterministically: one complete call of another worker placed before every SQL statement / commit of a call
        from verif.props import c03_sql

        c03_sql.explore(chk)
        # four threads issue the same compare-and-set at one instant, many times: a history with two True answers
        # has no linearization (sampled; decides nothing by itself about SQLite's locking)
        from verif.props import c04

        c04.race_burst(chk, ["rdb", "cached", "journal-symlink"], 100 if quick else 2000)
    except core.DriverBroken as e:
        chk.broke("correspondence", {"driver": str(e)[:800]})
    chk.assumptions += [
        "preemption points are source lines of optuna/storages/** (not bytecodes, not C extensions)",
        "gRPC server scheduling is not controlled (free threads, sampled); SQLite is explored both with free threads and, statement by statement, by c03_sql",
        "atomicity of one SQL transaction and of O_APPEND writes is trusted",
    ]
    return chk.finish(search=search)


def replay(chk: core.Check, path: str) -> int:
    w = json.load(open(path))["witness"]
    if w.get("part") == "sql":
        from verif.props import c03_sql

        return c03_sql.replay_case(chk, w)
    core.ensure_driver()
    drv = core.Driver("lin")
    try:
        res = run_case(w["backend"], w["case"], w["seed"], chk.tmp, schedule=w["schedule"] or None, pct=w.get("pct"), controlled=w.get("controlled", True))
        if "req" not in res:
            print("REPRODUCED: %s" % (res.get("crash") or res.get("infra")))
            return 1
        ans = drv.ask(res["req"])
    finally:
        drv.close()
    if not ans.get("ok"):
        print("REPRODUCED: no linearization")
        return 1
    print("not reproduced")
    return 0
