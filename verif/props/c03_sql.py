"""C03 on SQLite, statement by statement: DETERMINISTIC placement of one complete storage call of another worker between two
SQL statements of a call (helper module of verif/props/c03.py, like c01_grpc.py for C01).

Workers = RDBStorage objects (optionally behind `_CachedStorage`) with their own engine on ONE SQLite file.  The SQL events of
worker A's engine - every statement (`before_cursor_execute`) and every `commit` / `rollback` - are the preemption points.
Strategy "one other call at event k": for a call of A with m events and every k <= m, A is paused just before its k-th event,
worker B performs ONE complete storage call (in-thread, from inside the event hook), then A resumes.  Thorough tier: a third
worker C at a second, later event.  The history (A's call with B's [and C's] strictly inside it, observations with ids erased,
the final readable state) goes to the `lin` sub-driver = Wing-Gong search against the Lean contract model, exactly as the
free-running cases of c03.py.

SQLite locking (rollback-journal mode, pysqlite legacy transaction control): a transaction really begins at the first DML; from
then until commit A holds the write lock.  While A holds it only READER calls of B are placed (they see the pre-commit state); a
writer is not attempted (counted as `skipped:A-holds-write-lock`).  Every worker has a 50 ms busy timeout and any
`database is locked` is "placement impossible" (counted), never a verdict.

Classification as in c03._worker: the writes alone linearize -> `torn-read` (known finding F16's signature); two successful
set_trial_param of one name with incompatible distributions -> `param-distribution-race` (F37's signature); anything else ->
`not-linearizable`, "controlled": true, with (A, B, k) in the witness so that it replays exactly (`replay_case`).
"""
from __future__ import annotations

import json
import os
import shutil
import time
from typing import Any

from optuna.distributions import distribution_to_json

from verif import core
from verif import storage_k as K

RULE_SQL = (
    "sql placement: set-up (2 studies; RUNNING, WAITING, COMPLETE trials) on one SQLite file; call A of worker 1 x one complete call B of "
    "worker 2 placed before A's k-th SQL event (statement / commit), every k; quick: every A x a sample of B, thorough: all pairs, "
    "cached variants, a third worker at a later event; non-trivial = B was placed after A's first and before A's last event"
)
D_FLOAT = distribution_to_json(K.DISTS[0])
D_INT = distribution_to_json(K.DISTS[4])
WAITING_TMPL = {"state": 4, "values": None, "params": {}, "user": {}, "system": {"fixed_params": {"x": 0.5}}, "inter": {}, "start": False, "complete": False}
COMPLETE_TMPL = {"state": 1, "values": [K.ftok(1.5)], "params": {"x": {"dist": D_FLOAT, "ext": 0.25}}, "user": {"u": 1}, "system": {"s": "t"},
                 "inter": {"0": K.ftok(0.5)}, "start": True, "complete": True}

# canonical ids after SETUP: studies 0 (s0, minimize), 1 (s1, maximize); trials 0,1 RUNNING in s0; 2 WAITING in s0; 3 COMPLETE (5.0) in s0;
# 4 RUNNING in s1
SETUP: list[dict[str, Any]] = [
    {"op": "createStudy", "name": "s0", "dirs": [1]},
    {"op": "createStudy", "name": "s1", "dirs": [2]},
    {"op": "createTrial", "sid": 0, "tmpl": None},
    {"op": "createTrial", "sid": 0, "tmpl": None},
    {"op": "createTrial", "sid": 0, "tmpl": dict(WAITING_TMPL)},
    {"op": "createTrial", "sid": 0, "tmpl": None},
    {"op": "setTrialStateValues", "tid": 3, "state": 1, "values": [K.ftok(5.0)]},
    {"op": "createTrial", "sid": 1, "tmpl": None},
]

A_CALLS: dict[str, dict[str, Any]] = {
    "createTrial": {"op": "createTrial", "sid": 0, "tmpl": None},
    "createTrial(tmpl COMPLETE)": {"op": "createTrial", "sid": 0, "tmpl": dict(COMPLETE_TMPL)},
    "createTrial(tmpl WAITING)": {"op": "createTrial", "sid": 0, "tmpl": dict(WAITING_TMPL)},
    "setTrialParam(t0,x:Float)": {"op": "setTrialParam", "tid": 0, "name": "x", "dist": D_FLOAT, "internal": K.ftok(0.5)},
    "claim(t2)": {"op": "setTrialStateValues", "tid": 2, "state": 0, "values": None},
    "complete(t0)": {"op": "setTrialStateValues", "tid": 0, "state": 1, "values": [K.ftok(2.0)]},
    "setTrialInter(t0,0)": {"op": "setTrialInter", "tid": 0, "step": 0, "v": K.ftok(1.0)},
    "setTrialUserAttr(t0,k0)": {"op": "setTrialUserAttr", "tid": 0, "k": "k0", "v": 1},
    "setTrialSystemAttr(t0,sys)": {"op": "setTrialSystemAttr", "tid": 0, "k": "sys", "v": 1},
    "setStudyUserAttr(s0,k0)": {"op": "setStudyUserAttr", "sid": 0, "k": "k0", "v": 1},
    "createStudy(new)": {"op": "createStudy", "name": "new", "dirs": [1]},
    "deleteStudy(s1)": {"op": "deleteStudy", "sid": 1},
    # readers as the paused call: a writer placed between two of their SELECTs
    "getAllTrials(s0)": {"op": "getAllTrials", "sid": 0, "states": None},
    "getTrial(t0)": {"op": "getTrial", "tid": 0},
    "getBestTrial(s0)": {"op": "getBestTrial", "sid": 0},
    # a finished trial (a cached client answers it from its cache: no SQL event then) and the lookup by number
    "getTrial(t3)": {"op": "getTrial", "tid": 3},
    "getTrialIdFromNumber(s0,3)": {"op": "getTrialIdFromNumber", "sid": 0, "number": 3},
    # the heartbeat sweep: fail_stale_trials' claim `set_trial_state_values(FAIL)` against the worker's own finish, and the two
    # heartbeat calls (outside the contract model: executed, not part of the history given to `lin`, judged by `hb_verdict`)
    "fail(t1)": {"op": "setTrialStateValues", "tid": 1, "state": 3, "values": None},
    "recordHeartbeat(t0)": {"op": "recordHeartbeat", "tid": 0},
    "getStaleTrialIds(s0)": {"op": "getStaleTrialIds", "sid": 0},
}
B_WRITERS: dict[str, dict[str, Any]] = {
    "createTrial": {"op": "createTrial", "sid": 0, "tmpl": None},
    "createTrial(tmpl COMPLETE)": {"op": "createTrial", "sid": 0, "tmpl": dict(COMPLETE_TMPL)},
    "setTrialParam(t1,x:Int)": {"op": "setTrialParam", "tid": 1, "name": "x", "dist": D_INT, "internal": K.ftok(3.0)},
    "setTrialParam(t0,x:Float)": {"op": "setTrialParam", "tid": 0, "name": "x", "dist": D_FLOAT, "internal": K.ftok(0.75)},
    "claim(t2)": {"op": "setTrialStateValues", "tid": 2, "state": 0, "values": None},
    "complete(t0)": {"op": "setTrialStateValues", "tid": 0, "state": 1, "values": [K.ftok(3.0)]},
    "complete(t1)": {"op": "setTrialStateValues", "tid": 1, "state": 1, "values": [K.ftok(1.0)]},
    "fail(t0)": {"op": "setTrialStateValues", "tid": 0, "state": 3, "values": None},
    "setTrialInter(t0,0)": {"op": "setTrialInter", "tid": 0, "step": 0, "v": K.ftok(9.0)},
    "setTrialUserAttr(t0,k0)": {"op": "setTrialUserAttr", "tid": 0, "k": "k0", "v": 2},
    "setTrialUserAttr(t1,k0)": {"op": "setTrialUserAttr", "tid": 1, "k": "k0", "v": 2},
    "setStudyUserAttr(s0,k0)": {"op": "setStudyUserAttr", "sid": 0, "k": "k0", "v": 2},
    "createStudy(new)": {"op": "createStudy", "name": "new", "dirs": [2]},
    "deleteStudy(s0)": {"op": "deleteStudy", "sid": 0},
    "deleteStudy(s1)": {"op": "deleteStudy", "sid": 1},
    "fail(t1)": {"op": "setTrialStateValues", "tid": 1, "state": 3, "values": None},
    "recordHeartbeat(t0)": {"op": "recordHeartbeat", "tid": 0},
    "recordHeartbeat(t1)": {"op": "recordHeartbeat", "tid": 1},
}
B_READERS: dict[str, dict[str, Any]] = {
    "getAllTrials(s0)": {"op": "getAllTrials", "sid": 0, "states": None},
    "getAllTrials(s0,WAITING)": {"op": "getAllTrials", "sid": 0, "states": [4]},
    "getAllTrials(s0,COMPLETE)": {"op": "getAllTrials", "sid": 0, "states": [1]},
    "getTrial(t0)": {"op": "getTrial", "tid": 0},
    "getTrial(t2)": {"op": "getTrial", "tid": 2},
    "getNTrials(s0)": {"op": "getNTrials", "sid": 0, "states": None},
    "getBestTrial(s0)": {"op": "getBestTrial", "sid": 0},
    "getAllStudies": {"op": "getAllStudies"},
    "getTrialIdFromNumber(s0,4)": {"op": "getTrialIdFromNumber", "sid": 0, "number": 4},
    "getTrial(t3)": {"op": "getTrial", "tid": 3},
    "getStaleTrialIds(s0)": {"op": "getStaleTrialIds", "sid": 0},
}
B_CALLS = {**B_WRITERS, **B_READERS}
# quick tier: for every A the calls of B that touch the same rows / the same decision, plus three readers
QUICK_B: dict[str, list[str]] = {
    "createTrial": ["createTrial", "createTrial(tmpl COMPLETE)", "deleteStudy(s0)", "getAllTrials(s0)", "getNTrials(s0)", "getTrialIdFromNumber(s0,4)"],
    "createTrial(tmpl COMPLETE)": ["createTrial", "complete(t1)", "setTrialParam(t1,x:Int)", "getAllTrials(s0)", "getAllTrials(s0,COMPLETE)", "getBestTrial(s0)",
                                   "getTrialIdFromNumber(s0,4)", "getNTrials(s0)"],
    "createTrial(tmpl WAITING)": ["createTrial", "getAllTrials(s0,WAITING)", "getNTrials(s0)", "getTrialIdFromNumber(s0,4)"],
    "setTrialParam(t0,x:Float)": ["setTrialParam(t1,x:Int)", "setTrialParam(t0,x:Float)", "complete(t0)", "getTrial(t0)", "getAllTrials(s0)"],
    "claim(t2)": ["claim(t2)", "getTrial(t2)", "getAllTrials(s0,WAITING)", "deleteStudy(s0)"],
    "complete(t0)": ["complete(t0)", "fail(t0)", "complete(t1)", "setTrialParam(t0,x:Float)", "getTrial(t0)", "getBestTrial(s0)", "getAllTrials(s0,COMPLETE)"],
    "setTrialInter(t0,0)": ["setTrialInter(t0,0)", "complete(t0)", "getTrial(t0)"],
    "setTrialUserAttr(t0,k0)": ["setTrialUserAttr(t0,k0)", "fail(t0)", "getTrial(t0)"],
    "setTrialSystemAttr(t0,sys)": ["complete(t0)", "getTrial(t0)"],
    "setStudyUserAttr(s0,k0)": ["setStudyUserAttr(s0,k0)", "deleteStudy(s0)", "getAllStudies"],
    "createStudy(new)": ["createStudy(new)", "getAllStudies"],
    "deleteStudy(s1)": ["deleteStudy(s1)", "createStudy(new)", "getAllStudies"],
    "getAllTrials(s0)": ["complete(t0)", "createTrial(tmpl COMPLETE)", "setTrialParam(t0,x:Float)", "setTrialUserAttr(t0,k0)"],
    "getTrial(t0)": ["complete(t0)", "setTrialParam(t0,x:Float)"],
    "getBestTrial(s0)": ["complete(t1)", "createTrial(tmpl COMPLETE)"],
    "getTrial(t3)": ["deleteStudy(s0)", "complete(t0)"],
    "getTrialIdFromNumber(s0,3)": ["createTrial", "deleteStudy(s0)"],
    "fail(t1)": ["complete(t1)", "recordHeartbeat(t1)", "getStaleTrialIds(s0)", "getTrial(t3)"],
    "recordHeartbeat(t0)": ["recordHeartbeat(t0)", "complete(t0)", "deleteStudy(s0)", "getStaleTrialIds(s0)"],
    "getStaleTrialIds(s0)": ["complete(t1)", "fail(t1)", "recordHeartbeat(t1)", "recordHeartbeat(t0)"],
}
HB_OPS = ("recordHeartbeat", "getStaleTrialIds")
HB_MUTATING = ("recordHeartbeat",)
BUSY_TIMEOUT = 0.05


def _is_dml(stmt: str) -> bool:
    """does this statement make the connection hold SQLite's write lock until the transaction ends?  A DML statement (pysqlite's
    legacy mode begins the transaction there), or an explicit `BEGIN IMMEDIATE` / `BEGIN EXCLUSIVE` (a storage that takes the lock when
    the transaction begins: then A holds it for its whole call and only readers can be placed).  Detected per statement of the run."""
    head = " ".join(stmt.split()[:2]).upper()
    return head[:6] in ("INSERT", "UPDATE", "DELETE", "REPLAC") or head in ("BEGIN IMMEDIATE", "BEGIN EXCLUSIVE")


def _mk(url: str, cached: bool) -> tuple[Any, Any]:
    from optuna.storages import RDBStorage
    from optuna.storages._cached_storage import _CachedStorage

    rdb = RDBStorage(url, skip_compatibility_check=True, skip_table_creation=True, engine_kwargs={"connect_args": {"timeout": BUSY_TIMEOUT}},
                     heartbeat_interval=60, grace_period=120)
    return (_CachedStorage(rdb) if cached else rdb), rdb


class Template:
    """the set-up history in a SQLite file that every run starts from (copied), with the canonical <-> real id maps"""

    def __init__(self, tmp: str) -> None:
        from optuna.storages import RDBStorage

        self.path = os.path.join(tmp, "sqltmpl_%d.db" % os.getpid())
        for p in (self.path, self.path + "-journal"):
            if os.path.exists(p):
                os.unlink(p)
        st = RDBStorage("sqlite:///" + self.path)
        ex = K.Exec(st)
        for op in SETUP:
            r = ex.run(op)
            if r.get("k") == "err":
                raise core.InfraError("sql placement: set-up call %s failed: %s" % (op, r))
        self.maps = (dict(ex.s2r), dict(ex.t2r), dict(ex.r2s), dict(ex.r2t), dict(ex.trial_study))
        # trial 1 has a heartbeat that is a day old: `_get_stale_trial_ids(s0)` = [trial 1] as long as it is RUNNING
        import sqlalchemy

        st.record_heartbeat(ex.rt(1))
        with st.engine.begin() as conn:
            conn.execute(sqlalchemy.text("UPDATE trial_heartbeats SET heartbeat = datetime('now', '-1 day')"))
        st.engine.dispose()
        self.n = 0

    def fresh(self, tmp: str) -> tuple[str, K.Exec]:
        self.n += 1
        p = os.path.join(tmp, "sqlrun_%d.db" % os.getpid())
        for q in (p, p + "-journal"):
            if os.path.exists(q):
                os.unlink(q)
        shutil.copyfile(self.path, p)
        return p, None  # type: ignore[return-value]


def _exec_with_maps(storage: Any, maps: Any, share: K.Exec | None = None) -> K.Exec:
    ex = K.Exec(storage, share=share)
    if share is None:
        ex.s2r.update(maps[0]); ex.t2r.update(maps[1]); ex.r2s.update(maps[2]); ex.r2t.update(maps[3]); ex.trial_study.update(maps[4])  # noqa: E702
    return ex


def _run_op(ex: K.Exec, rdb: Any, op: dict[str, Any]) -> dict[str, Any]:
    """K.Exec.run, plus the two heartbeat calls (on the RDBStorage itself: `_CachedStorage` only forwards them)"""
    if op["op"] not in HB_OPS:
        return ex.run(op)
    try:
        if op["op"] == "recordHeartbeat":
            rdb.record_heartbeat(ex.rt(op["tid"]))
            return {"k": "unit"}
        ids = rdb._get_stale_trial_ids(ex.rs(op["sid"]))
        return {"k": "ids", "l": sorted(ex.r2t.get(i, "?%d" % i) for i in ids)}
    except Exception as e:  # noqa: BLE001
        return {"k": "err", "e": K.err_name(e), "msg": str(e)[:120]}


def hb_verdict(results: list[dict[str, Any]]) -> str | None:
    """the heartbeat calls are outside the contract model: `record_heartbeat` must return normally whatever happens to the trial
    meanwhile; `_get_stale_trial_ids` must answer a list of trials that were RUNNING with the aged heartbeat before or after the
    other call (set-up: only trial 1 can be stale) - never raise"""
    for res in results:
        op, raw = res["op"], res["raw"]
        if op["op"] == "recordHeartbeat" and raw.get("k") != "unit":
            return "record_heartbeat raised %s: %s" % (raw.get("e"), raw.get("msg"))
        if op["op"] == "getStaleTrialIds":
            if raw.get("k") != "ids":
                # the study may have been deleted by the other call: KeyError is then an answer of a sequential order
                if raw.get("e") == "KeyError" and any(r["op"]["op"] == "deleteStudy" for r in results):
                    continue
                return "_get_stale_trial_ids raised %s: %s" % (raw.get("e"), raw.get("msg"))
            if any(i != 1 for i in raw["l"]):
                return "_get_stale_trial_ids answered %s: only trial 1 has an expired heartbeat" % raw["l"]
    return None


def run_one(tmpl: Template, tmp: str, a_name: str, placements: list[tuple[str, int]], cached_a: bool = False, cached_b: bool = False) -> dict[str, Any]:
    """One run: A's call with, for every (b_name, k) of `placements` (increasing k), one complete call of another worker placed
    before A's k-th SQL event.  Returns the `lin` request + bookkeeping, or {"skip": why} when a placement was impossible."""
    import sqlalchemy

    from verif.props import c03

    path, _ = tmpl.fresh(tmp)
    url = "sqlite:///" + path
    a_st, a_rdb = _mk(url, cached_a)
    others = [_mk(url, cached_b) for _ in placements]
    ex0 = _exec_with_maps(a_st, tmpl.maps)
    ex_b = [_exec_with_maps(o[0], tmpl.maps, share=ex0) for o in others]
    if cached_a or cached_b:
        # a cached client answers finished trials from its cache: let every client see the set-up state first (as a worker that has
        # been running for a while), so that the placement is about the call under test and not about a cold cache
        for st in [a_st] + [o[0] for o in others]:
            if hasattr(st, "_backend"):
                st.get_all_trials(tmpl.maps[0][0], deepcopy=False)
    a_op = A_CALLS[a_name]
    state: dict[str, Any] = {"n": 0, "dml": False, "events": [], "placed": [], "skip": None, "clock": 1}
    results: list[dict[str, Any]] = []
    todo = list(placements)

    def on_event(kind: str, stmt: str | None = None) -> None:
        state["n"] += 1
        state["events"].append(kind if stmt is None else " ".join(stmt.split()[:4])[:60])
        while todo and todo[0][1] == state["n"] and state["skip"] is None:
            b_name, k = todo.pop(0)
            i = len(state["placed"])
            b_op = B_CALLS[b_name]
            if state["dml"] and (b_op["op"] in K.MUTATING or b_op["op"] in HB_MUTATING):
                state["skip"] = "A-holds-write-lock"
                return
            state["clock"] += 1
            inv = state["clock"]
            raw = _run_op(ex_b[i], others[i][1], dict(b_op))
            state["clock"] += 1
            if locked or (raw.get("k") == "err" and "database is locked" in str(raw.get("msg", ""))):
                state["skip"] = "database-is-locked"
                return
            state["placed"].append({"b": b_name, "k": k, "held": state["dml"]})
            results.append({"thread": i + 1, "inv": inv, "ret": state["clock"], "raw": raw, "op": b_op})
        if kind in ("COMMIT", "ROLLBACK"):
            state["dml"] = False
        elif stmt is not None and _is_dml(stmt):
            state["dml"] = True

    def h_stmt(conn: Any, cursor: Any, statement: str, parameters: Any, context: Any, executemany: Any) -> None:
        on_event("S", statement)

    def h_commit(conn: Any) -> None:
        on_event("COMMIT")

    def h_rollback(conn: Any) -> None:
        on_event("ROLLBACK")

    # `database is locked` is seen at the DBAPI level (RDBStorage wraps it into StorageInternalError, whose text does not name it):
    # whoever meets it - the placed call or A itself - the placement was impossible under SQLite's locking; never a verdict
    locked: list[str] = []

    def h_error(context: Any) -> None:
        if "database is locked" in str(context.original_exception) or "database table is locked" in str(context.original_exception):
            locked.append(str(context.original_exception)[:80])

    engines = [a_rdb.engine] + [o[1].engine for o in others]
    for e_ in engines:
        sqlalchemy.event.listen(e_, "handle_error", h_error)
    eng = a_rdb.engine
    sqlalchemy.event.listen(eng, "before_cursor_execute", h_stmt)
    sqlalchemy.event.listen(eng, "commit", h_commit)
    sqlalchemy.event.listen(eng, "rollback", h_rollback)
    try:
        raw_a = _run_op(ex0, a_rdb, dict(a_op))
    finally:
        sqlalchemy.event.remove(eng, "before_cursor_execute", h_stmt)
        sqlalchemy.event.remove(eng, "commit", h_commit)
        sqlalchemy.event.remove(eng, "rollback", h_rollback)
        for e_ in engines:
            sqlalchemy.event.remove(e_, "handle_error", h_error)
    try:
        out: dict[str, Any] = {"events": state["events"], "placed": state["placed"]}
        if locked and state["skip"] is None:
            state["skip"] = "database-is-locked(A)"
        if state["skip"] is not None:
            out["skip"] = state["skip"]
            return out
        if todo:
            out["skip"] = "A has only %d events" % state["n"]
            return out
        if raw_a.get("k") == "err" and "database is locked" in str(raw_a.get("msg", "")):
            out["skip"] = "database-is-locked(A)"
            return out
        state["clock"] += 1
        results.insert(0, {"thread": 0, "inv": 1, "ret": state["clock"], "raw": raw_a, "op": a_op})
        out["hb"] = hb_verdict(results)
        calls = []
        for res in results:
            if res["op"]["op"] in HB_OPS:
                continue  # not a call of the contract model: judged by hb_verdict, transparent for the linearizability search
            raw, op = res["raw"], res["op"]
            obs: Any
            if raw.get("k") == "id":
                obs = {"k": "id"}
                if op["op"] == "createTrial":
                    try:
                        obs["number"] = a_rdb.get_trial_number_from_id(ex0.rt(raw["n"]))
                    except Exception as e:  # noqa: BLE001
                        obs["number"] = "error:%s" % type(e).__name__
            elif raw.get("k") == "nat" and op["op"] in ("getStudyIdFromName", "getTrialIdFromNumber"):
                obs = {"k": "nat"}
            else:
                obs = c03.erase({k: v for k, v in raw.items() if k != "msg"})
            if op["op"] == "setTrialStateValues" and op["state"] != 0 and obs == {"k": "bool", "b": False}:
                obs = {"k": "err", "e": "UpdateFinishedTrialError"}  # U7 (see c03.run_case)
            dop = K.to_driver(op, impl_raised=(raw.get("k") == "err" and raw.get("e") == "ValueError"))
            calls.append({"thread": res["thread"], "inv": res["inv"], "ret": res["ret"], "op": dop, "obs": obs, "msg": raw.get("msg")})
        # the final state through a fresh, uncached opener
        from optuna.storages import RDBStorage

        fresh = RDBStorage(url, skip_compatibility_check=True, skip_table_creation=True)
        exf = _exec_with_maps(fresh, tmpl.maps, share=ex0)
        final = sorted(exf.dump(), key=lambda d: d["study"]["name"])
        fresh.engine.dispose()
        out["req"] = {"setup": [K.to_driver(op) for op in SETUP], "calls": [{k: v for k, v in c.items() if k != "msg"} for c in calls], "final": c03.erase(final)}
        out["msgs"] = [c.get("msg") for c in calls]
        return out
    finally:
        a_rdb.engine.dispose()
        for o in others:
            o[1].engine.dispose()


def classify(drv: core.Driver, req: dict[str, Any]) -> dict[str, Any]:
    ans = drv.ask(req)
    if ans.get("ok"):
        return {"kind": "ok", "order": ans["order"], "explored": ans["explored"]}
    if "ok" not in ans:
        return {"kind": "driver", "why": json.dumps(ans)[:400]}
    from verif.props.c03 import without_reads
    req2 = dict(req, calls=without_reads(req["calls"]))
    ans2 = drv.ask(req2) if len(req2["calls"]) < len(req["calls"]) else {"ok": False}
    sub = "torn-read" if ans2.get("ok") else "not-linearizable"
    if sub == "torn-read":
        from verif.props.c03 import TRIAL_READERS, torn_readers
        rd = torn_readers(drv, req)
        if not rd or not set(rd) <= TRIAL_READERS:
            sub = "torn-read-other"   # not the family of known finding F16: stays unlisted
    if sub == "not-linearizable":
        w = req2["calls"]
        only_sp = bool(w) and all(c["op"]["op"] == "setTrialParam" for c in w)
        sp = [c["op"] for c in w if not c["op"].get("implRaised")]
        if only_sp and any(a_["name"] == b_["name"] and a_["tid"] != b_["tid"] and a_["param"]["kind"] != b_["param"]["kind"] for a_ in sp for b_ in sp):
            sub = "param-distribution-race"  # both trials are in study s0 by construction (SETUP)
    return {"kind": "violation", "sub": sub, "explored": ans["explored"], "writes_linearize": bool(ans2.get("ok"))}


def _pair(tmpl: Template, tmp: str, drv: core.Driver, a_name: str, b_name: str, cached_a: bool, cached_b: bool,
          third: str | None = None) -> list[dict[str, Any]]:
    """all placements of B (and, with `third`, of C at every later event) inside A's call"""
    out: list[dict[str, Any]] = []
    k = 1
    while k < 60:
        res = run_one(tmpl, tmp, a_name, [(b_name, k)], cached_a, cached_b)
        m = len(res["events"])
        if k > m:
            break
        plans = [[(b_name, k)]]
        if third is not None:
            plans = [[(b_name, k), (third, k2)] for k2 in range(k + 1, m + 1)]
        for plan in plans:
            if len(plan) > 1:
                res = run_one(tmpl, tmp, a_name, plan, cached_a, cached_b)
            rec: dict[str, Any] = {"a": a_name, "plan": plan, "cached": [cached_a, cached_b], "m": len(res["events"]), "events": res["events"], "placed": res.get("placed")}
            if "skip" in res:
                rec.update(kind="skip", why=res["skip"])
            else:
                rec.update(classify(drv, res["req"]))
                if rec["kind"] == "ok" and res.get("hb"):
                    rec.update(kind="violation", sub="heartbeat-call", explored=rec.get("explored", 0), writes_linearize=False, hb=res["hb"])
                if rec["kind"] == "violation":
                    rec["observed"] = res["req"]["calls"]
                    rec["msgs"] = res["msgs"] + ([res["hb"]] if res.get("hb") else [])
            out.append(rec)
        k += 1
    return out


def _worker(args: tuple[list[tuple[str, str, bool, bool, str | None]], str]) -> list[dict[str, Any]]:
    import optuna

    optuna.logging.set_verbosity(optuna.logging.ERROR)
    jobs, tmp = args
    out: list[dict[str, Any]] = []
    tmpl = Template(tmp)
    drv = core.Driver("lin")
    try:
        for a_name, b_name, ca, cb, third in jobs:
            try:
                out += _pair(tmpl, tmp, drv, a_name, b_name, ca, cb, third)
            except Exception as e:  # noqa: BLE001
                import traceback

                out.append({"kind": "infra", "a": a_name, "plan": [(b_name, 0)], "why": "%s: %s %s" % (type(e).__name__, e, traceback.format_exc()[-400:])})
    finally:
        drv.close()
    return out


def plan_jobs(chk: core.Check) -> list[tuple[str, str, bool, bool, str | None]]:
    quick = chk.tier == "quick"
    jobs: list[tuple[str, str, bool, bool, str | None]] = []
    r = chk.rng
    for a in A_CALLS:
        bs = list(QUICK_B[a]) if quick else list(B_CALLS)
        if quick:
            rest = [b for b in B_CALLS if b not in bs]
            bs += r.sample(rest, 2)  # and two seeded others
        for b in bs:
            jobs.append((a, b, False, False, None))
    # the same through _CachedStorage (A and B cached): quick = the pairs around finished trials and reads
    cached_pairs = [(a, b) for a in ("complete(t0)", "claim(t2)", "createTrial(tmpl COMPLETE)", "getAllTrials(s0)", "setTrialParam(t0,x:Float)")
                    for b in (QUICK_B[a] if quick else list(B_CALLS))]
    for a, b in cached_pairs:
        jobs.append((a, b, True, True, None))
    if not quick:
        # a third worker at a later event: the decisions that involve three parties
        for a, b, c in [("claim(t2)", "claim(t2)", "getTrial(t2)"), ("complete(t0)", "complete(t1)", "getBestTrial(s0)"),
                        ("createTrial", "createTrial", "getTrialIdFromNumber(s0,4)"), ("setTrialParam(t0,x:Float)", "setTrialParam(t1,x:Int)", "getAllTrials(s0)"),
                        ("getAllTrials(s0)", "complete(t0)", "complete(t1)"), ("createTrial(tmpl COMPLETE)", "getAllTrials(s0)", "getBestTrial(s0)"),
                        ("createStudy(new)", "createStudy(new)", "getAllStudies")]:
            jobs.append((a, b, False, False, c))
    return jobs


def _signature(rec: dict[str, Any]) -> dict[str, Any]:
    sub = rec["sub"]
    backend = "cached" if any(rec["cached"]) else "rdb"
    if sub == "torn-read" and not A_CALLS[rec["a"]]["op"].startswith("get"):
        # the reader is the PLACED call: it ran uninterrupted, so it is not a read assembled from several moments (F16) - the paused
        # WRITER's call has made an intermediate state visible (it committed in the middle)
        sub = "writer-not-atomic"
    if sub in ("torn-read", "param-distribution-race"):
        return {"backend": backend, "base": "sqlite", "kind": sub, "controlled": False}  # the signatures of F16 / F37
    names = [rec["a"]] + [b for b, _ in rec["plan"]]
    return {"backend": backend, "base": "sqlite", "kind": sub, "controlled": True, "a": rec["a"].split("(")[0], "b": rec["plan"][0][0].split("(")[0],
            "delete_study_race": _is_delete_study_family(names)}


def _study_of_call(name: str) -> "int | None":
    """the study a catalogue call acts on: `…(s1…)` -> 1, `…(t4…)` -> 1 (trial 4 lives in s1), other trials and bare createTrial -> 0"""
    import re as _re

    m = _re.search(r"\((s|t)(\d+)", name)
    if m is None:
        return 0 if name.startswith("createTrial") else None
    n = int(m.group(2))
    return n if m.group(1) == "s" else (1 if n == 4 else 0)


def _is_delete_study_family(names: list[str]) -> bool:
    """Known finding F40 is claimed only for its own family: every call of the placement is a WRITER, exactly the calls are
    {delete_study(S)} plus writers acting on the SAME study S (create_new_trial in S, a claim / finish / attribute write of a trial
    of S, a study-attribute write of S, or a second delete_study(S)).  A reader in the placement, a writer on another study, or
    create_new_study are not part of it: such a history stays an unlisted `not-linearizable`."""
    dels = [n for n in names if n.startswith("deleteStudy")]
    if not dels:
        return False
    target = _study_of_call(dels[0])
    for n in names:
        if n.startswith("get") or n.startswith("createStudy"):
            return False
        if _study_of_call(n) != target:
            return False
    return True


def explore(chk: core.Check) -> None:
    import multiprocessing as mp

    t0 = time.time()
    chk.rule = (chk.rule + " || " if chk.rule else "") + RULE_SQL
    jobs = plan_jobs(chk)
    nproc = 10
    chunks = [(jobs[i::nproc], chk.tmp) for i in range(nproc)]
    with mp.get_context("spawn").Pool(nproc) as pool:
        results = pool.map(_worker, [c for c in chunks if c[0]])
    kinds: dict[str, int] = {}
    event_counts: dict[str, int] = {}
    for res in results:
        for rec in res:
            tag = "sql%s" % ("-cached" if any(rec.get("cached", [])) else "")
            if rec["kind"] == "skip":
                chk.count("%s:skipped:%s" % (tag, rec["why"] if not rec["why"].startswith("A has only") else "beyond-last-event"))
                continue
            if rec["kind"] == "infra":
                chk.count("infra:sql")
                chk.extra.setdefault("infra_notes", []).append(rec["why"][:300])
                continue
            if rec["kind"] == "driver":
                chk.broke("correspondence", {"sql": rec["a"], "plan": rec["plan"], "why": rec["why"]})
                continue
            event_counts[rec["a"]] = max(event_counts.get(rec["a"], 0), rec["m"])
            k = rec["plan"][0][1]
            inside = 1 < k <= rec["m"]
            chk.count("%s:placements" % tag)
            if rec.get("placed") and any(p["held"] for p in rec["placed"]):
                chk.count("%s:placements-inside-A's-write-transaction" % tag)
            if rec["kind"] == "ok":
                chk.case({"part": "sql", "a": rec["a"], "plan": rec["plan"], "cached": rec["cached"], "linearization": rec["order"]}, nontrivial=inside)
                chk.count("lin_orders_explored", rec["explored"])
                chk.traces_validated += 1
                continue
            sig = _signature(rec)
            kinds[sig["kind"]] = kinds.get(sig["kind"], 0) + 1
            witness = {"part": "sql", "a": rec["a"], "plan": rec["plan"], "cached": rec["cached"], "events_of_A": rec["events"], "observed": rec["observed"],
                       "messages": rec.get("msgs")}
            evs = rec["events"]
            where = "; ".join("%s before A's event %d of %d (%s)" % (b, kk, rec["m"], evs[kk - 1] if kk - 1 < len(evs) else "?") for b, kk in rec["plan"])
            chk.violation(sig, witness, "%s: %s with %s: no linearization exists (explored %d orders)%s: %s" % (
                sig["backend"], rec["a"], where, rec["explored"],
                "; the writes alone do linearize, so a reader saw a state that never existed" if rec.get("writes_linearize") else "",
                json.dumps(rec["observed"])[:700]))
    chk.extra["sql_placement"] = {"wall_s": round(time.time() - t0, 1), "pairs": len(jobs), "events_per_call_of_A": event_counts, "non_linearizable_by_kind": kinds}
    a = ("sql placement: preemption points are the SQL statements and commits of ONE call (SQLAlchemy engine events); the other worker's call is "
         "complete and in-thread; SQLite only (rollback-journal locking, pysqlite begins a transaction at the first DML); placements that SQLite's "
         "locking forbids are skipped, not judged")
    if a not in chk.assumptions:
        chk.assumptions.append(a)


def replay_case(chk: core.Check, w: dict[str, Any]) -> int:
    import optuna

    optuna.logging.set_verbosity(optuna.logging.ERROR)
    core.ensure_driver()
    tmpl = Template(chk.tmp)
    drv = core.Driver("lin")
    try:
        res = run_one(tmpl, chk.tmp, w["a"], [tuple(p) for p in w["plan"]], w["cached"][0], w["cached"][1])  # type: ignore[misc]
        if "skip" in res:
            print("not reproduced (placement impossible: %s)" % res["skip"])
            return 0
        c = classify(drv, res["req"])
        if c["kind"] == "ok" and res.get("hb"):
            c = {"kind": "violation", "sub": "heartbeat-call: " + res["hb"]}
    finally:
        drv.close()
    if c["kind"] == "violation":
        print("REPRODUCED: no linearization (%s): %s" % (c["sub"], json.dumps(res["req"]["calls"])[:600]))
        return 1
    print("not reproduced")
    return 0
