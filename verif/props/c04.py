"""C04 — a queued trial is handed to exactly one worker, with its fixed parameters.

prove:      Props/C04.lean on Model/Queue.lean (pop loop of any number of workers over the storage contract,
            any interleaving with other calls): claimed_at_most_once, list_complete + no_skip_step,
            claimed_keeps_number_and_attrs, claim_success_record.
correspond / observe: real Study.ask / enqueue_trial / add_trial(WAITING) / tell by 2-4 threads under the
            deterministic line-level scheduler (in-memory, journal with two objects on one log) and
            free-running threads (SQLite, cached SQLite, gRPC proxies).  A recording proxy around the storage
            gives the trace of compare-and-set answers (the model's `claims`); the property is checked
            directly: no trial returned by two ask() calls, no queued trial left behind by an ask() that began
            after it was queued, enqueued values received verbatim from suggest_*, number and user attributes kept.
"""
from __future__ import annotations

import json
import random
import threading
import warnings
from typing import Any

import optuna
from optuna.trial import TrialState, create_trial

from verif import core, fleet, sched

RULE = (
    "0-3 pre-queued trials, then 2-4 threads each running 1-4 actions out of ask(+suggest+tell) / enqueue_trial / "
    "add_trial(WAITING copy with fixed_params) under a seeded line-level schedule of optuna/{storages,study,trial} "
    "(controlled backends) or free-running (SQLite, cached, gRPC); a case = (backend, programs, schedule); "
    "non-trivial = >=2 ask() calls overlapped in time while the queue was non-empty; distinct by SHA-1"
)


def gen_case(r: random.Random) -> dict[str, Any]:
    pre = [{"x": r.choice([0.0, 0.25, 1.0, 0.123456789]), "c": r.choice(["a", "b", None])} for _ in range(r.randint(0, 3))]   # None is a legal (falsy) choice
    for p0 in pre:
        if r.random() < 0.5:
            # stepped parameters: on the grid, and inside the range but OFF the grid (optuna warns and hands it over as is)
            p0["s"] = r.choice([0.25, 0.3, 0.6, 1.0])
            p0["m"] = r.choice([4, 3, 7, 10])
    nth = r.choice([2, 2, 3, 4])
    progs = []
    tag = len(pre)
    for _ in range(nth):
        acts = []
        for _ in range(r.randint(1, 4)):
            k = r.random()
            if k < 0.6:
                acts.append({"a": "ask", "suggest": r.random() < 0.8, "tell": r.random() < 0.7})
            elif k < 0.85:
                p: dict[str, Any] = {"x": r.choice([0.0, 0.5, 1.0, 0.3333333333333333])}
                if r.random() < 0.4:
                    p["s"] = r.choice([0.5, 0.3, 0.9])
                    p["m"] = r.choice([2, 3, 9])
                if r.random() < 0.5:
                    p["c"] = r.choice(["a", "b", None])
                acts.append({"a": "enqueue", "params": p, "tag": tag})
                tag += 1
            else:
                acts.append({"a": "add_waiting", "params": {"x": r.choice([0.0, 0.75]), "c": "b"}, "tag": tag})
                tag += 1
        progs.append(acts)
    return {"pre": pre, "progs": progs}


class Recorder:
    """Proxy around a storage that records the answers of compare-and-set calls."""

    def __init__(self, inner: Any, log: list[Any]) -> None:
        object.__setattr__(self, "_inner", inner)
        object.__setattr__(self, "_log", log)

    def __getattr__(self, name: str) -> Any:
        return getattr(self._inner, name)

    def __setattr__(self, name: str, value: Any) -> None:
        setattr(self._inner, name, value)

    def set_trial_state_values(self, trial_id: int, state: TrialState, values: Any = None) -> bool:
        try:
            ans = self._inner.set_trial_state_values(trial_id, state, values)
        except Exception as e:  # noqa: BLE001
            self._log.append(("cas", trial_id, int(state.value), "raise:" + type(e).__name__))
            raise
        self._log.append(("cas", trial_id, int(state.value), bool(ans)))
        return ans


_TL = threading.local()


def run_case(cfg: str, case: dict[str, Any], seed: int, tmp: str, controlled: bool, schedule: list[int] | None = None, pct: int | None = None) -> dict[str, Any]:
    h = fleet.make(cfg, tmp)
    try:
        storages = [h.storage]
        if h.base.startswith("journal") and h.has_peer():
            storages.append(h.peer())
        caslog: list[Any] = []
        name = "q%d" % seed
        sampler = optuna.samplers.RandomSampler(seed=1)
        if seed % 3 == 0:
            # another study lives in the same storage first: trial ids of the queue's study differ from its trial numbers
            decoy = optuna.create_study(storage=storages[0], study_name=name + "_decoy")
            for _ in range(1 + seed % 4):
                decoy.tell(decoy.ask(), 0.0)
        studies = [optuna.create_study(storage=Recorder(storages[0], caslog), study_name=name, sampler=sampler)]
        for st in storages[1:]:
            studies.append(optuna.load_study(storage=Recorder(st, caslog), study_name=name, sampler=optuna.samplers.RandomSampler(seed=2)))
        for i, p in enumerate(case["pre"]):
            studies[0].enqueue_trial(p, user_attrs={"tag": i})
        nth = len(case["progs"])
        s = sched.Sched(rng=random.Random(seed), schedule=schedule, pct_depth=pct,
                        trace_prefixes=sched.optuna_prefixes("storages/", "study/", "trial/") if controlled else ("/nonexistent/",))
        if controlled:
            from verif.props.c03 import install_locks

            install_locks(s, storages)
            import optuna.storages.journal._file as _jf

            _jf.time = sched.VirtualTime(s)
        clock = [0]
        tick = threading.Lock()

        def now() -> int:
            if controlled:
                return s.clock
            with tick:
                clock[0] += 1
                return clock[0]

        events: list[dict[str, Any]] = []

        def body(th: int) -> Any:
            study = studies[th % len(studies)]

            def f() -> None:
                _TL.i = th
                for act in case["progs"][th]:
                    inv = now()
                    if act["a"] == "ask":
                        t = study.ask()
                        ret = now()
                        ev = {"a": "ask", "th": th, "inv": inv, "ret": ret, "tid": t._trial_id, "number": t.number}
                        if act["suggest"]:
                            ev["x"] = t.suggest_float("x", 0, 1)
                            ev["c"] = t.suggest_categorical("c", ["a", "b", None])
                            ev["n"] = t.suggest_int("n", 0, 5)
                            ev["x2"] = t.suggest_float("x", 0, 1)
                            with warnings.catch_warnings():
                                warnings.simplefilter("ignore")
                                ev["s"] = t.suggest_float("s", 0, 1, step=0.25)
                                ev["m"] = t.suggest_int("m", 0, 10, step=2)
                        ev["user"] = dict(t.user_attrs)
                        events.append(ev)
                        if act["tell"]:
                            study.tell(t, float(th))
                    elif act["a"] == "enqueue":
                        # the caller keeps and re-uses its dicts: what was enqueued must not follow later edits
                        p_in, u_in = dict(act["params"]), {"tag": act["tag"]}
                        study.enqueue_trial(p_in, user_attrs=u_in)
                        p_in["x"] = 0.987654321
                        p_in["c"] = "a" if p_in.get("c") == "b" else "b"
                        u_in["tag"] = -1
                        events.append({"a": "enq", "th": th, "inv": inv, "ret": now(), "tag": act["tag"], "params": act["params"]})
                    else:
                        p_in, u_in = dict(act["params"]), {"tag": act["tag"]}
                        study.add_trial(create_trial(state=TrialState.WAITING, system_attrs={"fixed_params": p_in}, user_attrs=u_in))
                        p_in["x"] = 0.987654321
                        u_in["tag"] = -1
                        events.append({"a": "enq", "th": th, "inv": inv, "ret": now(), "tag": act["tag"], "params": act["params"]})
            return f

        if controlled:
            # journal "processes": thread th works on storage object th % n; the first threads of all processes share one
            # thread ident (forked workers' main threads do), so only the per-object prefix keeps worker ids apart
            with fleet.same_ident_across_processes(lambda: getattr(_TL, "i", None), len(storages)):
                s.run([body(t) for t in range(nth)], timeout=120)
            if s.errors:
                t, e = next(iter(s.errors.items()))
                if isinstance(e, (sched.StepLimit, sched.Deadlock)):
                    return {"infra": str(e)}
                return {"crash": "thread %d raised %s: %s" % (t, type(e).__name__, str(e)[:200]), "trace": s.trace}
            if isinstance(s.aborted, (sched.StepLimit, sched.Deadlock)):
                return {"infra": str(s.aborted)}
        else:
            errs: list[str] = []

            def guard(fn: Any) -> Any:
                def g() -> None:
                    try:
                        fn()
                    except Exception as e:  # noqa: BLE001
                        errs.append("%s: %s" % (type(e).__name__, str(e)[:200]))
                return g

            ths = [threading.Thread(target=guard(body(t))) for t in range(nth)]
            with fleet.same_ident_across_processes(lambda: getattr(_TL, "i", None), len(storages)):
                for t in ths:
                    t.start()
                for t in ths:
                    t.join(120)
            if errs:
                return {"crash": "a worker raised " + errs[0], "trace": []}
        final = studies[0].get_trials(deepcopy=False)
        problems = judge(case, events, final, caslog)
        asks = [e for e in events if e["a"] == "ask"]
        overlap = sum(1 for i, a in enumerate(asks) for b in asks[i + 1:] if a["th"] != b["th"] and a["inv"] < b["ret"] and b["inv"] < a["ret"])
        return {"problems": problems, "trace": s.trace if controlled else [], "events": events, "overlap": overlap,
                "cas": [list(c) for c in caslog][:60]}
    finally:
        h.close()


def judge(case: dict[str, Any], events: list[dict[str, Any]], final: list[Any], caslog: list[Any]) -> list[str]:
    out = []
    asks = [e for e in events if e["a"] == "ask"]
    # (1) exactly one worker per trial
    seen: dict[int, dict[str, Any]] = {}
    for a in asks:
        if a["tid"] in seen:
            out.append("trial id %d (number %d) was returned by two ask() calls (threads %d and %d)" % (a["tid"], a["number"], seen[a["tid"]]["th"], a["th"]))
        seen[a["tid"]] = a
    # the same, on the storage-level trace: at most one True answer to WAITING->RUNNING per trial (no re-queues here)
    wins: dict[int, int] = {}
    for kind, tid, st, ans in caslog:
        if st == 0 and ans is True:
            wins[tid] = wins.get(tid, 0) + 1
    for tid, n in wins.items():
        if n > 1:
            out.append("set_trial_state_values(%d, RUNNING) answered True %d times" % (tid, n))
    by_tag = {t.user_attrs["tag"]: t for t in final if "tag" in t.user_attrs}
    queued: dict[int, dict[str, Any]] = {i: {"params": p, "ret": 0} for i, p in enumerate(case["pre"])}
    for e in events:
        if e["a"] == "enq":
            queued[e["tag"]] = {"params": e["params"], "ret": e["ret"]}
    by_id = {t._trial_id: t for t in final}
    # (2) verbatim parameters, number and user attributes
    for a in asks:
        ft = by_id.get(a["tid"])
        if ft is None:
            out.append("ask() returned trial id %d that the study does not hold" % a["tid"])
            continue
        if ft.number != a["number"]:
            out.append("trial %d: ask() saw number %d, the study holds %d" % (a["tid"], a["number"], ft.number))
        tag = ft.user_attrs.get("tag")
        if tag is not None:
            q = queued.get(tag)
            if q is None:
                out.append("trial with unknown tag %r" % tag)
                continue
            if a["user"].get("tag") != tag:
                out.append("queued trial %d lost its user attributes on the way to the worker: %r" % (ft.number, a["user"]))
            if "x" in a:
                for name in ("x", "c", "s", "m"):
                    if name in q["params"] and a[name] != q["params"][name]:
                        out.append("queued trial %d: worker received %s=%r, enqueued %r" % (ft.number, name, a[name], q["params"][name]))
        if "x" in a:
            if a["x"] != a["x2"]:
                out.append("trial %d: suggest_float('x') returned %r then %r" % (ft.number, a["x"], a["x2"]))
            for name in ("x", "c", "n", "s", "m"):
                if ft.params.get(name) != a[name]:
                    out.append("trial %d: stored %s=%r but the worker received %r" % (ft.number, name, ft.params.get(name), a[name]))
    # (3) none skipped
    for tag, q in queued.items():
        ft = by_tag.get(tag)
        if ft is None:
            out.append("queued trial with tag %r vanished" % tag)
            continue
        if ft.state == TrialState.WAITING:
            for a in asks:
                fa = by_id.get(a["tid"])
                if fa is not None and "tag" not in fa.user_attrs and a["inv"] > q["ret"]:
                    out.append("ask() of thread %d (began at %d) created a new trial although trial %d had been queued since %d and is still WAITING" % (
                        a["th"], a["inv"], ft.number, q["ret"]))
                    break
    return out


def _worker(args: tuple[str, list[tuple[int, dict[str, Any], int | None]], str, bool]) -> list[dict[str, Any]]:
    cfg, cases, tmp, controlled = args
    out = []
    for seed, case, pct in cases:
        try:
            res = run_case(cfg, case, seed, tmp, controlled, pct=pct)
        except Exception as e:  # noqa: BLE001
            import traceback
            out.append({"seed": seed, "kind": "infra", "why": "%s: %s %s" % (type(e).__name__, e, traceback.format_exc()[-300:])})
            continue
        rec: dict[str, Any] = {"seed": seed, "case": case, "pct": pct, "trace": res.get("trace", []), "overlap": res.get("overlap", 0)}
        if "infra" in res:
            rec.update(kind="infra", why=res["infra"])
        elif "crash" in res:
            rec.update(kind="violation", why=res["crash"])
        elif res["problems"]:
            rec.update(kind="violation", why="; ".join(res["problems"][:3]), events=res["events"], cas=res["cas"])
        else:
            rec.update(kind="ok", n_events=len(res["events"]), cas=res["cas"][:8])
        out.append(rec)
    return out


def explore(chk: core.Check, cfgs: list[str], n: int, controlled: bool, tag: str = "") -> None:
    import multiprocessing as mp

    jobs = []
    for ci, cfg in enumerate(cfgs):
        cases = []
        for i in range(n):
            seed = chk.seed * 1000003 + ci * 7919 + i + (0 if controlled else 500000)
            r = random.Random(seed)
            cases.append((seed, gen_case(r), r.choice([None, None, 2, 3])))
        k = 4 if controlled else 2
        for j in range(k):
            jobs.append((cfg, cases[j::k], chk.tmp, controlled))
    with mp.get_context("spawn").Pool(min(len(jobs), 12)) as pool:
        results = pool.map(_worker, jobs)
    for (cfg, _, _, _), res in zip(jobs, results):
        for rec in res:
            if rec["kind"] == "ok":
                chk.case({"cfg": cfg, "programs": rec["case"]["progs"], "pre_queued": len(rec["case"]["pre"]), "schedule_len": len(rec["trace"]),
                          "cas_trace": rec["cas"]}, nontrivial=rec["overlap"] >= 1)
                chk.count("cases%s:%s" % (tag, cfg))
                chk.traces_validated += 1
            elif rec["kind"] == "violation":
                chk.violation({"backend": cfg, "kind": "queue", "controlled": controlled},
                              {"backend": cfg, "case": rec["case"], "seed": rec["seed"], "pct": rec["pct"], "schedule": rec["trace"], "controlled": controlled,
                               "events": rec.get("events"), "cas": rec.get("cas")}, "%s: %s" % (cfg, rec["why"]))
            else:
                chk.count("infra:" + cfg)
                chk.extra.setdefault("infra_notes", []).append(rec["why"][:200])


def race_burst(chk: core.Check, cfgs: list[str], rounds: int) -> None:
    """Many threads claim one WAITING trial at the same instant (barrier), many times: exactly one True."""
    from optuna.study import StudyDirection

    for cfg in cfgs:
        h = fleet.make(cfg, chk.tmp)
        try:
            st = h.storage
            sid = st.create_new_study([StudyDirection.MINIMIZE], "burst")
            bad = None
            for rnd in range(rounds):
                tid = st.create_new_trial(sid, create_trial(state=TrialState.WAITING, system_attrs={"fixed_params": {"x": 0.5}}))
                n = 4
                bar = threading.Barrier(n)
                res: list[Any] = []

                def claim() -> None:
                    bar.wait()
                    try:
                        res.append(bool(st.set_trial_state_values(tid, TrialState.RUNNING)))
                    except Exception as e:  # noqa: BLE001
                        res.append("raise:" + type(e).__name__)

                ths = [threading.Thread(target=claim) for _ in range(n)]
                for t in ths:
                    t.start()
                for t in ths:
                    t.join(60)
                chk.case({"part": "burst", "cfg": cfg, "round": rnd, "answers": sorted(map(str, res))}, nontrivial=True)
                if res.count(True) != 1 or any(isinstance(x, str) for x in res):
                    bad = (rnd, res)
                    break
            chk.count("burst:" + cfg, rounds if bad is None else bad[0] + 1)
            if bad is not None:
                chk.violation({"backend": cfg, "kind": "queue", "controlled": False},
                              {"backend": cfg, "burst_round": bad[0], "answers": [str(x) for x in bad[1]]},
                              "%s: 4 threads claimed one WAITING trial at once and the answers were %s (exactly one True expected)" % (cfg, bad[1]))
        finally:
            h.close()


def cursor_correspondence(chk: core.Check, n_cases: int) -> None:
    """InMemoryStorage's WAITING shortcut vs the Lean cursor model (Model/InMemoryCursor.lean) and vs the plain filter."""
    from optuna.storages import InMemoryStorage
    from optuna.study import StudyDirection

    core.ensure_driver()
    drv = core.Driver("cursor")
    r = chk.rng
    try:
        for case in range(n_cases):
            drv.ask({"op": "reset"})
            st = InMemoryStorage()
            sid = st.create_new_study([StudyDirection.MINIMIZE], "cur%d" % case)
            tids: list[int] = []
            ops = []
            for _ in range(r.randint(3, 25)):
                k = r.random()
                if k < 0.4 or not tids:
                    state = r.choice([0, 4, 4, 1, 3])
                    tmpl = None if state == 0 else create_trial(state=TrialState(state), value=1.0 if state == 1 else None)
                    tids.append(st.create_new_trial(sid, tmpl))
                    m = drv.ask({"op": "create", "st": state})
                    ops.append(["create", state])
                elif k < 0.75:
                    n = r.randrange(len(tids))
                    state = r.choice([0, 4, 4, 1, 3])
                    try:
                        st.set_trial_state_values(tids[n], TrialState(state), [1.0] if state == 1 else None)
                    except Exception:  # noqa: BLE001 - finished trial: the model ignores it too
                        pass
                    m = drv.ask({"op": "set", "n": n, "st": state})
                    ops.append(["set", n, state])
                else:
                    got = [t.number for t in st.get_all_trials(sid, deepcopy=False, states=(TrialState.WAITING,))]
                    plain = [t.number for t in st.get_all_trials(sid, deepcopy=False) if t.state == TrialState.WAITING]
                    m = drv.ask({"op": "get"})
                    ops.append(["get"])
                    if got != plain:
                        chk.violation({"backend": "mem", "kind": "waiting-filter"}, {"ops": ops},
                                      "InMemoryStorage.get_all_trials(states=(WAITING,)) returned %s but the WAITING trials are %s" % (got, plain))
                        return
                    if m.get("waiting") != got:
                        chk.broke("correspondence", {"cursor-model": m, "impl": got, "ops": ops})
                        return
                cur = getattr(st, "_prev_waiting_trial_number", None)
                if isinstance(cur, dict) and sid in cur and "cursor" in m and cur[sid] != m["cursor"]:
                    chk.broke("correspondence", {"cursor-model": m["cursor"], "impl_cursor": cur[sid], "ops": ops})
                    return
            chk.case({"part": "cursor", "ops": ops}, nontrivial=any(o[0] == "set" and o[2] == 4 for o in ops))
            chk.count("cursor-cases")
    finally:
        drv.close()


def search(chk: core.Check) -> None:
    chk.search_log.append("searching more schedules for a doubly claimed or skipped queued trial")
    explore(chk, ["mem", "journal-symlink"], 400, True, tag="-search")


def main(chk: core.Check) -> int:
    chk.rule = RULE
    from verif.props import c02_gen, c04_enqueue_gen
    c02_gen.regenerate(chk, c02_gen.C04_FUNCS)   # T-tell: Study._pop_waiting_trial_id as statement IR (Generated/TellMethods.lean)
    c04_enqueue_gen.regenerate(chk)   # T-enqueue: enqueue_trial / _should_skip_enqueue / add_trial(s) / queue part of ask / Trial.__init__ (Generated/EnqueueMethods.lean)
    if not getattr(chk, "no_prove", False):
        chk.prove(["OptunaVerif.Props.C04", c02_gen.MODULE_C04, c04_enqueue_gen.MODULE, "OptunaVerif.Props.C04Run"])
        c02_gen.explain_proof_failure(chk, c02_gen.MODULE_C04)
        c04_enqueue_gen.explain_proof_failure(chk)
    quick = chk.tier == "quick"
    explore(chk, ["mem", "journal-symlink", "journal-open"], 120 if quick else 2500, True)
    explore(chk, ["rdb", "cached", "grpc(mem)", "grpc(rdb)", "grpc(journal)"], 16 if quick else 400, False, tag="-free")
    race_burst(chk, ["rdb", "cached", "mem", "journal-symlink", "grpc(rdb)"], 150 if quick else 3000)
    try:
        cursor_correspondence(chk, 300 if quick else 6000)
    except core.DriverBroken as e:
        chk.broke("correspondence", {"driver": str(e)[:600]})
    try:
        c04_enqueue_gen.k_stage(chk)   # real enqueue / add_trial / ask / suggest on in-memory + SQLite vs generated interpreter vs hand model
    except core.DriverBroken as e:
        chk.broke("correspondence", {"driver": str(e)[:600]})
    chk.assumptions += ["fairness of the OS scheduler is not modelled: 'none is skipped' is checked as stated in DESIGN (an ask() that began after a trial was queued never creates a new trial while that one stays WAITING)",
                        "preemption points are source lines of optuna/{storages,study,trial}",
                        "suggest precedence (fixed params win) is proved in C10's model; here it is observed on the implementation"]
    return chk.finish(search=search)


def replay(chk: core.Check, path: str) -> int:
    w = json.load(open(path))["witness"]
    res = run_case(w["backend"], w["case"], w["seed"], chk.tmp, w.get("controlled", True), schedule=w.get("schedule") or None, pct=w.get("pct"))
    if res.get("problems") or "crash" in res:
        print("REPRODUCED: %s" % (res.get("problems") or res.get("crash")))
        return 1
    print("not reproduced")
    return 0
