"""C04, translator tie T-enqueue: how a trial gets INTO the queue and how its fixed parameters come out again, as written in
the source today (Study.enqueue_trial, Study._should_skip_enqueue, Study.add_trial, Study.add_trials, the queue part of
Study.ask - optuna/study/study.py; the last line of Trial.__init__ - optuna/trial/_trial.py) -> Lean data
(Generated/EnqueueMethods.lean) -> proved equal to the hand models of Model/Queue.lean (Props/C04EnqueueGen.lean), which also
restates the property end to end over the small-step system of Model/QueueIR.lean (generated enqueue + generated pop loop +
generated Trial.__init__ + T-suggest's gen_fixed_value_handed_over).

regenerate(chk)            run verif/translators/tenqueue.py on core.REPO, write lean/OptunaVerif/Generated/EnqueueMethods.lean
                           (only when the text changed); an untranslatable source is chk.broke("translation").
                           Call it BEFORE chk.prove([..., MODULE]).
MODULE                     "OptunaVerif.Props.C04EnqueueGen"
explain_proof_failure(chk) after a failed chk.prove: the NAMED declarations of Props/C04EnqueueGen.lean that no longer check.
k_stage(chk)               random programs of enqueue_trial / add_trial / add_trials / ask + suggest + tell on the REAL code
                           (in-memory and SQLite) against the driver `enqueuegen` (hand model and interpreter of the generated
                           data side by side, field "gen" must be null): whether a trial was added, the stored template (state,
                           number, system attrs, user attrs), which trial ask returns and whether it created one, the
                           _fixed_params the Trial object read, what suggest returns.
                           A disagreement between the real code and the model is chk.broke("correspondence"); a chk.violation is
                           reported only when the property itself fails on the real code (rules P1-P5 below).
"""
from __future__ import annotations

import copy
import json
import math
import os
import random
import re
import warnings
from typing import Any

from verif import core
from verif.translators import tenqueue

OUT = os.path.join(core.LEAN_DIR, tenqueue.OUT_REL)
MODULE = "OptunaVerif.Props.C04EnqueueGen"
DRIVER = "enqueuegen"

ASSUMPTION = ("T-enqueue: the record IR's fields mean what the hand models of Model/Queue.lean mean by them (create_trial builds the "
              "template it is given the fields of; trial._validate() is an input; get_trials(deepcopy=False) is an input of "
              "_should_skip_enqueue; np.isclose(a, b, atol=0) is |a-b| <= 1e-5*|b| over exact numbers, equal infinities close, NaN never; "
              "the stored form of a parameter dict is an opaque text with dec(enc p) = p); Study.ask's statements outside the queue part "
              "(heartbeat warning, normalisation of fixed_distributions, cache reset) are skipped as no-ops of the queue; what suggest returns for an "
              "INFINITE enqueued value is observed on the real code only (internal representations are rationals in C10's model of suggest)")

RULES = {
    "P1": "an enqueued trial reaches the worker with its number, its user attributes and its parameters: the ask() that pops it gets "
          "_fixed_params == the enqueued dict, and suggest of an enqueued name returns the enqueued value",
    "P2": "none is skipped: an ask() while a WAITING trial exists returns a WAITING trial (the oldest), it does not create a new one",
    "P3": "no trial is handed out twice",
    "P4": "skip_if_exists: with the flag off, or when no existing trial has the same key set, enqueue_trial adds a trial; with the flag "
          "on and an existing trial with the IDENTICAL dict (same keys, same types, == or both NaN), it adds nothing",
    "P5": "what enqueue_trial / add_trial store is a copy: later changes of the caller's dicts do not reach the queued trial",
}


def regenerate(chk: core.Check | None = None) -> dict[str, Any] | None:
    try:
        text, info = tenqueue.translate(core.REPO)
    except (tenqueue.Untranslatable, SyntaxError, OSError, IndexError, AttributeError, KeyError, StopIteration) as e:
        if chk is None:
            raise
        chk.broke("translation", {"translator": "T-enqueue", "sources": [tenqueue.STUDY_REL, tenqueue.TRIAL_REL], "why": ("%s: %s" % (type(e).__name__, e))[:600]})
        return None
    changed = core.write_if_changed(OUT, text)
    if chk is not None:
        chk.translated.append("T-enqueue: Study.enqueue_trial/_should_skip_enqueue/add_trial/add_trials/ask (queue part), Trial.__init__ "
                              "(_fixed_params) -> lean/OptunaVerif/Generated/EnqueueMethods.lean%s" % (" (file changed)" if changed else ""))
        chk.extra["enqueue_ir"] = {"sha1_of_sources": info["sha1_of_sources"], "fields": info["fields"]}
        if ASSUMPTION not in chk.assumptions:
            chk.assumptions.append(ASSUMPTION)
    return info


def explain_proof_failure(chk: core.Check) -> list[str]:
    pr = chk.proof
    if pr is None or pr.ok:
        return []
    rel = MODULE.replace(".", "/") + ".lean"
    short = rel.split("OptunaVerif/", 1)[1]
    lines = sorted({int(m.group(1)) for m in re.finditer(re.escape(short) + r":(\d+):\d+: error", pr.build_log)}
                   | {int(m.group(1)) for m in re.finditer(r"error: \S*" + re.escape(short) + r":(\d+):", pr.build_log)})
    names: list[str] = []
    if lines:
        src = open(os.path.join(core.LEAN_DIR, rel)).read().splitlines()
        for ln in lines:
            for i in range(min(ln, len(src)) - 1, -1, -1):
                m = re.match(r"\s*(?:theorem|def|example)\b\s*([^\s:(]*)", src[i])
                if m:
                    name = m.group(1) or ("example at %s:%d: %s" % (short, i + 1, src[i].strip()[:90]))
                    if name not in names:
                        names.append(name)
                    break
    if names:
        chk.extra["c04enqueuegen_failed"] = names
        chk.broke("proof", {"module": MODULE, "generated_method_no_longer_equal_hand_model": names})
    return names


# ---- encodings -------------------------------------------------------------------------------------------------------------
def _K() -> Any:
    from verif import dist_k
    return dist_k


def tok_pairs(d: dict[str, Any]) -> list[Any]:
    K = _K()
    return [[k, K.tok(v)] for k, v in d.items()]


def payload_of(d: dict[str, Any]) -> str:
    """the opaque text standing for the stored form of a dict (injective on the dicts the generator produces)"""
    return repr([(k, type(v).__name__, repr(v)) for k, v in d.items()])


def is_param_dict(d: Any) -> bool:
    return isinstance(d, dict) and all(isinstance(k, str) and (v is None or isinstance(v, (bool, int, float, str))) for k, v in d.items())


def view_of(t: Any) -> dict[str, Any]:
    sys = []
    fp = t.system_attrs.get("fixed_params")
    if is_param_dict(fp):
        sys.append(["fixed_params", tok_pairs(fp)])
    return {"sys": sys, "params": tok_pairs(t.params)}


def identical(a: dict[str, Any], b: dict[str, Any]) -> bool:
    """same keys, same types, == or both NaN: the uncontroversial core of 'the same parameters'"""
    if a.keys() != b.keys():
        return False
    for k in a:
        x, y = a[k], b[k]
        if type(x) is not type(y):
            return False
        if isinstance(x, float) and math.isnan(x) and math.isnan(y):
            continue
        if x != y:
            return False
    return True


# ---- programs --------------------------------------------------------------------------------------------------------------
FLOATS = [1.0, 1.0 + 2.0 ** -24, 1.0 + 2.0 ** -10, 2.0, 0.0, 2.0 ** -30, -1.5, float("nan"), float("inf"), float("-inf"), 0.5, 3.0]
OTHERS = [1, 2, 0, True, False, "a", "b", None, 10 ** 6]
NAMES = ["x", "y", "c", "n"]


def gen_params(r: random.Random, pool: list[dict[str, Any]]) -> dict[str, Any]:
    p = _gen_params(r, pool)
    # an infinite value enqueued for an INT parameter is stored by the RDB storage and makes every later read of the trial raise
    # OverflowError (int(inf) in to_external_repr) - a matter of C10/C01, kept out of these programs
    if isinstance(p.get("n"), float) and math.isinf(p["n"]):
        p["n"] = 2
    return p


def _gen_params(r: random.Random, pool: list[dict[str, Any]]) -> dict[str, Any]:
    if pool and r.random() < 0.55:
        base = dict(r.choice(pool))
        m = r.random()
        if m < 0.35:
            return base                      # an exact repeat
        if m < 0.7 and base:
            k = r.choice(list(base))
            base[k] = r.choice(FLOATS + OTHERS)
            return base
        if m < 0.85 and base:
            items = list(base.items())
            r.shuffle(items)                 # the same dict in another insertion order
            return dict(items)
        base[r.choice(NAMES)] = r.choice(FLOATS)
        return base
    names = r.sample(NAMES, r.randint(0, 3))
    return {n: (r.choice(FLOATS) if r.random() < 0.6 else r.choice(OTHERS)) for n in names}


def gen_program(r: random.Random) -> list[dict[str, Any]]:
    pool: list[dict[str, Any]] = []
    prog: list[dict[str, Any]] = []
    for _ in range(r.randint(3, 9)):
        m = r.random()
        if m < 0.45:
            p = gen_params(r, pool)
            pool.append(p)
            ua = None if r.random() < 0.4 else {"k%d" % r.randint(0, 2): r.choice([1, "v", [1, 2], None, 2.5])}
            prog.append({"do": "enqueue", "params": p, "ua": ua, "skip": r.random() < 0.6, "mutate": r.random() < 0.5})
        elif m < 0.5:
            prog.append({"do": "enqueue_bad", "params": r.choice([[("x", 1.0)], None, "x", 3])})
        elif m < 0.6:
            p = gen_params(r, pool)
            pool.append(p)
            prog.append({"do": "add_waiting", "params": p, "ua": {"w": 1}, "many": r.random() < 0.4})
        elif m < 0.68:
            p = {n: r.choice([0.5, 1.0, 2.0, 3.0]) for n in r.sample(["x", "y"], r.randint(1, 2))}
            pool.append(p)
            prog.append({"do": "add_complete", "params": p, "value": float(r.randint(0, 5))})
        elif m < 0.73:
            prog.append({"do": r.choice(["add_invalid", "add_wrong_nvalues"])})
        else:
            prog.append({"do": "ask", "suggest": r.sample(NAMES, r.randint(0, 4)), "via_fixed_distributions": r.random() < 0.25,
                         "value": float(r.randint(0, 5))})
    prog.append({"do": "ask", "suggest": list(NAMES), "via_fixed_distributions": False, "value": 1.0})
    return prog


def dist_for(name: str, v: Any = None) -> Any:
    """the distribution `name` is always suggested with (one per name: the storage refuses another kind for a known name)"""
    import optuna.distributions as OD
    if name == "c":
        return OD.CategoricalDistribution(["a", "b", None, 1, 2.0, True])
    if name == "n":
        return OD.IntDistribution(-3, 3)
    return OD.FloatDistribution(-4.0, 4.0) if name == "x" else OD.FloatDistribution(-2.0, 2.5, step=0.5)


def state_code(st: Any) -> int:
    return int(st.value) if hasattr(st, "value") else int(st)


def frozen_of(study: Any, number: int) -> Any:
    for t in study.get_trials(deepcopy=True):
        if t.number == number:
            return t
    return None


def template_json(t: Any) -> dict[str, Any]:
    """a FrozenTrial as the `storage` driver's template (parameters: internal representation as text)"""
    params = []
    for k, v in t.params.items():
        d = t.distributions[k]
        params.append([k, {"internal": repr(d.to_internal_repr(v)), "kind": 0, "log": False, "body": type(d).__name__}])
    vals = None
    if t.values is not None:
        vals = []
        for v in t.values:
            v = float(v)
            vals.append("nan" if v != v else "inf" if v == math.inf else "-inf" if v == -math.inf else _K().rs(_K().fbin(v)))
    return {"state": state_code(t.state), "values": vals, "params": params,
            "user": [[k, json.dumps(v)] for k, v in t.user_attrs.items()],
            "system": [[k, payload_of(v) if is_param_dict(v) else json.dumps(v)] for k, v in t.system_attrs.items()],
            "inter": [], "start": t.datetime_start is not None, "complete": t.datetime_complete is not None}


def run_real(storage: Any, prog: list[dict[str, Any]]) -> tuple[list[dict[str, Any]], list[dict[str, Any]]]:
    """run the program on the real code; returns the observations and the driver requests (same length + 1 for reset)"""
    import optuna
    from optuna.trial import TrialState, create_trial
    import optuna.distributions as OD

    K = _K()
    study = optuna.create_study(storage=storage, sampler=optuna.samplers.RandomSampler(seed=1))
    obs: list[dict[str, Any]] = []
    reqs: list[dict[str, Any]] = [{"op": "reset", "dirs": [1]}]
    handed: list[int] = []
    enq: dict[int, tuple[dict[str, Any], dict[str, Any]]] = {}   # trial number -> (params, user attrs) as ENQUEUED by the program

    def emit(o: dict[str, Any], q: dict[str, Any]) -> None:
        obs.append(o)
        reqs.append(q)

    for step in prog:
        before = study.get_trials(deepcopy=True)
        views = [view_of(t) for t in before]
        do = step["do"]
        o: dict[str, Any] = {"step": step, "n_before": len(before), "existing": [copy.deepcopy(t.system_attrs.get("fixed_params", t.params)) for t in before]}
        if do in ("enqueue", "enqueue_bad"):
            params = copy.deepcopy(step["params"])
            ua = copy.deepcopy(step.get("ua"))
            try:
                with warnings.catch_warnings():
                    warnings.simplefilter("ignore")
                    study.enqueue_trial(params, user_attrs=ua, skip_if_exists=step.get("skip", False))
                o["exc"] = None
            except Exception as e:  # noqa: BLE001
                o["exc"] = type(e).__name__
            if do == "enqueue" and step.get("mutate"):
                # the caller goes on using its dicts
                for k in list(params):
                    params[k] = "changed-by-caller"
                params["zz"] = 1
                if ua is not None:
                    ua["zz"] = "changed-by-caller"
            after = study.get_trials(deepcopy=True)
            o["n_after"] = len(after)
            if len(after) == len(before) + 1:
                t = after[-1]
                o["new"] = {"number": t.number, "state": state_code(t.state), "system": copy.deepcopy(t.system_attrs), "user": copy.deepcopy(t.user_attrs),
                            "params": dict(t.params), "values": t.values}
                if do == "enqueue":
                    enq[t.number] = (copy.deepcopy(step["params"]), copy.deepcopy(step.get("ua") or {}))
            isd = isinstance(step["params"], dict)
            emit(o, {"op": "enqueue", "isDict": isd, "params": tok_pairs(step["params"]) if isd else [], "payload": payload_of(step["params"]) if isd else "",
                     "ua": [[k, json.dumps(v)] for k, v in (step.get("ua") or {}).items()], "skip": bool(step.get("skip", False)), "views": views, "valid": True})
        elif do in ("add_waiting", "add_complete", "add_invalid", "add_wrong_nvalues"):
            if do == "add_waiting":
                ft = create_trial(state=TrialState.WAITING, system_attrs={"fixed_params": copy.deepcopy(step["params"])}, user_attrs=copy.deepcopy(step["ua"]))
            elif do == "add_complete":
                ft = create_trial(params=dict(step["params"]), distributions={k: OD.FloatDistribution(-4.0, 4.0) for k in step["params"]}, value=step["value"])
            elif do == "add_invalid":
                ft = create_trial(value=1.0)
                ft.values = None          # COMPLETE without a value: _validate() raises
            else:
                ft = create_trial(values=[1.0, 2.0])
            valid = True
            try:
                copy.deepcopy(ft)._validate()
            except ValueError:
                valid = False
            tj = template_json(ft)
            try:
                if step.get("many"):
                    study.add_trials([ft])
                else:
                    study.add_trial(ft)
                o["exc"] = None
            except Exception as e:  # noqa: BLE001
                o["exc"] = type(e).__name__
            after = study.get_trials(deepcopy=True)
            o["n_after"] = len(after)
            if len(after) == len(before) + 1:
                t = after[-1]
                o["new"] = {"number": t.number, "state": state_code(t.state), "system": copy.deepcopy(t.system_attrs), "user": copy.deepcopy(t.user_attrs),
                            "params": dict(t.params), "values": t.values}
                if do == "add_waiting":
                    enq[t.number] = (copy.deepcopy(step["params"]), copy.deepcopy(step["ua"]))
            q = {"op": "addTrial", "tmpl": tj, "valid": valid}
            if do == "add_waiting":
                q["fixed"] = tok_pairs(step["params"])
            emit(o, q)
        elif do == "ask":
            waiting = [t for t in before if t.state == TrialState.WAITING]
            o["waiting_numbers"] = [t.number for t in waiting]
            o["stored_fixed"] = copy.deepcopy(waiting[0].system_attrs.get("fixed_params", {})) if waiting else {}
            o["stored_user"] = copy.deepcopy(waiting[0].user_attrs) if waiting else {}
            if waiting and waiting[0].number in enq:
                exp_fixed, exp_user = copy.deepcopy(enq[waiting[0].number])
            else:
                exp_fixed, exp_user = o["stored_fixed"], o["stored_user"]
            o["expected_fixed"] = exp_fixed
            o["expected_user"] = exp_user
            names = list(step["suggest"])
            dists = {n: dist_for(n, exp_fixed.get(n) if isinstance(exp_fixed, dict) else None) for n in names}
            fd = dists if step.get("via_fixed_distributions") else None
            try:
                with warnings.catch_warnings():
                    warnings.simplefilter("ignore")
                    trial = study.ask(fixed_distributions=fd)
                o["exc"] = None
            except Exception as e:  # noqa: BLE001
                o["exc"] = type(e).__name__
                trial = None
            after = study.get_trials(deepcopy=True)
            o["n_after"] = len(after)
            emit(o, {"op": "ask"})
            if trial is None:
                failed_before = {t.number for t in before if t.state == TrialState.FAIL}
                o["newly_failed"] = [t.number for t in after if t.state == TrialState.FAIL and t.number not in failed_before]
                o["left_running"] = [t.number for t in after if t.state == TrialState.RUNNING]
                for nb in o["newly_failed"]:
                    handed.append(nb)
                    emit({"fail_of_ask": True, "number": nb}, {"op": "ext", "call": {"op": "setTrialStateValues", "tid": nb, "state": 3, "values": None}})
                continue
            o["number"] = trial.number
            o["twice"] = trial.number in handed
            handed.append(trial.number)
            ft = frozen_of(study, trial.number)
            o["state"] = state_code(ft.state)
            o["user"] = copy.deepcopy(ft.user_attrs)
            o["system"] = copy.deepcopy(ft.system_attrs)
            o["fixed_params"] = copy.deepcopy(getattr(trial, "_fixed_params", None))
            o["params_after_ask"] = dict(ft.params)
            sug: list[dict[str, Any]] = []
            for n in names:
                d = dists[n]
                so: dict[str, Any] = {"name": n, "dist": K.mdist(d), "enqueued": n in exp_fixed if isinstance(exp_fixed, dict) else False}
                try:
                    with warnings.catch_warnings():
                        warnings.simplefilter("ignore")
                        so["value"] = trial._suggest(n, d)
                    so["exc"] = None
                except Exception as e:  # noqa: BLE001
                    so["exc"] = type(e).__name__
                sug.append(so)
                # model: `_suggest` of a trial with the `_fixed_params` ask read (tid filled in later from the model's own answer)
                emit({"so": so, "number": trial.number}, {"op": "suggest", "tid": trial.number, "name": n, "d": K.mdist(d), "indep": None})
            o["suggested"] = sug
            try:
                study.tell(trial, step["value"])
                o["tell_exc"] = None
            except Exception as e:  # noqa: BLE001
                o["tell_exc"] = type(e).__name__
            emit({"tell_exc": o["tell_exc"], "number": trial.number},
                 {"op": "ext", "call": {"op": "setTrialStateValues", "tid": trial.number, "state": 1, "values": [K.rs(K.fbin(step["value"]))]}})
    return obs, reqs


def k_stage(chk: core.Check, n_mem: int | None = None, n_sql: int | None = None) -> None:
    import optuna

    quick = chk.tier == "quick"
    n_mem = n_mem if n_mem is not None else (60 if quick else 1500)
    n_sql = n_sql if n_sql is not None else (6 if quick else 80)
    r = random.Random(chk.seed * 7919 + 404)
    optuna.logging.set_verbosity(optuna.logging.ERROR)
    jobs = [("mem", i) for i in range(n_mem)] + [("sqlite", i) for i in range(n_sql)]
    for backend, i in jobs:
        prog = gen_program(r)
        if i == 0:
            prog = witness_program() + prog
        if backend == "mem":
            storage: Any = optuna.storages.InMemoryStorage()
        else:
            path = os.path.join(chk.tmp, "c04eg_%d_%d.db" % (chk.seed, i))
            if os.path.exists(path):
                os.remove(path)
            storage = optuna.storages.RDBStorage("sqlite:///" + path)
        try:
            obs, reqs = run_real(storage, prog)
        except Exception as e:  # noqa: BLE001
            chk.broke("correspondence", {"stage": "enqueuegen", "backend": backend, "program": prog, "what": "harness could not run the program: %s: %s" % (type(e).__name__, str(e)[:300])})
            continue
        finally:
            if backend == "sqlite":
                try:
                    storage.remove_session()
                    storage.engine.dispose()
                except Exception:  # noqa: BLE001
                    pass
        judge_real(chk, backend, prog, obs)
        try:
            compare_model(chk, backend, prog, obs, reqs)
        except core.DriverBroken as e:
            chk.broke("correspondence", {"stage": "enqueuegen", "driver": str(e)[:600]})
            return
    static_stage(chk)


def witness_program() -> list[dict[str, Any]]:
    """the corner cases of skip_if_exists the theorem `gen_skip_if_exists_spec` is exact about"""
    nan = float("nan")
    return [
        {"do": "enqueue", "params": {"x": 1.0}, "ua": {"k0": "v"}, "skip": True, "mutate": True},
        {"do": "enqueue", "params": {"x": nan}, "ua": None, "skip": True, "mutate": False},          # as written: skipped (NaN repeats any number)
        {"do": "enqueue", "params": {"x": 1.0 + 2.0 ** -24}, "ua": None, "skip": True, "mutate": False},  # close: skipped
        {"do": "enqueue", "params": {"x": 1.0 + 2.0 ** -10}, "ua": None, "skip": True, "mutate": False},  # not close (rtol 1e-5): added
        {"do": "enqueue", "params": {"x": 1}, "ua": None, "skip": True, "mutate": False},            # int is not a float: added
        {"do": "enqueue", "params": {"x": True}, "ua": None, "skip": True, "mutate": False},         # bool is an int: skipped against 1
        {"do": "enqueue", "params": {"x": 1.0}, "ua": None, "skip": True, "mutate": False},          # identical: skipped (P4)
        {"do": "enqueue", "params": {"x": 1.0}, "ua": None, "skip": False, "mutate": False},         # flag off: added (P4)
        {"do": "enqueue", "params": {"y": nan}, "ua": None, "skip": True, "mutate": False},
        {"do": "enqueue", "params": {"y": nan}, "ua": None, "skip": True, "mutate": False},          # NaN repeats NaN: skipped (P4)
        {"do": "ask", "suggest": ["x"], "via_fixed_distributions": True, "value": 0.0},
        {"do": "ask", "suggest": ["x", "y"], "via_fixed_distributions": False, "value": 0.0},
    ]


def same_value(a: Any, b: Any) -> bool:
    K = _K()
    try:
        return K.tok(a) == K.tok(b)
    except TypeError:
        return a == b


def same_dict(a: Any, b: Any) -> bool:
    return isinstance(a, dict) and isinstance(b, dict) and a.keys() == b.keys() and all(same_value(a[k], b[k]) for k in a)


def judge_real(chk: core.Check, backend: str, prog: list[dict[str, Any]], obs: list[dict[str, Any]]) -> None:
    """the property itself, on the real code alone"""
    def viol(rule: str, what: str, o: dict[str, Any]) -> None:
        w = {"backend": backend, "program": prog, "at": {k: v for k, v in o.items() if k not in ("suggested",)}, "rule": RULES[rule]}
        chk.violation({"stage": "enqueuegen", "rule": rule, "backend_class": "mem" if backend == "mem" else "rdb"}, w,
                      "C04 (%s) fails on %s: %s" % (rule, backend, what))

    for o in obs:
        if "step" not in o:
            continue
        step = o["step"]
        do = step["do"]
        if do == "enqueue" and o.get("exc") is None:
            chk.count("enqueuegen:real-enqueue")
            added = o["n_after"] == o["n_before"] + 1
            p = step["params"]
            same_keys = any(isinstance(e, dict) and e.keys() == p.keys() for e in o["existing"])
            ident = any(isinstance(e, dict) and identical(e, p) for e in o["existing"])
            if (not step["skip"] or not same_keys) and not added:
                viol("P4", "enqueue_trial(%r, skip_if_exists=%s) added nothing although %s" % (p, step["skip"], "the flag is off" if not step["skip"] else "no existing trial has these keys"), o)
            if step["skip"] and ident and added:
                viol("P4", "enqueue_trial(%r, skip_if_exists=True) added a trial although an existing trial has the identical parameters" % (p,), o)
            if added:
                new = o["new"]
                if new["state"] != 4:
                    viol("P1", "the enqueued trial is not WAITING (state code %s)" % new["state"], o)
        if do == "ask" and o.get("exc") is None:
            chk.count("enqueuegen:real-ask")
            if o["twice"]:
                viol("P3", "ask() returned trial number %s a second time" % o["number"], o)
            if o["waiting_numbers"]:
                if o["number"] not in o["waiting_numbers"]:
                    viol("P2", "ask() returned trial %s while the WAITING trials %s exist" % (o["number"], o["waiting_numbers"]), o)
                    continue
                if o["number"] != o["waiting_numbers"][0]:
                    continue    # a later queued trial was taken: reported by the model comparison, not a failure of C04's statement
                if o["state"] != 0:
                    viol("P1", "the popped trial is not RUNNING after ask() (state code %s)" % o["state"], o)
                ef = o["expected_fixed"]
                sf, su = o["stored_fixed"], o["stored_user"]
                if (isinstance(sf, dict) and ("zz" in sf or "changed-by-caller" in [v for v in sf.values() if isinstance(v, str)])) and not same_dict(sf, ef):
                    viol("P5", "the queued trial carries the caller's LATER values %r, enqueued was %r" % (sf, ef), o)
                    continue
                if isinstance(su, dict) and "zz" in su and not same_dict(su, o["expected_user"]):
                    viol("P5", "the queued trial carries the caller's LATER user attributes %r, enqueued was %r" % (su, o["expected_user"]), o)
                    continue
                if not same_dict(sf, ef):
                    viol("P1", "the queued trial stores fixed_params = %r, enqueued was %r" % (sf, ef), o)
                    continue
                if not same_dict(su, o["expected_user"]):
                    viol("P1", "the queued trial stores user attributes %r, enqueued was %r" % (su, o["expected_user"]), o)
                    continue
                if not same_dict(o["fixed_params"], ef):
                    viol("P1", "the Trial object read _fixed_params = %r, enqueued was %r" % (o["fixed_params"], ef), o)
                if not same_dict(o["user"], o["expected_user"]):
                    viol("P1", "user attributes %r after the claim, %r before" % (o["user"], o["expected_user"]), o)
                for so in o.get("suggested", []):
                    if so["enqueued"] and so["exc"] is None and not same_value(so["value"], ef[so["name"]]):
                        d = so["dist"]
                        viol("P1", "suggest(%r) returned %r, enqueued was %r (distribution %s)" % (so["name"], so["value"], ef[so["name"]], d), o)


def compare_model(chk: core.Check, backend: str, prog: list[dict[str, Any]], obs: list[dict[str, Any]], reqs: list[dict[str, Any]]) -> None:
    """real code vs hand model vs interpreter of the generated data.  The suggest / tell requests after an ask refer to the trial
    by the NUMBER the real ask returned (number = id in the model: one study, from an empty storage); the model's own ask must
    have handed out that very trial - checked."""
    K = _K()
    out_reqs = reqs   # numbers are ids in the model (one study, from an empty storage)
    ms = core.driver_batch(DRIVER, out_reqs)

    def bad(what: str, q: Any, m: Any, o: Any = None) -> None:
        chk.broke("correspondence", {"stage": "enqueuegen", "backend": backend, "program": prog, "request": q, "model": m, "what": what,
                                     "real": {k: v for k, v in (o or {}).items() if k not in ("step", "ask_obs")} if isinstance(o, dict) else None})

    for q, m, o in zip(out_reqs[1:], ms[1:], obs):
        chk.count("enqueuegen:" + q["op"])
        chk.case({"fn": "enqueuegen", "op": q["op"], "backend": backend}, nontrivial=True)
        if "error" in m:
            if q["op"] == "suggest" and "not handed out" in m["error"]:
                bad("the model's ask did not hand out the trial the real ask returned", q, m, o)
            else:
                bad("driver: %s" % m["error"], q, m, o)
            continue
        if m.get("gen") is not None:
            bad("interpreter of the generated data and hand model disagree", q, m, o)
            continue
        rm = m["r"]
        if q["op"] == "enqueue":
            real_kind = "TypeError" if o["exc"] == "TypeError" else ("err" if o["exc"] else ("created" if o["n_after"] == o["n_before"] + 1 else "skipped"))
            if rm["kind"] != real_kind:
                bad("enqueue_trial: real %s, model %s" % (real_kind, rm["kind"]), q, m, o)
                continue
            if real_kind == "created":
                chk.count("enqueuegen:created")
                cmp_record(chk, bad, q, m, o, rm["rec"], o["new"], o["step"]["params"], o["step"].get("ua") or {})
            elif real_kind == "skipped":
                chk.count("enqueuegen:skipped")
        elif q["op"] == "addTrial":
            real_kind = ("err" if o["exc"] else ("created" if o["n_after"] == o["n_before"] + 1 else "skipped"))
            if rm["kind"] != real_kind or (real_kind == "err" and rm.get("e") != o["exc"]):
                bad("add_trial: real %s %s, model %s %s" % (real_kind, o["exc"], rm["kind"], rm.get("e")), q, m, o)
                continue
            if real_kind == "created":
                rec, new = rm["rec"], o["new"]
                if rec["number"] != new["number"] or rec["state"] != new["state"] or len(rec["params"]) != len(new["params"]) \
                        or sorted(rec["user"]) != sorted(new["user"]) or sorted(rec["system"]) != sorted(new["system"]) or (rec["values"] is None) != (new["values"] is None):
                    bad("add_trial: stored record differs", q, m, o)
                elif o["step"]["do"] == "add_waiting" and not same_dict(new["system"].get("fixed_params"), o["step"]["params"]):
                    bad("add_trial: stored fixed_params differ from the template's", q, m, o)
        elif q["op"] == "ask":
            if o["exc"] is not None:
                # a suggest of the fixed_distributions raised inside ask: the popped / created trial must be the one that FAILed
                if not (o["step"].get("via_fixed_distributions") and o["newly_failed"] == [rm["tid"]] and rm["nTrials"] == o["n_after"]):
                    bad("ask raised %s (newly failed trials %s, model handed out %s)" % (o["exc"], o.get("newly_failed"), rm["tid"]), q, m, o)
                else:
                    chk.count("enqueuegen:ask-failed-in-fixed-suggest")
                continue
            if rm["tid"] != o["number"] or rm["nTrials"] != o["n_after"]:
                bad("ask: real returned number %s (%d trials after), model id %s (%d trials after)" % (o["number"], o["n_after"], rm["tid"], rm["nTrials"]), q, m, o)
                continue
            created = any(e["ev"] == "created" for e in rm["evs"])
            if created != (o["n_after"] == o["n_before"] + 1):
                bad("ask: model %s a trial, real %s" % ("created" if created else "did not create", "did" if not created else "did not"), q, m, o)
                continue
            rec = rm["rec"]
            if rec["state"] != 0 or o["state"] != 0 or rec["number"] != o["number"]:
                bad("ask: state/number after ask differ (model state %s number %s)" % (rec["state"], rec["number"]), q, m, o)
                continue
            model_fixed = rm["fixed"]
            if model_fixed is None or sorted(([k, v] for k, v in model_fixed), key=lambda p: p[0]) != sorted(tok_pairs(o["fixed_params"] if is_param_dict(o["fixed_params"]) else {"?": "?"}), key=lambda p: p[0]):
                bad("ask: _fixed_params of the Trial object: real %r, model %s" % (o["fixed_params"], model_fixed), q, m, o)
                continue
            if sorted(rec["user"]) != sorted(o["user"]) or any(rec["user"][k] != json.dumps(v) for k, v in o["user"].items()):
                bad("ask: user attributes of the returned trial differ", q, m, o)
                continue
            if o["step"].get("via_fixed_distributions"):
                # the model says: the fixed_distributions are suggested before `return`
                order = [e["ev"] for e in rm["evs"]]
                if "suggestedFixed" not in order or order.index("suggestedFixed") > order.index("returned"):
                    bad("ask: model does not suggest the fixed_distributions before returning", q, m, o)
                for so in o.get("suggested", []):
                    if so["exc"] is None and so["name"] not in o["params_after_ask"]:
                        bad("ask(fixed_distributions): %r was not suggested inside ask" % so["name"], q, m, o)
            chk.count("enqueuegen:ask-popped" if not created else "enqueuegen:ask-created")
        elif q["op"] == "suggest":
            so = o["so"]
            res = rm["res"]
            if not so["enqueued"]:
                if res.get("br") == "fixed":
                    bad("suggest: model takes a fixed value for a name that was not enqueued", q, m, o)
                continue
            if so["exc"] is None and isinstance(so["value"], float) and not math.isfinite(so["value"]):
                # internal representations are rationals in C10's model of suggest: an infinite enqueued value is outside it
                chk.count("enqueuegen:suggest-nonfinite-outside-model")
                continue
            if so["exc"] is not None:
                if "err" not in res:
                    bad("suggest: real raised %s, model returned %s" % (so["exc"], res), q, m, o)
                continue
            if "err" in res or res.get("br") != "fixed" or res["v"] != K.tok(so["value"]):
                bad("suggest: real returned %r, model %s" % (so["value"], res), q, m, o)
            else:
                chk.count("enqueuegen:fixed-value-handed-over")
        elif q["op"] == "ext":
            if o.get("tell_exc", "-") is None and not (rm.get("k") == "bool" and rm.get("b")):
                bad("tell: real accepted, model %s" % rm, q, m, o)
        chk.traces_validated += 1


def cmp_record(chk: core.Check, bad: Any, q: Any, m: Any, o: Any, rec: dict[str, Any], new: dict[str, Any], params: dict[str, Any], ua: dict[str, Any]) -> None:
    if rec["number"] != new["number"] or rec["state"] != new["state"]:
        bad("enqueue_trial: number/state of the stored trial: real (%s, %s), model (%s, %s)" % (new["number"], new["state"], rec["number"], rec["state"]), q, m, o)
        return
    if sorted(rec["system"]) != sorted(new["system"]) or rec["system"].get("fixed_params") != payload_of(params):
        bad("enqueue_trial: system attrs of the stored trial: real %r, model %r" % (new["system"], rec["system"]), q, m, o)
        return
    if not same_dict(new["system"].get("fixed_params"), params):
        bad("enqueue_trial: stored fixed_params %r, enqueued %r" % (new["system"].get("fixed_params"), params), q, m, o)
        return
    if sorted(rec["user"]) != sorted(new["user"]) or any(rec["user"][k] != json.dumps(v) for k, v in new["user"].items()) or sorted(new["user"]) != sorted(ua):
        bad("enqueue_trial: user attrs of the stored trial: real %r, model %r" % (new["user"], rec["user"]), q, m, o)
        return
    if new["params"] or new["values"] is not None or rec["params"] or rec["values"] is not None:
        bad("enqueue_trial: the stored trial has parameters / values", q, m, o)


def static_stage(chk: core.Check) -> None:
    """the facts of the generated file that are not functions of an input, against the real code"""
    import optuna
    import optuna.distributions as OD
    from optuna.trial import TrialState

    try:
        m = core.driver_batch(DRIVER, [{"op": "static"}])[0]["r"]
    except (core.DriverBroken, KeyError) as e:
        chk.broke("correspondence", {"stage": "enqueuegen", "driver": str(e)[:400]})
        return
    chk.extra["enqueuegen_static"] = m
    # ask(fixed_distributions) whose suggest raises: the trial must end FAIL (failsTrialOnException)
    study = optuna.create_study()
    study.enqueue_trial({"x": "not-a-number"})
    raised = None
    try:
        with warnings.catch_warnings():
            warnings.simplefilter("ignore")
            study.ask(fixed_distributions={"x": OD.FloatDistribution(0.0, 1.0)})
    except Exception as e:  # noqa: BLE001
        raised = type(e).__name__
    st = study.get_trials(deepcopy=False)[0].state
    chk.count("enqueuegen:static")
    chk.case({"fn": "enqueuegen", "op": "static"}, nontrivial=True)
    real_fails = raised is not None and st == TrialState.FAIL
    if bool(m.get("askFailsTrialOnException")) != real_fails:
        chk.broke("correspondence", {"stage": "enqueuegen", "what": "ask whose fixed suggest raises: real raised=%s, state=%s; generated failsTrialOnException=%s" % (raised, st, m.get("askFailsTrialOnException"))})
    if raised is not None and st not in (TrialState.FAIL,):
        chk.violation({"stage": "enqueuegen", "rule": "P2", "backend_class": "mem"}, {"raised": raised, "state": str(st)},
                      "C04: an ask() that raised left the popped trial %s: it is neither queued nor failed, no worker will ever run or report it" % st)
    if m.get("key") != "fixed_params":
        chk.broke("correspondence", {"stage": "enqueuegen", "what": "Trial.__init__ reads system attribute %r" % m.get("key")})
