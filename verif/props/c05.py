"""C05 — acknowledged writes survive a crash; an interrupted write is all-or-nothing.

prove:      Props/C05.lean on Model/JournalFile.lean: for every crash point of the appender (lock steps, open,
            truncate-repair, every byte offset of the write, flush, fsync, close, unlock) the file is
            `acknowledged records ++ a torn tail`, which the repair step of the next appender removes; with the
            reader theorem of C07 every acknowledged record is returned by every later read and the interrupted
            one in full or not at all; survivors progress.
correspond / observe: real JournalFileBackend objects (one per "process") under sched+sysfi; the victim is
            killed (thread parked for ever: no finally, lock file and torn bytes stay) at every system-call
            boundary of its calls and, for writes, at chosen byte offsets; survivors continue (stale-lock
            takeover in virtual time), a fresh opener reads.  Thorough tier: SQLite child processes SIGKILLed at
            the k-th SQL statement / commit.
"""
from __future__ import annotations

import json
import os
import random
import subprocess
import sys
from typing import Any

from verif import core, sysfi
from verif.props import c05_txn, c07, c07_file_gen
from verif.translators import tsession

RULE = (
    "scenarios of 2-3 workers x 1-3 journal-file calls; a dry run lists the victim's system calls; then one run per "
    "crash point = (victim, k-th system call, before|after) and for write calls byte cuts {0, 1, mid, len-1, len} "
    "(thorough: every offset); every fifth scenario the victim's record is longer than one or two 8 kB buffer blocks, with "
    "cuts around the block boundaries; survivors append and read afterwards, a fresh opener reads; a case is non-trivial when the "
    "victim died holding the lock or inside a write; distinct by SHA-1 of (lock class, programs, crash point)"
)


BIG_PADS = [8300, 9000, 17000]   # records longer than one / two I/O buffer blocks (io.DEFAULT_BUFFER_SIZE = 8192)


def scenario(r: random.Random, big: bool = False) -> list[list[dict[str, Any]]]:
    nth = r.choice([2, 2, 3])
    progs = c07.gen_progs(r, nth, max_calls=2)
    # a storage call appends exactly one record (`JournalStorage._write_log`): all-or-nothing is claimed per call
    for p in progs:
        for a in p:
            if a["a"] == "append":
                a["recs"] = a["recs"][:1]
    # make sure the victim (thread 0) appends, and every survivor appends + reads afterwards
    if not any(a["a"] == "append" for a in progs[0]):
        progs[0].append({"a": "append", "recs": [{"w": 0, "i": 50, "pad": "v" * r.choice([0, 9])}]})
    if big:
        # the victim's last record is longer than a buffer block: a torn tail of > 8 kB must be repaired too
        # (e.g. a large user attribute or template trial)
        last = [a for a in progs[0] if a["a"] == "append"][-1]
        last["recs"][0]["pad"] = "B" * r.choice(BIG_PADS)
    for t in range(1, nth):
        # the continuation after the victim's death: a survivor may read before anybody repairs the tail
        progs[t].append({"a": "read", "from": 0, "after_victim": True})
        progs[t].append({"a": "append", "recs": [{"w": t, "i": 90, "pad": ""}]})
        progs[t].append({"a": "append", "recs": [{"w": t, "i": 91, "pad": "s"}]})
        progs[t].append({"a": "read", "from": 0})
    return progs


def crash_points(events: list[tuple[int, str]], victim: int, r: random.Random, all_offsets: bool, recs_len: dict[int, int]) -> list[dict[str, Any]]:
    pts = []
    idx = 0
    for t, name in events:
        if t != victim:
            continue
        if name.startswith("write"):
            n = recs_len.get(idx, 40)
            if n > 4096:
                # long record: cuts around the buffer-block boundaries (from the start and from the end) as well
                cuts = sorted(c for c in {0, 1, n // 2, n - 1, n, r.randrange(n + 1), 4097, 8191, 8192, 8193, n - 8193, n - 8192,
                                          n - 4097, 16385} if 0 <= c <= n)
            else:
                cuts = range(0, n + 1) if all_offsets else sorted({0, 1, n // 2, max(n - 1, 0), n, r.randrange(n + 1)})
            for c in cuts:
                pts.append({"at": idx, "when": "cut", "cut": c, "name": name})
        else:
            pts.append({"at": idx, "when": "before", "name": name})
            pts.append({"at": idx, "when": "after", "name": name})
        idx += 1
    return pts


def _worker(args: tuple[str, int, bool, str, bool]) -> list[dict[str, Any]]:
    lock_kind, seed, all_offsets, tmp, big = args
    r = random.Random(seed)
    progs = scenario(r, big)
    res: list[dict[str, Any]] = []
    # dry run (same seed => same schedule up to the crash)
    plan0 = sysfi.Plan()
    steps = 1500000 if big else 200000   # the tail repair scans a torn record byte by byte
    out0 = c07.run_file_case(lock_kind, progs, seed, tmp, plan=plan0, grace=3, tag="_dry", max_steps=steps)
    if "infra" in out0:
        return [{"kind": "infra", "why": out0["infra"], "seed": seed}]
    probs0 = c07.judge(out0, len(progs))
    if probs0:
        return [{"kind": "violation", "seed": seed, "progs": progs, "point": None, "probs": probs0, "crash_event": None}]
    # byte lengths of the victim's writes, by event index
    recs_len: dict[int, int] = {}
    idx = 0
    wi = 0
    writes = [json.dumps(rec, separators=(",", ":")) for a in progs[0] if a["a"] == "append" for rec in [a["recs"]]]
    sizes = [len(("\n".join(json.dumps(x, separators=(",", ":")) for x in a["recs"]) + "\n").encode()) for a in progs[0] if a["a"] == "append"]
    for t, name in out0["events"]:
        if t != 0:
            continue
        if name.startswith("write") and wi < len(sizes):
            recs_len[idx] = sizes[wi]
            wi += 1
        idx += 1
    pts = crash_points(out0["events"], 0, r, all_offsets, recs_len)
    if not all_offsets and len(pts) > 40:
        keep = [p for p in pts if p["when"] == "cut"]
        rest = [p for p in pts if p["when"] != "cut"]
        pts = keep + r.sample(rest, min(len(rest), 40 - min(len(keep), 20)))
    for p in pts:
        plan = sysfi.Plan(thread=0, at=p["at"], when=("before" if p["when"] == "cut" else p["when"]), cut=p.get("cut"))
        try:
            out = c07.run_file_case(lock_kind, progs, seed, tmp, plan=plan, grace=3, tag="_c", max_steps=steps)
        except Exception as e:  # noqa: BLE001
            res.append({"kind": "infra", "why": str(e)[:200], "seed": seed})
            continue
        if "infra" in out:
            res.append({"kind": "infra", "why": out["infra"], "seed": seed, "point": p})
            continue
        probs = c07.judge(out, len(progs))
        holding = any(ev[0] == "acq" and ev[1] == 0 for ev in out["locklog"]) and not any(ev[0] == "rel" and ev[1] == 0 and True for ev in out["locklog"][-1:])
        rec = {"seed": seed, "progs": progs, "point": p, "crash_event": out["crash_event"], "crashed": out["crashed"],
               "nontrivial": out["crashed"] is not None and (p["when"] == "cut" or holding), "n_threads": len(progs)}
        if probs:
            rec.update(kind="violation", probs=probs)
        else:
            rec.update(kind="ok")
        res.append(rec)
    return res


def explore(chk: core.Check, n_scen: int, all_offsets: bool) -> None:
    import multiprocessing as mp

    jobs = []
    for li, lock_kind in enumerate(["symlink", "open"]):
        for i in range(n_scen):
            jobs.append((lock_kind, chk.seed * 1000003 + li * 7919 + i, all_offsets, chk.tmp, i % 5 == 0))
    with mp.get_context("spawn").Pool(12) as pool:
        results = pool.map(_worker, jobs)
    for (lock_kind, seed, _, _, big), res in zip(jobs, results):
        for rec in res:
            if big:
                chk.count("crash-with-record>8kB")
            if rec["kind"] == "ok":
                chk.case({"lock": lock_kind, "programs": [[a["a"] for a in p] for p in rec["progs"]], "crash": rec["point"], "died_at": rec["crash_event"]},
                         nontrivial=rec["nontrivial"])
                chk.count("crash:%s" % (rec["point"]["name"].split("(")[0] if rec["point"] else "none"))
                chk.traces_validated += 1
            elif rec["kind"] == "violation":
                p = next((x for x in rec["probs"] if x["kind"] == "takeover-race"), rec["probs"][0])
                waiters = rec.get("n_threads", 2) - 1
                chk.violation({"lock": lock_kind, "kind": p["kind"], "after_crash": rec.get("crashed") is not None, "waiters_ge_2": waiters >= 2},
                              {"lock": lock_kind, "progs": rec["progs"], "seed": rec["seed"], "crash": rec["point"], "died_at": rec["crash_event"]},
                              "%s lock, victim killed at %s: %s" % (lock_kind, rec["crash_event"], "; ".join(x["why"] for x in rec["probs"][:2])))
            else:
                chk.count("infra")
                chk.extra.setdefault("infra_notes", []).append(str(rec.get("why"))[:200])


# ---- SQLite: kill a child at the k-th statement -------------------------------------------------------------------
CHILD = r'''
import os, sys, json, datetime
sys.path.insert(0, %(root)r)
from sqlalchemy import event
import optuna
from optuna.storages import RDBStorage
from optuna.trial import TrialState, FrozenTrial
from optuna.distributions import FloatDistribution, CategoricalDistribution
optuna.logging.set_verbosity(optuna.logging.ERROR)
url, k = sys.argv[1], int(sys.argv[2])
st = RDBStorage(url, engine_kwargs={"connect_args": {"timeout": 30}})
sid = st.get_study_id_from_name("s")
count = [0]
def tick(*a, **kw):
    count[0] += 1
    if count[0] == k:
        os._exit(9)
event.listen(st.engine, "before_cursor_execute", tick)
event.listen(st.engine, "commit", tick)
def ack(x):
    print("ACK " + json.dumps(x), flush=True)
t = st.create_new_trial(sid); ack("created")
st.set_trial_param(t, "x", 0.5, FloatDistribution(0, 1)); ack("param")
st.set_trial_intermediate_value(t, 0, 1.5); ack("inter")
st.set_trial_user_attr(t, "k", {"a": 1}); ack("attr")
st.set_trial_state_values(t, TrialState.COMPLETE, [0.25]); ack("complete")
tmpl = FrozenTrial(number=-1, trial_id=-1, state=TrialState.COMPLETE, value=None, values=[1.0],
    datetime_start=datetime.datetime(2024, 1, 1), datetime_complete=datetime.datetime(2024, 1, 2),
    params={"x": 0.25, "c": "b"}, distributions={"x": FloatDistribution(0, 1), "c": CategoricalDistribution(["a", "b"])},
    user_attrs={"u": 1}, system_attrs={"fixed_params": {"x": 0.25}}, intermediate_values={0: 0.5, 3: float("inf")})
st.create_new_trial(sid, tmpl); ack("template")
st.set_study_user_attr(sid, "done", True); ack("study-attr")
print("DONE %%d" %% count[0], flush=True)
'''

STAGES = ["created", "param", "inter", "attr", "complete", "template", "study-attr"]


def _visible(url: str, sid: int) -> tuple[list[str], str | None]:
    # What a fresh opener sees, as a prefix of STAGES; or a description of a half-applied call.
    from optuna.storages import RDBStorage
    from optuna.trial import TrialState

    st2 = RDBStorage(url)
    trials = st2.get_all_trials(sid)
    seen: list[str] = []
    if trials:
        t = trials[0]
        seen.append("created")
        if "x" in t.params:
            seen.append("param")
        if 0 in t.intermediate_values:
            seen.append("inter")
        if "k" in t.user_attrs:
            seen.append("attr")
        if t.state == TrialState.COMPLETE and t.values == [0.25]:
            seen.append("complete")
        elif t.state == TrialState.COMPLETE or t.values is not None:
            return seen, "set_trial_state_values half applied: state=%s values=%s" % (t.state, t.values)
    if len(trials) >= 2:
        t = trials[1]
        full = (t.state == TrialState.COMPLETE and t.values == [1.0] and t.params == {"x": 0.25, "c": "b"} and t.user_attrs == {"u": 1}
                and t.system_attrs == {"fixed_params": {"x": 0.25}} and t.intermediate_values == {0: 0.5, 3: float("inf")} and t.number == 1)
        if not full:
            return seen, "create_new_trial(template) half applied: state=%s values=%s params=%s user=%s system=%s inter=%s number=%s" % (
                t.state, t.values, t.params, t.user_attrs, t.system_attrs, t.intermediate_values, t.number)
        seen.append("template")
    if st2.get_study_user_attrs(sid).get("done"):
        seen.append("study-attr")
    return seen, None


def _kill_one(args: tuple[str, str, int]) -> dict[str, Any]:
    script, tmp, k = args
    from optuna.storages import RDBStorage
    from optuna.study import StudyDirection

    url = "sqlite:///" + os.path.join(tmp, "kill_%d_%d.db" % (os.getpid(), k))
    st = RDBStorage(url)
    sid = st.create_new_study([StudyDirection.MINIMIZE], "s")
    del st
    p = subprocess.run([sys.executable, script, url, str(k)], capture_output=True, text=True, timeout=300, env=dict(os.environ))
    acks = [json.loads(l[4:]) for l in p.stdout.splitlines() if l.startswith("ACK ")]
    done = any(l.startswith("DONE") for l in p.stdout.splitlines())
    try:
        seen, half = _visible(url, sid)
    except Exception as e:  # noqa: BLE001
        return {"k": k, "acks": acks, "done": done, "unreadable": "%s: %s" % (type(e).__name__, str(e)[:200])}
    return {"k": k, "acks": acks, "done": done, "seen": seen, "half": half, "stderr": p.stderr[-300:] if not acks and not done else "",
            "stdout_done": [l for l in p.stdout.splitlines() if l.startswith("DONE")]}


def sqlkill(chk: core.Check, max_k: int) -> None:
    from concurrent.futures import ThreadPoolExecutor

    script = os.path.join(chk.tmp, "child.py")
    with open(script, "w") as f:
        f.write(CHILD % {"root": core.REPO})
    # one run that is never killed tells how many SQL events the script has; then one child per event
    probe = _kill_one((script, chk.tmp, 10 ** 9))
    n_events = next((int(l.split()[1]) for l in probe.get("stdout_done", []) if l.startswith("DONE")), None)
    ks = list(range(1, (min(max_k, n_events) if n_events else max_k) + 1))
    with ThreadPoolExecutor(12) as ex:
        results = list(ex.map(_kill_one, [(script, chk.tmp, k) for k in ks]))
    results.append(dict(probe, k=(n_events or max_k) + 1))
    total = None
    for r in results:
        k = r["k"]
        if r["done"] and total is None:
            total = k
        if total is not None and k > total:
            continue
        if "unreadable" in r:
            chk.violation({"kind": "sqlite-unreadable-after-kill"}, {"k": k}, "after SIGKILL at SQL event %d the database cannot be read: %s" % (k, r["unreadable"]))
            return
        got, seen = r["acks"], r["seen"]
        chk.case({"part": "sqlkill", "k": k, "acked": got, "visible": seen}, nontrivial=not r["done"])
        chk.count("sqlkill")
        if r["half"]:
            chk.violation({"kind": "sqlite-half-applied-call"}, {"k": k, "acks": got, "visible": seen}, "SIGKILL at SQL event %d: %s" % (k, r["half"]))
            return
        ok = seen[: len(got)] == got and len(seen) <= len(got) + 1 and seen == STAGES[: len(seen)]
        if not ok:
            chk.violation({"kind": "sqlite-acked-write-lost"}, {"k": k, "acks": got, "visible": seen},
                          "SIGKILL at SQL event %d: acknowledged %s but a fresh opener sees %s" % (k, got, seen))
            return
    chk.extra["sqlkill_events_total"] = total


# ---- SQLite: kill the first worker while it initialises a brand-new database --------------------------------------
CHILD_INIT = r"""
import os, sys
sys.path.insert(0, %(root)r)
from sqlalchemy import event
from sqlalchemy.engine import Engine
import optuna
from optuna.storages import RDBStorage
optuna.logging.set_verbosity(optuna.logging.ERROR)
url, k = sys.argv[1], int(sys.argv[2])
count = [0]
def tick(*a, **kw):
    count[0] += 1
    if count[0] == k:
        os._exit(9)
event.listen(Engine, "before_cursor_execute", tick)
event.listen(Engine, "commit", tick)
RDBStorage(url, engine_kwargs={"connect_args": {"timeout": 30}})
print("DONE %%d" %% count[0], flush=True)
"""


def _init_kill_one(args: tuple[str, str, int]) -> dict[str, Any]:
    script, tmp, k = args
    from optuna.storages import RDBStorage
    from optuna.study import StudyDirection
    from optuna.trial import TrialState

    url = "sqlite:///" + os.path.join(tmp, "initkill_%d_%d.db" % (os.getpid(), k))
    p = subprocess.run([sys.executable, script, url, str(k)], capture_output=True, text=True, timeout=300, env=dict(os.environ))
    done = any(l.startswith("DONE") for l in p.stdout.splitlines())
    total = next((int(l.split()[1]) for l in p.stdout.splitlines() if l.startswith("DONE")), None)
    # the survivors: two fresh workers open what the dead one left behind, write through one, read through all
    try:
        w1 = RDBStorage(url)
        w2 = RDBStorage(url)
        sid = w1.create_new_study([StudyDirection.MINIMIZE], "s")
        tid = w2.create_new_trial(w2.get_study_id_from_name("s"))
        w2.set_trial_user_attr(tid, "a", 1)
        ok = w2.set_trial_state_values(tid, TrialState.COMPLETE, [0.5])
        w3 = RDBStorage(url)
        views = []
        for w in (w1, w2, w3):
            ts = w.get_all_trials(sid)
            views.append([(t.number, int(t.state), t.values, t.user_attrs) for t in ts])
        for w in (w1, w2, w3):
            w.engine.dispose()
    except Exception as e:  # noqa: BLE001
        return {"k": k, "done": done, "total": total, "error": "%s: %s" % (type(e).__name__, str(e)[:300])}
    want = [(0, int(TrialState.COMPLETE), [0.5], {"a": 1})]
    if not ok or any(v != want for v in views):
        return {"k": k, "done": done, "total": total, "error": "survivors' writes not readable by all: claim answered %s, views %s" % (ok, views)}
    return {"k": k, "done": done, "total": total}


def sqlkill_init(chk: core.Check, max_k: int) -> None:
    """The worker that creates the database dies before its k-th SQL statement / commit of RDBStorage.__init__
    (table creation, version row, alembic stamp); every later worker must still open, write and read."""
    from concurrent.futures import ThreadPoolExecutor

    script = os.path.join(chk.tmp, "child_init.py")
    with open(script, "w") as f:
        f.write(CHILD_INIT % {"root": core.REPO})
    probe = _init_kill_one((script, chk.tmp, 10 ** 9))
    n_events = probe.get("total")
    ks = list(range(1, (min(max_k, n_events) if n_events else max_k) + 1))
    with ThreadPoolExecutor(12) as ex:
        results = list(ex.map(_init_kill_one, [(script, chk.tmp, k) for k in ks]))
    results.append(dict(probe, k=(n_events or max_k) + 1))
    total = next((r["total"] for r in results if r["done"]), None)
    for r in results:
        if total is not None and r["k"] > total:
            continue
        chk.case({"part": "sqlkill-init", "k": r["k"]}, nontrivial=not r["done"])
        chk.count("sqlkill-init")
        if "error" in r:
            chk.violation({"kind": "sqlite-unusable-after-init-kill"}, {"k": r["k"]},
                          "the first worker was SIGKILLed at SQL event %d of RDBStorage.__init__ on a new database; later workers: %s" % (r["k"], r["error"]))
            return
    chk.extra["sqlkill_init_events_total"] = total


# ---- journal file: the OS cuts a write short while the writer stays alive (file size limit / disk full) -------------------
CHILD_SHORT = r"""
import json, os, resource, signal, sys
sys.path.insert(0, %(root)r)
import optuna
from optuna.storages import JournalStorage
from optuna.storages.journal import JournalFileBackend, JournalFileOpenLock, JournalFileSymlinkLock
optuna.logging.set_verbosity(optuna.logging.ERROR)
path, lock_kind = sys.argv[1], sys.argv[2]
signal.signal(signal.SIGXFSZ, signal.SIG_IGN)
def mk():
    lk = (JournalFileSymlinkLock if lock_kind == "symlink" else JournalFileOpenLock)(path)
    return JournalStorage(JournalFileBackend(path, lock_obj=lk))
st = mk()
sid = st.create_new_study([optuna.study.StudyDirection.MINIMIZE], "s")
tid = st.create_new_trial(sid)
st.set_trial_user_attr(tid, "base", 0)
out = []
soft0, hard0 = resource.getrlimit(resource.RLIMIT_FSIZE)
for i, room in enumerate([0, 1, 7, 40, 90, 150, 100000]):
    size = os.path.getsize(path)
    resource.setrlimit(resource.RLIMIT_FSIZE, (size + room, hard0))
    key, val = "k%%d" %% i, "v" * 60
    try:
        st.set_trial_user_attr(tid, key, val)
        acked = True
    except BaseException as e:
        acked = False
    finally:
        resource.setrlimit(resource.RLIMIT_FSIZE, (soft0, hard0))
    seen = []
    err = None
    try:
        fresh = mk()
        seen.append(key in fresh.get_trial(tid).user_attrs)
        st.set_trial_user_attr(tid, "after%%d" %% i, 1)        # the survivor (the writer itself) goes on appending
        fresh2 = mk()
        ua = fresh2.get_trial(tid).user_attrs
        seen.append(key in ua)
        seen.append(("after%%d" %% i) in ua and "base" in ua)
    except BaseException as e:
        err = "%%s: %%s" %% (type(e).__name__, str(e)[:160])
    out.append({"room": room, "acked": acked, "seen": seen, "err": err})
print("RESULT " + json.dumps(out))
"""


def short_write_probe(chk: core.Check) -> None:
    """RLIMIT_FSIZE lets the operating system cut the appender's write after `room` bytes (what a full disk or a quota
    does) while the process lives on.  A call that RETURNED must be visible to every fresh opener and survive later
    appends; a call that raised may leave a torn tail, which the next append repairs; nobody may fail afterwards."""
    script = os.path.join(chk.tmp, "child_short.py")
    with open(script, "w") as f:
        f.write(CHILD_SHORT % {"root": core.REPO})
    for lock_kind in ("symlink", "open"):
        path = os.path.join(chk.tmp, "short_%s_%d.log" % (lock_kind, os.getpid()))
        p = subprocess.run([sys.executable, script, path, lock_kind], capture_output=True, text=True, timeout=300, env=dict(os.environ))
        line = next((l for l in p.stdout.splitlines() if l.startswith("RESULT ")), None)
        if line is None:
            chk.extra.setdefault("short_write_errors", []).append(p.stderr[-300:])
            chk.count("short-write:infra")
            continue
        for r in json.loads(line[7:]):
            chk.case({"part": "short-write", "lock": lock_kind, "room": r["room"], "acked": r["acked"]}, nontrivial=not r["acked"])
            chk.count("short-write:%s" % ("acked" if r["acked"] else "raised"))
            if r["err"]:
                chk.violation({"kind": "survivor-fails-after-short-write", "lock": lock_kind}, {"part": "short-write", "lock": lock_kind, "result": r},
                              "%s lock: after a write cut short by the OS at %d bytes (call %s) later reads / appends fail: %s" % (
                                  lock_kind, r["room"], "returned" if r["acked"] else "raised", r["err"]))
                return
            if r["acked"] and not all(r["seen"][:2]):
                chk.violation({"kind": "acked-write-lost-short-write", "lock": lock_kind}, {"part": "short-write", "lock": lock_kind, "result": r},
                              "%s lock: set_trial_user_attr RETURNED although the OS accepted only %d bytes of its record; fresh openers see it: %s" % (
                                  lock_kind, r["room"], r["seen"]))
                return
            if not r["seen"][2:] or not r["seen"][2]:
                chk.violation({"kind": "later-append-lost-short-write", "lock": lock_kind}, {"part": "short-write", "lock": lock_kind, "result": r},
                              "%s lock: after a write cut short at %d bytes a later acknowledged append (or earlier data) is not visible" % (lock_kind, r["room"]))
                return


BIG_DELETE_CHILD = r'''
import os, sys
sys.path.insert(0, %(root)r)
from sqlalchemy import event
import optuna
from optuna.storages import RDBStorage
optuna.logging.set_verbosity(optuna.logging.ERROR)
url, k = sys.argv[1], int(sys.argv[2])
st = RDBStorage(url, engine_kwargs={"connect_args": {"timeout": 30}})
sid = st.get_study_id_from_name("big")
count = [0]
def tick(*a, **kw):
    count[0] += 1
    if count[0] == k:
        os._exit(9)
event.listen(st.engine, "commit", tick)
st.delete_study(sid)
print("DONE %%d" %% count[0], flush=True)
'''


def big_delete_kill(chk: core.Check, n_trials: int = 1100) -> None:
    """delete_study of a study with MANY trials (more than any chunk size or bound-variable limit a rewrite might introduce),
    the worker killed just before its k-th COMMIT, k = 1, 2, ...: a fresh opener must find the study either whole (all its
    trials) or gone - the call is one transaction whatever the size.  (Run in the thorough tier and in the failing-input
    search; ~20 s.)"""
    import shutil
    import sqlite3

    from optuna.storages import RDBStorage
    from optuna.study import StudyDirection

    base = os.path.join(chk.tmp, "bigdel_%d.db" % os.getpid())
    st = RDBStorage("sqlite:///" + base)
    sid = st.create_new_study([StudyDirection.MINIMIZE], "big")
    keep = st.create_new_study([StudyDirection.MINIMIZE], "control")
    for _ in range(3):
        st.create_new_trial(keep)
    t0 = st.create_new_trial(sid)
    st.set_trial_user_attr(t0, "k", 1)
    del st
    con = sqlite3.connect(base)   # bulk-create the rest (the ORM would take a minute): same rows create_new_trial writes
    cur = con.cursor()
    cols = [r[1] for r in cur.execute("PRAGMA table_info(trials)")]
    row = dict(zip(cols, cur.execute("SELECT * FROM trials WHERE study_id = ? LIMIT 1", (sid,)).fetchone()))
    for i in range(1, n_trials):
        r2 = dict(row, number=i)
        r2.pop("trial_id")
        cur.execute("INSERT INTO trials (%s) VALUES (%s)" % (", ".join(r2), ", ".join("?" for _ in r2)), list(r2.values()))
        cur.execute("INSERT INTO trial_user_attributes (trial_id, key, value_json) VALUES (?, 'k', '1')", (cur.lastrowid,))
    con.commit()
    con.close()
    script = os.path.join(chk.tmp, "bigdel_child.py")
    with open(script, "w") as f:
        f.write(BIG_DELETE_CHILD % {"root": core.REPO})
    for k in range(1, 9):
        db = os.path.join(chk.tmp, "bigdel_%d_k%d.db" % (os.getpid(), k))
        shutil.copy(base, db)
        url = "sqlite:///" + db
        p = subprocess.run([sys.executable, script, url, str(k)], capture_output=True, text=True, timeout=600, env=dict(os.environ))
        done = any(l.startswith("DONE") for l in p.stdout.splitlines())
        st2 = RDBStorage(url)
        names = {fs.study_name: fs._study_id for fs in st2.get_all_studies()}
        n_big = len(st2.get_all_trials(names["big"], deepcopy=False)) if "big" in names else None
        n_ctl = len(st2.get_all_trials(names["control"], deepcopy=False)) if "control" in names else None
        con = sqlite3.connect(db)
        orphans = con.execute("SELECT COUNT(*) FROM trial_user_attributes WHERE trial_id NOT IN (SELECT trial_id FROM trials)").fetchone()[0]
        con.close()
        os.remove(db)
        chk.case({"part": "big-delete-kill", "k": k, "n": n_trials}, nontrivial=not done)
        chk.count("big-delete-kill")
        if n_ctl != 3 or (n_big is not None and n_big != n_trials) or orphans:
            chk.violation({"kind": "sqlite-half-applied-call", "call": "delete_study", "size": "big"}, {"part": "big-delete-kill", "k": k, "n": n_trials},
                          "SIGKILL just before COMMIT #%d of delete_study on a study with %d trials: a fresh opener finds %s of its %d trials (study row %s), "
                          "%d orphan attribute rows, control study has %s of 3 trials - neither wholly applied nor wholly absent" % (
                              k, n_trials, n_big, n_trials, "present" if n_big is not None else "gone", orphans, n_ctl))
            return
        if done:
            break


def same_size_repair_probe(chk: core.Check) -> None:
    """A writer dies leaving p bytes of a record without newline; a survivor reads (it ignores the torn tail) ; another worker's
    append repairs the tail and writes a record of EXACTLY p bytes, so the file has the same size as when the survivor
    looked - and different content.  The survivor's next read must return that acknowledged record (a reader that
    short-cuts on an unchanged file size never sees it)."""
    from optuna.storages.journal import JournalFileBackend

    for p_len in (64, 117, 300):
        path = os.path.join(chk.tmp, "samesize_%d_%d.log" % (os.getpid(), p_len))
        a, w = JournalFileBackend(path), JournalFileBackend(path)
        a.append_logs([{"op_code": 0, "worker_id": "A", "study_name": "s", "directions": [1]}])
        assert len(a.read_logs(0)) == 1
        with open(path, "ab") as f:       # the dead writer's partial record: p_len bytes, no newline
            f.write((json.dumps({"op_code": 9, "pad": "x" * 400}))[:p_len].encode())
        first = a.read_logs(1)
        rec = {"op_code": 5, "worker_id": "W", "k": ""}
        size_before = os.path.getsize(path)
        # the record is padded so that (whatever separators the backend's serialiser uses) the repaired file has the size it
        # had when the survivor looked: try paddings around the estimate and keep the one that hits it on a scratch copy
        same = False
        for pad in range(max(0, p_len - 60), p_len):
            trial_rec = dict(rec, k="y" * pad)
            probe_path = path + ".probe"
            import shutil as _sh
            _sh.copy(path, probe_path)
            JournalFileBackend(probe_path).append_logs([trial_rec])
            hit = os.path.getsize(probe_path) == size_before
            os.remove(probe_path)
            for extra in (probe_path + ".lock",):
                if os.path.lexists(extra):
                    os.remove(extra)
            if hit:
                rec, same = trial_rec, True
                break
        w.append_logs([rec])
        same = same and os.path.getsize(path) == size_before
        got = a.read_logs(1)
        fresh = JournalFileBackend(path).read_logs(1)
        chk.case({"part": "same-size-repair", "p": p_len, "same_size": same}, nontrivial=same)
        chk.count("same-size-repair")
        if first != [] or fresh != [rec] or got != [rec]:
            chk.violation({"kind": "acked-append-invisible", "scenario": "same-size-repair"}, {"part": "same-size-repair", "p": p_len, "got": got, "fresh": fresh},
                          "a worker's append repaired a %d-byte torn tail and wrote a record of exactly %d bytes (file size unchanged: %s): the surviving reader's "
                          "next read_logs(1) returns %s, a fresh reader %s, the acknowledged record is %s" % (p_len, p_len, same, json.dumps(got)[:120], json.dumps(fresh)[:120], json.dumps(rec)[:80]))
            return


def search(chk: core.Check) -> None:
    chk.search_log.append("searching more crash scenarios on the real file backend")
    explore(chk, 60, False)
    c05_txn.search_sessions(chk)
    if not chk.violations:
        try:
            big_delete_kill(chk)
        except Exception as e:  # noqa: BLE001
            chk.search_log.append("big_delete_kill raised %r" % (e,))


def main(chk: core.Check) -> int:
    chk.rule = RULE
    tsession.regenerate(chk)      # Generated/RdbSessions.lean from today's /repo, before the theorems are re-checked against it
    c07_file_gen.regenerate(chk)  # T-file: Generated/JournalFileMethods.lean (append_logs / read_logs / lock classes of journal/_file.py)
    if not getattr(chk, "no_prove", False):
        chk.prove(["OptunaVerif.Props.C05", "OptunaVerif.Props.C05Txn", c07_file_gen.MODULE, "OptunaVerif.Props.C05C07Bridge", "OptunaVerif.Props.C05C07BridgeGen"])
        c07_file_gen.explain_proof_failure(chk)
    quick = chk.tier == "quick"
    import time as _t
    t0 = _t.time()
    explore(chk, 10 if quick else 150, all_offsets=not quick)
    chk.extra["wall_explore_s"] = round(_t.time() - t0, 1)
    t0 = _t.time()
    try:
        sqlkill(chk, 120 if quick else 200)
    except Exception as e:  # noqa: BLE001
        chk.extra["sqlkill_error"] = str(e)[:300]
    chk.extra["wall_sqlkill_s"] = round(_t.time() - t0, 1)
    t0 = _t.time()
    try:
        sqlkill_init(chk, 90 if quick else 140)
    except Exception as e:  # noqa: BLE001
        chk.extra["sqlkill_init_error"] = str(e)[:300]
    chk.extra["wall_sqlkill_init_s"] = round(_t.time() - t0, 1)
    t0 = _t.time()
    try:
        short_write_probe(chk)
    except Exception as e:  # noqa: BLE001
        chk.extra["short_write_error"] = str(e)[:300]
    same_size_repair_probe(chk)   # a repair that leaves the file size unchanged must still be seen by a surviving reader
    try:
        big_delete_kill(chk)          # delete_study of a 1100-trial study, killed before each COMMIT
    except Exception as e:  # noqa: BLE001
        chk.extra["big_delete_error"] = str(e)[:300]
    try:
        c05_txn.check_sessions(chk)   # one transaction per RDBStorage call: shape, real BEGIN/COMMIT, kill at every SQL event
    except core.DriverBroken as e:
        chk.broke("correspondence", {"driver": str(e)[:800]})
    chk.assumptions += ["kill -9 of a process = its thread never runs again (no finally, files stay as they are); bytes written and flushed before the kill are in the file (page-cache loss / power failure is out of scope)",
                        "stale-lock takeover is explored with a virtual clock (grace period 3) that only advances while all live threads sleep",
                        "SQLite's atomic commit is trusted; sqlkill only samples it"]
    return chk.finish(search=search)


def replay(chk: core.Check, path: str) -> int:
    w = json.load(open(path))["witness"]
    if "scenario" in w:
        return c05_txn.replay(chk, w)
    if "progs" not in w:
        print("sqlite witness: re-run ./check C05 --tier thorough")
        return 1
    p = w["crash"]
    plan = sysfi.Plan(thread=0, at=p["at"], when=("before" if p["when"] == "cut" else p["when"]), cut=p.get("cut")) if p else sysfi.Plan()
    out = c07.run_file_case(w["lock"], w["progs"], w["seed"], chk.tmp, plan=plan, grace=3)
    probs = c07.judge(out, len(w["progs"]))
    if probs:
        print("REPRODUCED: %s" % probs[0]["why"])
        return 1
    print("not reproduced")
    return 0
