"""C05, SQLite part — an interrupted RDBStorage call is wholly applied or wholly absent.

prove:      Props/C05Txn.lean on Model/Txn.lean: `rdb_call_atomic` — a method whose session blocks have the
            one-transaction shape leaves the pre-state or the post-state at every crash point; the shape of every
            method of RDBStorage is `Generated/RdbSessions.lean`, regenerated from /repo by translators/tsession.py and
            discharged by `decide` (`rdb_methods_one_txn`).  SQLite's atomic commit is trusted.
tie:        (T) the translator.  (K) `check_sessions`: for ~35 real calls (every public writer on its insert / update /
            error / guard paths, some readers, `fail_stale_trials`) on a SQLite file, in a forked child with
            SQLAlchemy engine events (`begin`, `before_cursor_execute`, `commit`, `rollback`) and a harness-side wrapper
            around `_create_scoped_session` that records which `with` line is entered and how it is left:
              * the observed block executions are attributed to the translated blocks by source line and must `conform`
                (Lean, compiled driver `txn`): writes only in blocks with write sites, plain where the block is plain,
                one committed execution per non-loop block; BEGIN/COMMIT counts must equal the number of translated
                blocks on straight paths;
              * kill scan (direct oracle, model-free): the child is killed (`os._exit`, nothing flushed, no `finally`)
                before its k-th SQL statement / COMMIT / ROLLBACK for every k; the parent then dumps every table of the
                database file and compares with the dump before the call and after an unkilled run: anything else is a
                half-applied call = VIOLATION.  The model's prediction for that crash point (`crashView`: pre until the
                COMMIT has been executed, post after) is compared as well.
"""
from __future__ import annotations

import json
import os
import shutil
import sqlite3
import sys
import time
from typing import Any, Callable

from verif import core
from verif.translators import tsession

# public writers that are deliberately not one transaction, with the reason (checked against the table by Lean:
# `upgrade_is_migration`, `fail_stale_trials_per_item`)
CLASSIFIED = {
    "upgrade": "schema migration: alembic runs its own transactions on its own engine, then the version row is updated in "
               "one more; not a storage call of the property",
    "fail_stale_trials": "study-level loop of storage calls: read-only `_get_stale_trial_ids`, then one "
                         "`set_trial_state_values` transaction per stale trial: atomic per item",
}
DATETIME_COLS = {("trials", "datetime_start"), ("trials", "datetime_complete"), ("trial_heartbeats", "heartbeat")}
WRITE_VERBS = {"INSERT", "UPDATE", "DELETE", "REPLACE"}
READ_VERBS = {"SELECT", "PRAGMA"}


# ---- scenarios ------------------------------------------------------------------------------------------------------------
def _setup(path: str) -> None:
    import datetime

    import optuna
    from optuna.distributions import CategoricalDistribution, FloatDistribution
    from optuna.storages import RDBStorage
    from optuna.study import StudyDirection
    from optuna.trial import FrozenTrial, TrialState

    optuna.logging.set_verbosity(optuna.logging.ERROR)
    for suffix in ("", "-journal", "-wal", "-shm"):
        if os.path.exists(path + suffix):
            os.remove(path + suffix)
    st = RDBStorage("sqlite:///" + path, heartbeat_interval=60, grace_period=120)
    s1 = st.create_new_study([StudyDirection.MINIMIZE], "s")
    t1 = st.create_new_trial(s1)
    st.set_trial_param(t1, "x", 0.5, FloatDistribution(0, 1))
    st.set_trial_intermediate_value(t1, 0, 1.0)
    st.set_trial_user_attr(t1, "k", {"a": 1})
    st.set_trial_system_attr(t1, "sk", 1)
    st.record_heartbeat(t1)
    st.set_study_user_attr(s1, "ua", 1)
    st.set_study_system_attr(s1, "sa", 1)
    waiting = FrozenTrial(number=-1, trial_id=-1, state=TrialState.WAITING, value=None, values=None, datetime_start=None,
                          datetime_complete=None, params={}, distributions={}, user_attrs={}, system_attrs={"fixed_params": {"x": 0.1}},
                          intermediate_values={})
    st.create_new_trial(s1, waiting)                      # 2
    t3 = st.create_new_trial(s1)                          # 3
    st.set_trial_state_values(t3, TrialState.COMPLETE, [0.5])
    t4 = st.create_new_trial(s1)                          # 4
    st.record_heartbeat(t4)
    s2 = st.create_new_study([StudyDirection.MINIMIZE, StudyDirection.MAXIMIZE], "d")
    st.create_new_trial(s2, _template(datetime, FrozenTrial, TrialState, FloatDistribution, CategoricalDistribution))   # 5
    st.engine.dispose()
    con = sqlite3.connect(path)
    con.execute("UPDATE trial_heartbeats SET heartbeat = '2000-01-01 00:00:00.000000'")
    con.commit()
    con.close()


def _template(datetime: Any, FrozenTrial: Any, TrialState: Any, FloatDistribution: Any, CategoricalDistribution: Any) -> Any:
    return FrozenTrial(number=-1, trial_id=-1, state=TrialState.COMPLETE, value=None, values=[1.0, 2.0],
                       datetime_start=datetime.datetime(2024, 1, 1), datetime_complete=datetime.datetime(2024, 1, 2),
                       params={"x": 0.25, "c": "b"}, distributions={"x": FloatDistribution(0, 1), "c": CategoricalDistribution(["a", "b"])},
                       user_attrs={"u": 1}, system_attrs={"fixed_params": {"x": 0.25}}, intermediate_values={0: 0.5, 3: float("inf")})


_SCEN: list[dict[str, Any]] | None = None     # built once in the parent; the forked children read it


def _scenarios(seed: int = 0, n_random: int = 0) -> list[dict[str, Any]]:
    import datetime
    import random

    import optuna
    from optuna.distributions import CategoricalDistribution, FloatDistribution
    from optuna.study import StudyDirection
    from optuna.trial import FrozenTrial, TrialState

    MIN = StudyDirection.MINIMIZE
    F = FloatDistribution(0, 1)
    tm = lambda: _template(datetime, FrozenTrial, TrialState, FloatDistribution, CategoricalDistribution)  # noqa: E731
    wt = lambda: FrozenTrial(number=-1, trial_id=-1, state=TrialState.WAITING, value=None, values=None, datetime_start=None,  # noqa: E731
                             datetime_complete=None, params={"x": 0.3}, distributions={"x": F}, user_attrs={"q": 1}, system_attrs={},
                             intermediate_values={})

    def fail_stale(st: Any) -> Any:
        study = optuna.load_study(study_name="s", storage=st)
        return lambda: optuna.storages.fail_stale_trials(study)

    S: list[dict[str, Any]] = []

    def add(name: str, method: str, call: Callable[[Any], Any], expect: str = "ok", writes: bool = True, prep: Any = None) -> None:
        S.append({"name": name, "method": method, "call": call, "expect": expect, "writes": writes, "prep": prep})

    add("create_new_study/named", "create_new_study", lambda st: st.create_new_study([MIN], "n1"))
    add("create_new_study/auto-name", "create_new_study", lambda st: st.create_new_study([MIN, MIN]))
    add("create_new_study/duplicate", "create_new_study", lambda st: st.create_new_study([MIN], "s"), expect="raises", writes=False)
    add("delete_study/cascade", "delete_study", lambda st: st.delete_study(2))
    add("delete_study/unknown", "delete_study", lambda st: st.delete_study(77), expect="raises", writes=False)
    add("set_study_user_attr/new", "set_study_user_attr", lambda st: st.set_study_user_attr(1, "nb", [1, 2]))
    add("set_study_user_attr/overwrite", "set_study_user_attr", lambda st: st.set_study_user_attr(1, "ua", 2))
    add("set_study_system_attr/new", "set_study_system_attr", lambda st: st.set_study_system_attr(1, "nb", "v"))
    add("set_study_system_attr/overwrite", "set_study_system_attr", lambda st: st.set_study_system_attr(1, "sa", 2))
    add("create_new_trial/plain", "create_new_trial", lambda st: st.create_new_trial(1))
    add("create_new_trial/finished-template", "create_new_trial", lambda st: st.create_new_trial(1, tm()))
    add("_create_new_trial/waiting-template", "_create_new_trial", lambda st: st._create_new_trial(1, wt()))
    # raises after the trial row, its values and the first parameter have been written and flushed: everything must be rolled back
    add("create_new_trial/template-incompatible-param", "create_new_trial",
        lambda st: st.create_new_trial(1, FrozenTrial(number=-1, trial_id=-1, state=TrialState.COMPLETE, value=None, values=[1.0],
                                                      datetime_start=datetime.datetime(2024, 1, 1), datetime_complete=datetime.datetime(2024, 1, 2),
                                                      params={"c": "b", "x": "a"},
                                                      distributions={"c": CategoricalDistribution(["a", "b"]), "x": CategoricalDistribution(["a"])},
                                                      user_attrs={}, system_attrs={}, intermediate_values={})),
        expect="raises", writes=False)
    add("create_new_trial/unknown-study", "create_new_trial", lambda st: st.create_new_trial(77), expect="raises", writes=False)
    add("set_trial_param/new", "set_trial_param", lambda st: st.set_trial_param(1, "y", 0.25, F))
    add("set_trial_param/overwrite", "set_trial_param", lambda st: st.set_trial_param(1, "x", 0.75, F))
    add("set_trial_param/finished", "set_trial_param", lambda st: st.set_trial_param(3, "x", 0.75, F), expect="raises", writes=False)
    add("set_trial_param/incompatible", "set_trial_param", lambda st: st.set_trial_param(4, "x", 0.0, CategoricalDistribution(["a"])),
        expect="raises", writes=False)
    add("set_trial_intermediate_value/new", "set_trial_intermediate_value", lambda st: st.set_trial_intermediate_value(1, 1, 2.0))
    add("set_trial_intermediate_value/overwrite", "set_trial_intermediate_value", lambda st: st.set_trial_intermediate_value(1, 0, float("nan")))
    add("set_trial_intermediate_value/finished", "set_trial_intermediate_value", lambda st: st.set_trial_intermediate_value(3, 0, 1.0),
        expect="raises", writes=False)
    add("set_trial_user_attr/new", "set_trial_user_attr", lambda st: st.set_trial_user_attr(1, "k2", "v"))
    add("set_trial_user_attr/overwrite", "set_trial_user_attr", lambda st: st.set_trial_user_attr(1, "k", {"a": 2}))
    add("set_trial_user_attr/finished", "set_trial_user_attr", lambda st: st.set_trial_user_attr(3, "k", 1), expect="raises", writes=False)
    add("set_trial_system_attr/new", "set_trial_system_attr", lambda st: st.set_trial_system_attr(1, "s2", "v"))
    add("set_trial_system_attr/overwrite", "set_trial_system_attr", lambda st: st.set_trial_system_attr(1, "sk", 2))
    add("set_trial_state_values/complete", "set_trial_state_values", lambda st: st.set_trial_state_values(1, TrialState.COMPLETE, [1.5]))
    add("set_trial_state_values/complete-2-values", "set_trial_state_values",
        lambda st: st.set_trial_state_values(4, TrialState.COMPLETE, [1.5, float("inf")]))
    add("set_trial_state_values/fail-no-values", "set_trial_state_values", lambda st: st.set_trial_state_values(1, TrialState.FAIL))
    add("set_trial_state_values/claim-waiting", "set_trial_state_values", lambda st: st.set_trial_state_values(2, TrialState.RUNNING))
    add("set_trial_state_values/claim-running", "set_trial_state_values", lambda st: st.set_trial_state_values(1, TrialState.RUNNING),
        writes=False)
    add("set_trial_state_values/claim-running-with-values", "set_trial_state_values",
        lambda st: st.set_trial_state_values(1, TrialState.RUNNING, [3.0]))
    add("set_trial_state_values/finished", "set_trial_state_values", lambda st: st.set_trial_state_values(3, TrialState.FAIL),
        expect="raises", writes=False)
    add("record_heartbeat/new", "record_heartbeat", lambda st: st.record_heartbeat(2))
    add("record_heartbeat/update", "record_heartbeat", lambda st: st.record_heartbeat(1))
    add("get_all_trials", "get_all_trials", lambda st: len(st.get_all_trials(1)), writes=False)
    add("get_trial", "get_trial", lambda st: st.get_trial(1).number, writes=False)
    add("get_best_trial", "get_best_trial", lambda st: st.get_best_trial(1).number, writes=False)
    add("get_study_id_from_name", "get_study_id_from_name", lambda st: st.get_study_id_from_name("s"), writes=False)
    add("get_all_studies", "get_all_studies", lambda st: len(st.get_all_studies()), writes=False)
    add("_get_stale_trial_ids", "_get_stale_trial_ids", lambda st: st._get_stale_trial_ids(1), writes=False)
    add("fail_stale_trials/2-stale", "fail_stale_trials", lambda st, f: f(), prep=fail_stale)
    add("upgrade", "upgrade", lambda st: st.upgrade(), writes=False)
    # random template trials (sizes and state from the seeded generator): the longest transactions there are
    r = random.Random(seed * 7919 + 5)
    for i in range(n_random):
        st_ = r.choice([TrialState.COMPLETE, TrialState.COMPLETE, TrialState.FAIL, TrialState.PRUNED, TrialState.WAITING, TrialState.RUNNING])
        npar, nua, nsa, niv = r.randrange(4), r.randrange(4), r.randrange(3), r.randrange(5)
        nval = r.choice([1, 1, 2, 3]) if st_ == TrialState.COMPLETE else 0
        params = {"rp%d" % j: r.random() for j in range(npar)}
        t = FrozenTrial(number=-1, trial_id=-1, state=st_, value=None, values=[r.choice([0.5, float("inf"), -1.0]) for _ in range(nval)] or None,
                        datetime_start=None if st_ == TrialState.WAITING else datetime.datetime(2024, 1, 1),
                        datetime_complete=datetime.datetime(2024, 1, 2) if st_.is_finished() else None,
                        params=params, distributions={k: F for k in params},
                        user_attrs={"u%d" % j: j for j in range(nua)}, system_attrs={"s%d" % j: [j] for j in range(nsa)},
                        intermediate_values={j * 2: r.choice([0.1, float("nan"), float("-inf")]) for j in range(niv)})
        add("create_new_trial/random-template-%d(%s,p%d,u%d,s%d,i%d,v%d)" % (i, st_.name, npar, nua, nsa, niv, nval), "create_new_trial",
            (lambda tt: (lambda st: st.create_new_trial(1, tt)))(t))
    return S


# ---- the instrumented child --------------------------------------------------------------------------------------------------
class _Recorder:
    def __init__(self, engine: Any, kill_at: int) -> None:
        from sqlalchemy import event

        self.events: list[list[Any]] = []
        self.kill_at = kill_at
        self.ticks = 0
        self.depth = 0
        self.on = False
        event.listen(engine, "begin", lambda conn: self._ev(["B"], False))
        event.listen(engine, "before_cursor_execute", self._stmt)
        event.listen(engine, "commit", lambda conn: self._ev(["C"], True))
        event.listen(engine, "rollback", lambda conn: self._ev(["R"], True))
        # one more crash point per transaction: the COMMIT has completed, the call has not returned yet
        from sqlalchemy.orm import Session
        event.listen(Session, "after_commit", lambda s: self._ev(["A"], True))

    def _stmt(self, conn: Any, cursor: Any, statement: str, parameters: Any, context: Any, executemany: bool) -> None:
        verb = (statement.lstrip().split(None, 1) or ["?"])[0].upper()
        kind = "W" if verb in WRITE_VERBS else ("Q" if verb in READ_VERBS else "X")
        self._ev([kind, verb + " " + " ".join(statement.split()[1:4])], True)

    def _ev(self, e: list[Any], tick: bool) -> None:
        if not self.on:
            return
        if tick:
            self.ticks += 1
            if self.ticks == self.kill_at:
                os._exit(9)      # the worker dies here: nothing is flushed, no `finally` runs
        self.events.append(e)

    def patch(self) -> Callable[[], None]:
        import optuna.storages._rdb.storage as mod

        rec = self
        orig = mod._create_scoped_session

        class Marked:
            def __init__(self, *a: Any, **kw: Any) -> None:
                self.inner = orig(*a, **kw)
                self.line = -1

            def __enter__(self) -> Any:
                f = sys._getframe(1)
                self.line = f.f_lineno
                rec.depth += 1
                if rec.on:
                    rec.events.append(["enter", self.line, rec.depth, f.f_code.co_name])
                return self.inner.__enter__()

            def __exit__(self, et: Any, ev: Any, tb: Any) -> Any:
                how = "ok" if et is None else "exc"
                try:
                    r = self.inner.__exit__(et, ev, tb)
                except BaseException:
                    if rec.on:
                        rec.events.append(["exit", self.line, rec.depth, "exc"])
                    rec.depth -= 1
                    raise
                if rec.on:
                    rec.events.append(["exit", self.line, rec.depth, how])
                rec.depth -= 1
                return r

        mod._create_scoped_session = Marked   # harness-side instrumentation of the live module; /repo is not touched

        def undo() -> None:
            mod._create_scoped_session = orig
        return undo


def _child(db: str, idx: int, kill_at: int, out: str) -> None:
    """Runs in a forked process: one storage call on `db`, killed before its `kill_at`-th SQL event (0 = never)."""
    try:
        import warnings

        import optuna
        from optuna.storages import RDBStorage

        warnings.simplefilter("ignore")
        optuna.logging.set_verbosity(optuna.logging.ERROR)
        os.dup2(os.open(os.devnull, os.O_WRONLY), 2)    # alembic's INFO lines of `upgrade`; errors travel in the result file
        st = RDBStorage("sqlite:///" + db, skip_compatibility_check=True, skip_table_creation=True, heartbeat_interval=60, grace_period=120)
        assert _SCEN is not None
        sc = _SCEN[idx]
        rec = _Recorder(st.engine, kill_at)
        extra = sc["prep"](st) if sc["prep"] is not None else None
        undo = rec.patch()
        rec.on = True
        try:
            r = sc["call"](st, extra) if sc["prep"] is not None else sc["call"](st)
            outcome = ["ok", repr(r)[:80]]
        except Exception as e:  # noqa: BLE001
            outcome = ["raises", type(e).__name__]
        rec.on = False
        undo()
        st.engine.dispose()
        with open(out, "w") as f:
            json.dump({"events": rec.events, "outcome": outcome, "ticks": rec.ticks}, f)
        os._exit(0)
    except BaseException as e:  # noqa: BLE001
        try:
            with open(out, "w") as f:
                json.dump({"error": "%s: %s" % (type(e).__name__, str(e)[:300])}, f)
        finally:
            os._exit(3)


def _fork(db: str, idx: int, kill_at: int, out: str, wait: bool = True) -> int:
    sys.stdout.flush()
    sys.stderr.flush()
    pid = os.fork()
    if pid == 0:
        _child(db, idx, kill_at, out)
        os._exit(4)
    if not wait:
        return pid
    _, status = os.waitpid(pid, 0)
    return os.waitstatus_to_exitcode(status)


def _dump(path: str) -> dict[str, list[Any]]:
    con = sqlite3.connect(path, timeout=30)
    try:
        out: dict[str, list[Any]] = {}
        for (t,) in con.execute("select name from sqlite_master where type='table' order by name").fetchall():
            cols = [c[1] for c in con.execute("pragma table_info(%s)" % t).fetchall()]
            rows = []
            for r in con.execute("select * from %s" % t).fetchall():
                row = []
                for cname, v in zip(cols, r):
                    if (t, cname) in DATETIME_COLS:
                        v = None if v is None else "T"
                    elif t == "studies" and cname == "study_name" and isinstance(v, str) and v.startswith("no-name-"):
                        v = "no-name-*"
                    row.append(v)
                rows.append(row)
            out[t] = sorted(rows, key=repr)
        return out
    finally:
        con.close()


# ---- from events to the model's block executions ----------------------------------------------------------------------------
def _insts(events: list[list[Any]], lines: list[int]) -> tuple[list[dict[str, Any]], list[int], list[str], dict[str, int]]:
    """Block executions (outermost `with` enter..exit) with the model steps of their bodies; `before[t-1]` = number of
    model steps executed before SQL event number t; problems; BEGIN/COMMIT/ROLLBACK counts."""
    insts: list[dict[str, Any]] = []
    before: list[int] = []
    problems: list[str] = []
    cnt = {"B": 0, "C": 0, "R": 0, "W": 0, "Q": 0}
    cur: dict[str, Any] | None = None
    done = 0
    for e in events:
        k = e[0]
        if k == "enter":
            if e[2] == 1:
                cur = {"line": e[1], "body": [], "began": False, "last": None, "fn": e[3]}
            continue
        if k == "exit":
            if e[2] == 1 and cur is not None:
                committed = e[3] == "ok"
                body = cur["body"]
                if not cur["began"]:
                    done += 1                                  # the model's `begin`
                if committed:
                    if cur["last"] == "C" and body and body[-1] == "c":
                        body.pop()                             # the block's own commit = the final step (already counted)
                    else:
                        done += 1
                else:
                    if cur["last"] == "R" and body and body[-1] == "r":
                        body.pop()
                    else:
                        done += 1
                blk = lines.index(cur["line"]) if cur["line"] in lines else -1
                if blk < 0:
                    problems.append("a session block at line %s (in %s) is executed that the translation of this method does not contain"
                                    % (cur["line"], cur["fn"]))
                insts.append({"blk": max(blk, 0), "body": body, "committed": committed, "line": cur["line"]})
                cur = None
            continue
        if k in cnt:
            cnt[k] += 1
        if k == "X":
            problems.append("unclassified SQL statement %r" % (e[1],))
            before.append(done)
            continue
        if cur is None:
            if k != "B":
                before.append(done)
            if k != "A":
                problems.append("SQL event %s outside every session block" % e)
            continue
        if k == "B":
            if not cur["began"]:
                cur["began"] = True
            else:
                cur["body"].append("b")
            done += 1
            cur["last"] = "B"
            continue
        before.append(done)
        if k in ("Q", "A"):
            continue
        cur["body"].append({"W": "w", "C": "c", "R": "r"}[k])
        cur["last"] = k
        done += 1
    return insts, before, problems, cnt


def _static(table: dict[str, Any], method: str) -> dict[str, Any] | None:
    for m in table["methods"] + table["composites"]:
        if m["name"] == method:
            return m
    return None


# ---- the check ----------------------------------------------------------------------------------------------------------------
def check_sessions(chk: core.Check, kill: str | None = None, static: bool = True) -> dict[str, Any]:
    """Translator + static verdicts + one real call per scenario + kill scan.  `kill`: "writers" (kill points from the
    statement before the first write on; default in the quick tier), "all" (every SQL event; thorough / search), "none"."""
    t0 = time.time()
    kill = kill or ("writers" if chk.tier == "quick" else "all")
    table = tsession.regenerate(chk)
    core.ensure_driver()
    drv = core.Driver("txn")
    summary: dict[str, Any] = {"kill_mode": kill, "scenarios": {}, "classified": {}}
    try:
        if not drv.ask({"op": "ctx"}).get("ok"):
            chk.broke("translation", {"tsession": "`_create_scoped_session` no longer has the commit-on-exit / rollback-on-exception shape",
                                      "ctx": table["ctx"]})
        lean = drv.ask({"op": "table"})
        by_name = {m["name"]: m for m in lean["methods"] + lean["composites"]}
        for m in (table["methods"] + table["composites"]) if static else []:
            lm = by_name.get(m["name"])
            mine = [(b["writes"], b["flushes"], b["commits"], b["rollbacks"], b["nested"], b["guards"], b["guards_safe"], b["rep"]) for b in m["blocks"]]
            theirs = None if lm is None else [(b["writes"], b["flushes"], b["commits"], b["rollbacks"], b["nested"], b["guards"], b["guards_safe"], b["rep"])
                                              for b in lm["blocks"]]
            if mine != theirs:
                chk.broke("translation", {"tsession": "generated Lean table and translator output differ", "method": m["name"]})
        if static and not lean.get("helpers_never_commit", False):
            chk.broke("translation", {"tsession": "a helper that is handed the session commits, rolls back or re-opens it",
                                      "helpers": [h for h in table["helpers"] if h["commits"] or h["rollbacks"] or h["nested"]]})
        # static verdict per public writer (the same predicate `rdb_methods_one_txn` decides)
        for lm in (lean["methods"] + lean["composites"]) if static else []:
            if not (lm["public"] and lm["hasWrites"]):
                continue
            chk.count("shape:%s" % ("oneTxn" if lm["oneTxn"] else ("perItem" if lm["perItem"] else "other")))
            if lm["oneTxn"]:
                continue
            sm = _static(table, lm["name"])
            if lm["name"] in CLASSIFIED:
                summary["classified"][lm["name"]] = {"why": CLASSIFIED[lm["name"]], "perItem": lm["perItem"], "external": lm["external"]}
                continue
            chk.broke("translation", {"tsession": "the writes of a public method are not confined to one plain transaction",
                                      "method": lm["name"], "blocks": [{k: b[k] for k in ("line", "writes", "commits", "rollbacks", "nested", "guards", "guards_safe", "rep")}
                                                                       for b in (sm["blocks"] if sm else [])],
                                      "sites": [b["sites"][:12] for b in (sm["blocks"] if sm else [])], "external": sm["external"] if sm else None})
        # ---- dynamic part
        base = os.path.join(chk.tmp, "txn_base.db")
        try:
            _setup(base)
        except Exception as e:  # noqa: BLE001 - the scripted set-up calls are all legal: a failure is a disagreement with the code
            chk.broke("correspondence", {"c05_txn": "a legal set-up call of the scenarios raised", "error": "%s: %s" % (type(e).__name__, str(e)[:200])})
            summary["setup_failed"] = True
            chk.extra["c05_txn"] = summary
            return summary
        pre = _dump(base)
        global _SCEN
        scen = _SCEN = _scenarios(chk.seed, 3 if chk.tier == "quick" else 30)
        work = os.path.join(chk.tmp, "txn_work.db")
        outp = os.path.join(chk.tmp, "txn_child.json")
        n_kills = 0
        for idx, sc in enumerate(scen):
            for suffix in ("", "-journal", "-wal", "-shm"):
                if os.path.exists(work + suffix):
                    os.remove(work + suffix)
            shutil.copyfile(base, work)
            rc = _fork(work, idx, 0, outp)
            try:
                res = json.load(open(outp))
            except Exception:  # noqa: BLE001
                res = {"error": "no output (exit %s)" % rc}
            if rc != 0 or "error" in res:
                chk.extra.setdefault("infra_notes", []).append("c05_txn child %s: %s" % (sc["name"], res.get("error", rc)))
                chk.count("txn:infra")
                continue
            post = _dump(work)
            sm = _static(table, sc["method"])
            lines = [b["line"] for b in sm["blocks"]] if sm else []
            insts, before, problems, cnt = _insts(res["events"], lines)
            info: dict[str, Any] = {"outcome": res["outcome"], "begin": cnt["B"], "commit": cnt["C"], "rollback": cnt["R"], "writes": cnt["W"],
                                    "block_executions": len(insts), "sql_events": res["ticks"]}
            summary["scenarios"][sc["name"]] = info
            if res["outcome"][0] != sc["expect"]:
                chk.broke("correspondence", {"c05_txn": "scenario did not behave as scripted", "scenario": sc["name"], "outcome": res["outcome"],
                                             "database_changed": pre != post})
                continue
            if sm is None:
                chk.broke("translation", {"tsession": "method not in the translated table", "method": sc["method"]})
                continue
            for p in problems:
                chk.broke("correspondence", {"c05_txn": p, "scenario": sc["name"]})
            ans = drv.ask({"op": "run", "method": sc["method"], "insts": [{"blk": i["blk"], "body": i["body"], "committed": i["committed"]} for i in insts]})
            info.update(conforms=ans.get("conforms"), effective=ans.get("effective"), model_steps=ans.get("len"))
            if not ans.get("found") or not ans.get("conforms"):
                chk.broke("correspondence", {"c05_txn": "the observed block executions do not conform to the translated shape", "scenario": sc["name"],
                                             "observed": [{"line": i["line"], "body": "".join(i["body"]), "committed": i["committed"]} for i in insts],
                                             "translated": [{k: b[k] for k in ("line", "writes", "commits", "nested", "guards", "rep")} for b in sm["blocks"]]})
            # BEGIN / COMMIT counts against the translated shape
            straight = all(b["rep"] == "once" and b["nested"] == 0 for b in sm["blocks"]) and sc["method"] != "upgrade"
            if straight and sc["expect"] == "ok":
                want = len(sm["blocks"])
                if not (cnt["B"] == want and cnt["C"] == want and cnt["R"] == 0):
                    chk.broke("correspondence", {"c05_txn": "BEGIN/COMMIT/ROLLBACK issued by SQLAlchemy differ from the translated number of session blocks",
                                                 "scenario": sc["name"], "begin": cnt["B"], "commit": cnt["C"], "rollback": cnt["R"], "translated_blocks": want})
            wtx = sum(1 for i in insts if "w" in i["body"] and i["committed"])
            wblocks = sum(1 for b in sm["blocks"] if b["writes"])
            if sc["writes"] and sc["method"] not in CLASSIFIED and not (wtx == 1 and wblocks == 1):
                chk.broke("correspondence", {"c05_txn": "a scripted write did not happen in exactly one committed transaction of the one translated write block",
                                             "scenario": sc["name"], "committed_write_transactions": wtx, "translated_write_blocks": wblocks})
            if (not sc["writes"]) and sc["method"] not in CLASSIFIED and pre != post:
                chk.broke("correspondence", {"c05_txn": "a scenario scripted as having no effect changed the database", "scenario": sc["name"]})
            chk.case({"part": "txn-shape", "scenario": sc["name"], "blocks": [(i["line"], "".join(i["body"]), i["committed"]) for i in insts]},
                     nontrivial=cnt["W"] > 0 or cnt["R"] > 0 or len(insts) > 1)
            chk.count("txn:call")
            chk.traces_validated += 1
            # ---- kill scan
            if kill == "none" or sc["method"] == "upgrade" or cnt["W"] == 0:
                continue
            views = ans.get("views", [])
            n = res["ticks"]
            first_w = next((t for t, e in enumerate([e for e in res["events"] if e[0] in ("W", "Q", "C", "R", "X", "A")], 1) if e[0] == "W"), 1)
            ks = range(1, n + 1) if kill == "all" else range(max(1, first_w - 1), n + 1)
            outcomes = []
            # the kill points of one scenario are independent: run them 12 at a time, each on its own copy of the file
            rcs: dict[int, int] = {}
            klist = list(ks)
            for i0 in range(0, len(klist), 12):
                pids = {}
                for k in klist[i0:i0 + 12]:
                    wk = "%s.k%d" % (work, k)
                    for suffix in ("", "-journal", "-wal", "-shm"):
                        if os.path.exists(wk + suffix):
                            os.remove(wk + suffix)
                    shutil.copyfile(base, wk)
                    pids[k] = _fork(wk, idx, k, outp + ".k%d" % k, wait=False)
                for k, pid in pids.items():
                    _, status = os.waitpid(pid, 0)
                    rcs[k] = os.waitstatus_to_exitcode(status)
            for k in klist:
                wk = "%s.k%d" % (work, k)
                rc = rcs[k]
                n_kills += 1
                if rc != 9:
                    chk.extra.setdefault("infra_notes", []).append("c05_txn kill %s@%d: child exit %s" % (sc["name"], k, rc))
                    chk.count("txn:infra")
                    continue
                try:
                    snap = _dump(wk)
                    for suffix in ("", "-journal", "-wal", "-shm"):
                        if os.path.exists(wk + suffix):
                            os.remove(wk + suffix)
                except Exception as e:  # noqa: BLE001
                    chk.violation({"kind": "sqlite-unreadable-after-kill", "method": sc["method"]}, {"scenario": sc["name"], "k": k},
                                  "%s killed before SQL event %d: the database cannot be read: %s" % (sc["name"], k, e))
                    continue
                real = "pre" if snap == pre else ("post" if snap == post else "mid")
                predicted = views[before[k - 1]] if k - 1 < len(before) and before[k - 1] < len(views) else "?"
                outcomes.append({"pre": "b", "post": "a", "mid": "m"}[real])
                chk.case({"part": "txn-kill", "scenario": sc["name"], "k": k, "real": real, "model": predicted}, nontrivial=True)
                chk.count("txn:kill:%s" % real)
                if real == "mid":
                    diff = {t: ("as after the call" if snap.get(t) == post.get(t) else "as before the call" if snap.get(t) == pre.get(t) else "neither")
                            for t in sorted(set(pre) | set(post) | set(snap)) if pre.get(t) != post.get(t)}
                    if sc["method"] in CLASSIFIED:
                        # atomic per item: every stale trial is failed completely or not at all
                        bad = [r for r in snap.get("trials", []) if (r[3] == "FAIL") != (r[5] is not None) and r[3] in ("FAIL", "RUNNING")]
                        chk.count("txn:per-item-boundary")
                        if bad:
                            chk.violation({"kind": "sqlite-half-applied-call", "method": "set_trial_state_values"},
                                          {"scenario": sc["name"], "k": k, "rows": bad[:3]},
                                          "%s killed before SQL event %d: a trial is half failed: %s" % (sc["name"], k, bad[:2]))
                        continue
                    chk.violation({"kind": "sqlite-half-applied-call", "method": sc["method"]},
                                  {"scenario": sc["name"], "k": k, "seed": chk.seed, "sql_events": [e for e in res["events"] if e[0] in ("B", "W", "Q", "C", "R", "A")][: k + 2],
                                   "tables_changed_by_the_call": diff},
                                  "RDBStorage.%s (%s) killed before its SQL event %d of %d: the database is neither in the state before the call nor in "
                                  "the state after it; tables the call changes: %s" % (sc["method"], sc["name"], k, n, diff))
                elif predicted != "?" and predicted != real and pre != post and sc["method"] not in CLASSIFIED:
                    chk.broke("correspondence", {"c05_txn": "crash point: the transaction model predicts %s, the database file shows %s" % (predicted, real),
                                                 "scenario": sc["name"], "k": k})
            info["kill"] = "".join(outcomes)
        summary["kills"] = n_kills
    finally:
        drv.close()
    summary["wall_s"] = round(time.time() - t0, 1)
    chk.extra["c05_txn"] = summary
    for a in ("SQLite's atomic commit is trusted: a crash keeps exactly the transactions whose COMMIT completed (Model/Txn.lean `durable`); the kill scan samples it",
              "assumption (G) of Model/Txn: within one session block the ORM identity map hands out the trial row loaded first, so all "
              "`check_trial_is_updatable` guards on that row decide alike (only the first can fire, before any write); a guard on a trial "
              "inserted as RUNNING in the same block cannot fire.  The guard-fired paths of every setter are exercised (`…/finished` scenarios)",
              "os._exit in a forked child stands for SIGKILL (no buffers flushed, no finally, SQLite journal left behind)"):
        if a not in chk.assumptions:
            chk.assumptions.append(a)
    return summary


def search_sessions(chk: core.Check) -> None:
    """Failing-input search for the SQLite part: the kill scan over every SQL event of every scenario."""
    if chk.extra.get("c05_txn", {}).get("kill_mode") == "all":
        return
    chk.search_log.append("c05_txn: kill scan over every SQL event of every scripted RDBStorage call")
    check_sessions(chk, kill="all", static=False)


def replay(chk: core.Check, witness: dict[str, Any]) -> int:
    """Replay a kill-scan witness {"scenario": name, "k": n}: 1 = reproduced."""
    global _SCEN
    scen = _SCEN = _scenarios(int(witness.get("seed", chk.seed)), 30)
    idx = next((i for i, sc in enumerate(scen) if sc["name"] == witness.get("scenario")), None)
    if idx is None:
        print("unknown scenario %r" % (witness.get("scenario"),))
        return 1
    base = os.path.join(chk.tmp, "txn_base.db")
    _setup(base)
    pre = _dump(base)
    full, cut = os.path.join(chk.tmp, "full.db"), os.path.join(chk.tmp, "cut.db")
    shutil.copyfile(base, full)
    shutil.copyfile(base, cut)
    _fork(full, idx, 0, os.path.join(chk.tmp, "o1.json"))
    rc = _fork(cut, idx, int(witness["k"]), os.path.join(chk.tmp, "o2.json"))
    post, snap = _dump(full), _dump(cut)
    if rc == 9 and snap != pre and snap != post:
        print("REPRODUCED: %s killed before SQL event %s leaves a state that is neither the one before nor the one after the call"
              % (witness["scenario"], witness["k"]))
        return 1
    print("not reproduced (child exit %s; state is %s)" % (rc, "pre" if snap == pre else "post" if snap == post else "other"))
    return 0
