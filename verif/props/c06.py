"""C06 — journal replay is deterministic: all workers converge on the same state.

prove:      Props/C06.lean (replay is a fold; batch splits, resumption after an issuer error, issuer
            independence, rejected records change nothing, snapshot + tail = full replay) on the
            implementation-shaped model Model/Journal.lean of JournalStorageReplayResult.
correspond: several real JournalStorage workers on one log issue an interleaving of calls; the model
            replicas are fed *the records actually read back from the log* and must agree with every
            worker (error class at the issuer, returned ids / claim answers, whole readable state), with
            a fresh replay, a replay in arbitrary batches run under an existing worker's identity, and a
            snapshot-restored replay.
observe:    the property itself on the implementation, independent of the model: all those views are equal
            to each other, and a rejected call changes no worker's view.
"""
from __future__ import annotations

import json
import os
import pickle
import random
from typing import Any

from optuna.distributions import json_to_distribution
from optuna.storages import JournalStorage
from optuna.storages.journal._storage import JournalOperation, JournalStorageReplayResult

from verif import core, fleet
from verif import storage_k as K
from verif.props import c06_front, c06_gen, c06_redis

RULE = (
    "2-4 JournalStorage workers on one log (file backend with either lock, or fakeredis) execute a seeded interleaving "
    "of storage calls (same generator as C01: unknown ids, finished-trial writes, duplicate names, incompatible "
    "distributions, templates); a case = (backend, history, sync/cut/snapshot points); non-trivial = the log holds "
    ">= 1 rejected record and records of >= 2 workers; distinct by SHA-1 of the case"
)
OPCODES = {"CREATE_STUDY": 0, "DELETE_STUDY": 1, "SET_STUDY_USER_ATTR": 2, "SET_STUDY_SYSTEM_ATTR": 3, "CREATE_TRIAL": 4,
           "SET_TRIAL_PARAM": 5, "SET_TRIAL_STATE_VALUES": 6, "SET_TRIAL_INTERMEDIATE_VALUE": 7, "SET_TRIAL_USER_ATTR": 8,
           "SET_TRIAL_SYSTEM_ATTR": 9}


def rec_to_driver(log: dict[str, Any]) -> dict[str, Any]:
    """Re-encode one record as read from the real log for the Lean driver (floats -> exact tokens)."""
    op = int(log["op_code"])
    r: dict[str, Any] = {"op": op, "worker": log["worker_id"]}
    if op == 0:
        r.update(name=log["study_name"], dirs=[int(d) for d in log["directions"]])
    elif op == 1:
        r.update(sid=log["study_id"])
    elif op in (2, 3):
        (k, v), = log["user_attr" if op == 2 else "system_attr"].items()
        r.update(sid=log["study_id"], k=k, v=K.atok(v))
    elif op == 4:
        r.update(sid=log["study_id"], tmpl=None)
        if "state" in log:
            dists = {k: json_to_distribution(v) for k, v in log.get("distributions", {}).items()}
            values = log.get("values")
            if values is None and log.get("value") is not None:
                values = [log["value"]]
            r["tmpl"] = {
                "state": int(log["state"]),
                "values": None if values is None else [K.ftok(v) for v in values],
                "params": K.pairs({k: dict(K.dist_enc(dists[k]), internal=K.ftok(p)) for k, p in log.get("params", {}).items()}),
                "user": K.pairs({k: K.atok(v) for k, v in log.get("user_attrs", {}).items()}),
                "system": K.pairs({k: K.atok(v) for k, v in log.get("system_attrs", {}).items()}),
                "inter": [[int(s), K.ftok(v)] for s, v in log.get("intermediate_values", {}).items()],
                "start": log.get("datetime_start") is not None,
                "complete": "datetime_complete" in log,
            }
    elif op == 5:
        d = json_to_distribution(log["distribution"])
        r.update(tid=log["trial_id"], name=log["param_name"], param=dict(K.dist_enc(d), internal=K.ftok(log["param_value_internal"])))
    elif op == 6:
        r.update(tid=log["trial_id"], state=int(log["state"]), values=None if log["values"] is None else [K.ftok(v) for v in log["values"]])
    elif op == 7:
        r.update(tid=log["trial_id"], step=int(log["step"]), v=K.ftok(log["intermediate_value"]))
    elif op in (8, 9):
        (k, v), = log["user_attr" if op == 8 else "system_attr"].items()
        r.update(tid=log["trial_id"], k=k, v=K.atok(v))
    else:
        raise ValueError("unknown op code %r" % op)
    return r


def dump_replay_result(rr: JournalStorageReplayResult) -> list[dict[str, Any]]:
    out = []
    for fs in sorted(rr.get_all_studies(), key=lambda fs: fs._study_id):
        ts = rr.get_all_trials(fs._study_id, None)
        out.append({"study": K.canon_study(fs, fs._study_id), "trials": [K.canon_trial(t, t._trial_id) for t in ts], "times": _exact_times(ts)})
    return out


def _exact_times(ts: list[Any]) -> list[Any]:
    return [[None if t.datetime_start is None else t.datetime_start.isoformat(), None if t.datetime_complete is None else t.datetime_complete.isoformat()] for t in ts]


def dump_storage(s: JournalStorage) -> list[dict[str, Any]]:
    out = []
    for fs in sorted(s.get_all_studies(), key=lambda fs: fs._study_id):
        ts = s.get_all_trials(fs._study_id, deepcopy=False)
        # "times": exact timestamps, compared between real views only (the model keeps presence/absence)
        out.append({"study": K.canon_study(fs, fs._study_id), "trials": [K.canon_trial(t, t._trial_id) for t in ts], "times": _exact_times(ts)})
    return out


def no_times(d: list[dict[str, Any]]) -> list[dict[str, Any]]:
    return [{k: v for k, v in x.items() if k != "times"} for x in d]


class Disagree(Exception):
    def __init__(self, kind: str, why: str) -> None:
        super().__init__(why)
        self.kind = kind  # "property" (real views differ) | "model" (model vs real) | "gen" (generated handlers vs hand model)


def run_case(cfg: str, tmp: str, seed: int, n_workers: int, n_ops: int, drv: core.Driver, plan: dict[str, Any] | None = None,
             property_only: bool = False) -> dict[str, Any]:
    """One history.  Returns stats; raises Disagree.  `property_only` (failing-input search): a difference between model
    and implementation is remembered but does not end the history, so that the model-independent oracles (views of the
    real workers equal, a rejected call changes nothing, replay gets past every record, ...) see all of it."""
    r = random.Random(seed)
    h = fleet.make(cfg, tmp)
    workers = [h.storage] + [h.peer() for _ in range(n_workers - 1)]
    reader = h.peer()._backend
    wid = [w._replay_result.worker_id for w in workers]
    drv.ask({"cmd": "reset"})
    ex0 = K.Exec(workers[0])
    execs = [ex0] + [K.Exec(w, share=ex0) for w in workers[1:]]
    gdrv_state = K.Gen(r, max_trials=8)
    n_known = 0
    stats = {"rejected": 0, "records": 0, "workers_in_log": set(), "ops": [], "gen": None, "model": None, "front": None, "front_n": 0}
    ops_log: list[Any] = []
    new_recs: list[Any] = []  # driver-encoded records pulled since the last call began

    def gen_check(resp: Any, where: str) -> Any:
        """the interpreter of the handlers generated from the source must agree with the hand model on every record;
        a difference is remembered (reported when the case ends) but does not cut the case short: the property oracles
        below must still see the rest of the history"""
        d = c06_gen.gen_disagreement(resp)
        if d is not None and stats["gen"] is None:
            stats["gen"] = "%s: interpreter of the generated handlers and the hand model differ: %s" % (where, json.dumps(d, sort_keys=True)[:900])
        return resp

    def model_fail(why: str) -> None:
        if not property_only:
            raise Disagree("model", why)
        if stats["model"] is None:
            stats["model"] = why

    def pull() -> None:
        nonlocal n_known
        for log in reader.read_logs(n_known):
            n_known += 1
            stats["records"] += 1
            stats["workers_in_log"].add(log["worker_id"])
            enc = rec_to_driver(log)
            new_recs.append(enc)
            resp = drv.ask({"cmd": "append", "rec": enc})
            if resp.get("k") != "ok" and not property_only:
                raise core.DriverBroken("driver rejected a record read from the real log: %s / %s" % (json.dumps(log, default=str)[:300], resp))

    def compare_views(where: str) -> None:
        real = [dump_storage(w) for w in workers]
        for i in range(1, len(real)):
            if real[i] != real[0]:
                raise Disagree("property", "%s: worker %d and worker 0 hold different states after reading the same log: %s / %s" % (
                    where, i, json.dumps(real[i], sort_keys=True)[:500], json.dumps(real[0], sort_keys=True)[:500]))
        pull()
        for i, w in enumerate(workers):
            gen_check(drv.ask({"cmd": "sync", "worker": wid[i]}), where)
            m = K.strip_model(drv.ask({"cmd": "dump", "worker": wid[i]})["state"])
            if m != no_times(real[i]):
                model_fail("%s: model replica of worker %d differs from the real one: %s / %s" % (
                    where, i, json.dumps(m, sort_keys=True)[:500], json.dumps(real[i], sort_keys=True)[:500]))

    try:
        for step in range(n_ops):
            i = r.randrange(n_workers)
            op = gdrv_state.next(multi_objective=True)
            before = None
            if r.random() < 0.15:
                j = r.randrange(n_workers)
                before = (j, dump_storage(workers[j]))
            op_real = dict(op)  # the call with the storage's own ids, for the front-end check
            if "sid" in op_real:
                op_real["sid"] = execs[i].rs(op["sid"])
            if "tid" in op_real:
                op_real["tid"] = execs[i].rt(op["tid"])
            del new_recs[:]
            obs = execs[i].run(op)
            ops_log.append([i, op])
            pull()
            m = gen_check(drv.ask({"cmd": "sync", "worker": wid[i]}), "step %d" % step)
            if stats["front"] is None and op["op"] in K.MUTATING and len(new_recs) == 1:
                # the record the GENERATED front end builds for this call = the record the real call wrote; its return expression too
                obs_real = dict(obs)
                if obs.get("k") == "id":
                    obs_real["n"] = (execs[i].s2r if op["op"] == "createStudy" else execs[i].t2r)[obs["n"]]
                stats["front_n"] += 1
                why = c06_front.front_check(drv, wid[i], op_real, new_recs[0], obs_real)
                if why is not None:
                    stats["front"] = "step %d %s by worker %d: %s" % (step, json.dumps(op)[:200], i, why)
            # feedback for the generator (ids advance on success)
            gdrv_state.feedback(op, obs)
            mutating = op["op"] in K.MUTATING
            if mutating:
                real_err = obs["e"] if obs["k"] == "err" else None
                if real_err is not None:
                    stats["rejected"] += 1
                if m["err"] != real_err:
                    model_fail("step %d %s by worker %d: model raises %s at the issuer, implementation %s" % (step, json.dumps(op)[:200], i, m["err"], real_err))
                if op["op"] == "createTrial" and obs["k"] == "id":
                    real_id = execs[i].t2r[obs["n"]]
                    if m["lastCreated"] != real_id:
                        model_fail("step %d create_new_trial returned id %s, model %s" % (step, real_id, m["lastCreated"]))
                if op["op"] == "setTrialStateValues" and obs["k"] == "bool":
                    tid = execs[i].rt(op["tid"])
                    answer = not (op["state"] == 0 and m["ownedByMe"] != tid)
                    if answer != obs["b"]:
                        model_fail("step %d set_trial_state_values(%s) answered %s, model %s" % (step, json.dumps(op)[:150], obs["b"], answer))
                if before is not None and real_err is not None:
                    j, d0 = before
                    d1 = dump_storage(workers[j])
                    if d0 != d1:
                        raise Disagree("property", "step %d: the call %s was rejected with %s at worker %d but changed the state seen by worker %d" % (step, json.dumps(op)[:200], real_err, i, j))
            if r.random() < 0.12:
                compare_views("after step %d" % step)
        compare_views("at the end")
        pull()
        n = n_known
        final = dump_storage(workers[0])
        # (1) fresh worker
        fresh = h.peer()
        if dump_storage(fresh) != final:
            raise Disagree("property", "a fresh worker replaying the whole log sees a different state")
        # (2) replay in arbitrary batches under the identity of an existing worker (its rejected records raise again)
        logs = reader.read_logs(0)
        k = r.randrange(n_workers)
        cuts = sorted({r.randrange(n + 1) for _ in range(r.randrange(1, 5))} | {n})
        rr = JournalStorageReplayResult(workers[k]._worker_id_prefix)
        errors = 0
        pos = 0
        for c in cuts:
            while rr.log_number_read < c:
                before_cursor = rr.log_number_read
                try:
                    rr.apply_logs(logs[rr.log_number_read:c])
                except Exception:
                    errors += 1
                    if rr.log_number_read == before_cursor:
                        raise Disagree("property", "replay as worker %d cannot get past record %d: the same rejected record raises again on every sync" % (k, before_cursor))
        if dump_replay_result(rr) != final:
            raise Disagree("property", "replaying the same log in batches %s as worker %d gives a different state" % (cuts, k))
        m = gen_check(drv.ask({"cmd": "replay", "worker": wid[k], "cuts": cuts}), "batch replay")
        if K.strip_model(m["rep"]["state"]) != no_times(final) or m["errors"] != errors:
            model_fail("batch replay: model (errors=%s) vs implementation (errors=%d) differ" % (m.get("errors"), errors))
        # (3) snapshot at a random position + tail, restored by a fresh worker
        at = r.randrange(n + 1)
        by = r.randrange(n_workers)
        rr2 = JournalStorageReplayResult(workers[by]._worker_id_prefix)
        while rr2.log_number_read < at:
            before_cursor = rr2.log_number_read
            try:
                rr2.apply_logs(logs[rr2.log_number_read:at])
            except Exception:
                if rr2.log_number_read == before_cursor:
                    raise Disagree("property", "replay cannot get past record %d: the same rejected record raises again on every sync" % before_cursor)
        snap = pickle.dumps(rr2)
        st = h.peer()
        with st._thread_lock:
            st.restore_replay_result(snap)
            st._sync_with_backend()
        if dump_storage(st) != final:
            raise Disagree("property", "restoring a snapshot taken after %d records and replaying the tail gives a different state" % at)
        m = gen_check(drv.ask({"cmd": "snapshot", "worker": "fresh-worker", "by": wid[by], "at": at}), "snapshot+tail")
        if K.strip_model(m["rep"]["state"]) != no_times(final):
            model_fail("snapshot+tail: model differs from implementation (at=%d)" % at)
        stats["ops"] = ops_log
        stats["cuts"] = cuts
        stats["snapshot_at"] = at
        if stats["model"] is not None:
            raise Disagree("model", stats["model"])
        if stats["gen"] is not None:
            raise Disagree("gen", stats["gen"])
        if stats["front"] is not None:
            raise Disagree("front", stats["front"])
        return stats
    except Disagree as d:
        d.ops = ops_log  # type: ignore[attr-defined]
        raise
    finally:
        h.close()


def _worker(args: tuple[str, list[tuple[int, int, int]], str, bool]) -> list[dict[str, Any]]:
    cfg, cases, tmp, property_only = args
    drv = core.Driver(c06_front.DRIVER)
    out = []
    try:
        for seed, nw, nops in cases:
            try:
                st = run_case(cfg, tmp, seed, nw, nops, drv, property_only=property_only)
                out.append({"seed": seed, "nw": nw, "nops": nops, "ok": True, "rejected": st["rejected"], "records": st["records"],
                            "nwork": len(st["workers_in_log"]), "front_n": st["front_n"], "sample": st["ops"][:12], "cuts": st["cuts"], "snapshot_at": st["snapshot_at"]})
            except Disagree as d:
                out.append({"seed": seed, "nw": nw, "nops": nops, "ok": False, "kind": d.kind, "why": str(d), "ops": getattr(d, "ops", [])})
            except core.DriverBroken as e:
                out.append({"seed": seed, "nw": nw, "nops": nops, "ok": False, "kind": "driver", "why": str(e)[:600], "ops": []})
            except K.IdReuse as e:
                out.append({"seed": seed, "nw": nw, "nops": nops, "ok": False, "kind": "property", "why": "a worker handed out an id twice: %s" % e, "ops": []})
            except Exception as e:  # noqa: BLE001 - a read (get_all_studies/get_all_trials/sync) raised at some worker
                import traceback
                out.append({"seed": seed, "nw": nw, "nops": nops, "ok": False, "kind": "property",
                            "why": "a worker's read/sync raised %s: %s | %s" % (type(e).__name__, str(e)[:200], traceback.format_exc()[-400:]), "ops": []})
    finally:
        drv.close()
    return out


def explore(chk: core.Check, cfgs: list[str], n_cases: int, max_ops: int, property_only: bool = False) -> None:
    import multiprocessing as mp

    jobs = []
    for ci, cfg in enumerate(cfgs):
        cases = [(chk.seed * 100003 + ci * 10007 + i, chk.rng.randint(2, 4), chk.rng.randint(8, max_ops)) for i in range(n_cases)]
        # split each configuration over two processes
        jobs.append((cfg, cases[::2], chk.tmp, property_only))
        jobs.append((cfg, cases[1::2], chk.tmp, property_only))
    with mp.get_context("spawn").Pool(min(len(jobs), 12)) as pool:
        results = pool.map(_worker, jobs)
    for (cfg, _, _, _), res in zip(jobs, results):
        for c in res:
            case = {"cfg": cfg, "seed": c["seed"], "workers": c["nw"], "ops": c["nops"]}
            if property_only:
                case["property_only"] = True
            if c["ok"]:
                chk.case(dict(case, first_ops=c["sample"], cuts=c["cuts"], snapshot_at=c["snapshot_at"]), nontrivial=c["rejected"] >= 1 and c["nwork"] >= 2)
                chk.count("cases:" + cfg)
                chk.count("records", c["records"])
                chk.count("rejected_records", c["rejected"])
                chk.count("front-end calls checked (record + answer)", c["front_n"])
                chk.traces_validated += 1
            elif c["kind"] == "property":
                chk.violation({"backend": cfg, "kind": "views-differ"}, dict(case, history=c["ops"]), c["why"])
            else:
                chk.broke("correspondence", dict(case, why=c["why"], history=c["ops"][-6:]))


def check_opcodes(chk: core.Check) -> None:
    real = {m.name: int(m.value) for m in JournalOperation}
    chk.translated.append("JournalOperation = %s" % json.dumps(real, sort_keys=True))
    if real != OPCODES:
        chk.broke("translation", {"JournalOperation": real, "model_assumes": OPCODES})


def threaded_snapshot(chk: core.Check, rounds: int) -> None:
    """Several THREADS share one JournalStorage on a snapshot-capable backend (fakeredis) and create trials across an id that
    is a multiple of the snapshot interval, so a snapshot is pickled while other threads' syncs go on.  Every snapshot that
    was saved must describe a log prefix: a fresh worker that starts from the saved snapshot and replays the tail must see
    exactly what a worker replaying the whole log sees (trial ids, numbers, states)."""
    import sys
    import threading as _th

    import fakeredis
    import optuna
    from optuna.storages import JournalStorage
    from optuna.storages.journal import JournalRedisBackend
    from optuna.study import StudyDirection

    old_switch = sys.getswitchinterval()
    sys.setswitchinterval(1e-5)
    try:
        for it in range(rounds):
            server = fakeredis.FakeServer()

            def mk() -> Any:
                b = JournalRedisBackend("redis://localhost")
                b._redis = fakeredis.FakeStrictRedis(server=server)
                return JournalStorage(b)

            shared = mk()
            saved: list[bytes] = []
            real_save = shared._backend.save_snapshot

            def recording_save(snapshot: bytes, _real: Any = real_save, _saved: list[bytes] = saved) -> None:
                _saved.append(snapshot)
                _real(snapshot)

            shared._backend.save_snapshot = recording_save  # type: ignore[method-assign]
            sid = shared.create_new_study([StudyDirection.MINIMIZE], "s")
            # finished template trials with parameters: pickling them runs Python-level __reduce_ex__ code (enums,
            # distributions), i.e. offers thread switch points in the middle of a snapshot
            tmpl = optuna.trial.create_trial(params={"x": 0.5, "c": "a"}, value=0.25, user_attrs={"k": -1},
                                             distributions={"x": optuna.distributions.FloatDistribution(0.0, 1.0),
                                                            "c": optuna.distributions.CategoricalDistribution(["a", "b"])})
            for _ in range(93 + it % 5):
                shared.create_new_trial(sid, tmpl)
            errs: list[str] = []
            progress = [0]

            def work() -> None:
                try:
                    for j in range(55):
                        t = shared.create_new_trial(sid, tmpl if j % 2 else None)
                        progress[0] += 1
                        if j % 2 == 0:
                            shared.set_trial_user_attr(t, "k", 1)
                except Exception as e:  # noqa: BLE001
                    errs.append("%s: %s" % (type(e).__name__, str(e)[:120]))

            # the snapshot is pickled through a proxy that first gives the OTHER threads 50 ms to get a whole
            # create_new_trial through: impossible while the pickling thread holds the storage's lock (as it does today)
            import pickle as _pickle
            import time as _time

            import optuna.storages.journal._storage as _js

            class _PickleProxy:
                def __getattr__(self, name: str) -> Any:
                    return getattr(_pickle, name)

                def dumps(self, obj: Any, *a: Any, **k: Any) -> bytes:
                    before, deadline = progress[0], _time.time() + 0.05
                    while progress[0] == before and _time.time() < deadline:
                        _time.sleep(0.001)
                    return _pickle.dumps(obj, *a, **k)

            saved_pickle = _js.pickle
            _js.pickle = _PickleProxy()  # type: ignore[assignment]
            ths = [_th.Thread(target=work) for _ in range(4)]
            try:
                for t in ths:
                    t.start()
                for t in ths:
                    t.join(120)
            finally:
                _js.pickle = saved_pickle
            chk.case({"part": "threaded-snapshot", "it": it, "snapshots": len(saved)}, nontrivial=len(saved) > 0)
            chk.count("threaded-snapshot")
            chk.count("threaded-snapshot:snapshots-saved", len(saved))
            if errs:
                chk.violation({"kind": "threaded-snapshot-raised"}, {"part": "threaded-snapshot", "errors": errs[:3]}, "threads sharing one JournalStorage raised: %s" % errs[0])
                return
            plain = mk()
            plain._backend.load_snapshot = lambda: None  # type: ignore[method-assign]
            full = JournalStorage(plain._backend)  # replays the whole log
            b = [(t._trial_id, t.number, int(t.state)) for t in full.get_all_trials(sid, deepcopy=False)]
            for si, snap in enumerate(saved):
                w = mk()
                w._backend.load_snapshot = lambda _s=snap: _s  # type: ignore[method-assign]
                from_snapshot = JournalStorage(w._backend)     # starts from THIS snapshot and replays the tail
                a = [(t._trial_id, t.number, int(t.state)) for t in from_snapshot.get_all_trials(sid, deepcopy=False)]
                if a != b:
                    d = next((i for i, (x, y) in enumerate(zip(a, b)) if x != y), min(len(a), len(b)))
                    chk.violation({"kind": "snapshot-plus-tail-differs", "scenario": "threaded-snapshot"}, {"part": "threaded-snapshot", "it": it, "snapshot": si},
                                  "journal over a snapshot backend, 4 threads on one storage: a worker restored from saved snapshot #%d + tail sees %d trials, a full replay %d; first difference at position %d: %s / %s" % (
                                      si, len(a), len(b), d, a[d:d + 2], b[d:d + 2]))
                    return
    finally:
        sys.setswitchinterval(old_switch)


def search(chk: core.Check) -> None:
    """Failing-input search after a breakage: many more histories, property oracle only matters."""
    chk.search_log.append("searching 3x more histories for a real-vs-real divergence")
    explore(chk, ["journal-symlink", "journal-redis"], 120, 80, property_only=True)


def replay_time_probe(chk: core.Check) -> None:
    """Replay must be a function of the log alone.  Storage-level `create_new_trial` accepts templates that Study.add_trial
    never builds: a finished template WITHOUT datetime_complete (and a WAITING one without datetime_start).  Whatever a
    replica does with the missing time, every replica must do the same: the issuer, a second worker that replays later,
    a fresh replay and snapshot + tail are compared on the exact timestamps of every trial (a handler that fills in
    `datetime.now()` at replay time gives each replica its own)."""
    import datetime as dt
    import pickle
    import time as _time

    from optuna.storages import JournalStorage
    from optuna.storages.journal import JournalFileBackend
    from optuna.study import StudyDirection
    from optuna.trial import FrozenTrial, TrialState

    path = os.path.join(chk.tmp, "replay_time_%d.log" % os.getpid())
    a = JournalStorage(JournalFileBackend(path))
    sid = a.create_new_study([StudyDirection.MINIMIZE], "s")
    templates = []
    for st, val in ((TrialState.COMPLETE, 1.0), (TrialState.PRUNED, None), (TrialState.FAIL, None), (TrialState.WAITING, None), (TrialState.RUNNING, None)):
        templates.append(FrozenTrial(number=-1, trial_id=-1, state=st, value=val, values=None, datetime_start=None if st == TrialState.WAITING else dt.datetime(2024, 1, 2, 3, 4, 5),
                                     datetime_complete=None, params={}, distributions={}, user_attrs={}, system_attrs={}, intermediate_values={}))
    snap = None
    for i, t in enumerate(templates):
        a.create_new_trial(sid, template_trial=t)
        if i == 1:
            snap = pickle.dumps(a._replay_result)
    _time.sleep(0.02)
    b = JournalStorage(JournalFileBackend(path))
    _time.sleep(0.02)
    c = JournalStorage(JournalFileBackend(path))
    if snap is not None and hasattr(c, "restore_replay_result"):
        c.restore_replay_result(snap)
    views = {}
    for name, stg in (("issuer", a), ("second worker", b), ("snapshot + tail", c), ("fresh replay", JournalStorage(JournalFileBackend(path)))):
        views[name] = _exact_times(stg.get_all_trials(sid, deepcopy=False))
    chk.case({"part": "replay-time"}, nontrivial=True)
    chk.count("replay-time")
    if len({json.dumps(v) for v in views.values()}) != 1:
        chk.violation({"kind": "replay-time", "backend": "journal-file"}, {"part": "replay-time", "views": views},
                      "journal: the replicas of one log disagree on the timestamps of trials created from templates without datetime_complete / "
                      "datetime_start (replay is not a function of the log): %s" % json.dumps(views)[:500])


def main(chk: core.Check) -> int:
    chk.rule = RULE
    c06_gen.regenerate(chk)  # T-journal: Generated/JournalHandlers.lean from journal/_storage.py
    c06_front.regenerate(chk)  # T-journalfront: Generated/JournalFront.lean (the public methods of JournalStorage)
    if not getattr(chk, "no_prove", False):
        chk.prove(["OptunaVerif.Props.C06", c06_gen.MODULE, c06_front.MODULE, "OptunaVerif.Props.C06Run", "OptunaVerif.Props.C06Redis"])
        c06_gen.explain_proof_failure(chk)
        c06_front.explain_proof_failure(chk)
    check_opcodes(chk)
    quick = chk.tier == "quick"
    try:
        core.ensure_driver()
        cfgs = ["journal-symlink", "journal-open", "journal-redis"]
        explore(chk, cfgs, 150 if quick else 2500, 60 if quick else 200)
        c06_gen.differential(chk, 60 if quick else 1500, 40)
        c06_front.replay_witnesses(chk)
    except core.DriverBroken as e:
        chk.broke("correspondence", {"driver": str(e)[:800]})
    threaded_snapshot(chk, 4 if chk.tier == "quick" else 40)
    replay_time_probe(chk)
    c06_redis.correspond(chk, chk.tier)  # the Redis backend command by command against Model/JournalRedis.lean
    chk.assumptions += ["pickle round trip of JournalStorageReplayResult is faithful (exercised, not proved)",
                        "fakeredis stands for Redis", "the model consumes the records as re-encoded by rec_to_driver (floats -> exact rationals)"]
    return chk.finish(search=search)


def replay(chk: core.Check, path: str) -> int:
    w = json.load(open(path))["witness"]
    if w.get("part") == "redis":
        return c06_redis.replay_case(chk, w)
    c06_gen.regenerate(chk)  # the driver links the handlers generated from the tree under test
    c06_front.regenerate(chk)
    core.ensure_driver()
    drv = core.Driver(c06_front.DRIVER)
    try:
        run_case(w["cfg"], chk.tmp, w["seed"], w["workers"], w["ops"], drv, property_only=bool(w.get("property_only")))
    except Disagree as d:
        print("REPRODUCED (%s): %s" % (d.kind, d))
        return 1
    except core.DriverBroken:
        raise
    except K.IdReuse as e:
        print("REPRODUCED (property): a worker handed out an id twice: %s" % e)
        return 1
    except Exception as e:  # noqa: BLE001 - same classification as _worker: a read / sync of some worker raised
        print("REPRODUCED (property): a worker's read/sync raised %s: %s" % (type(e).__name__, str(e)[:200]))
        return 1
    finally:
        drv.close()
    print("not reproduced")
    return 0
