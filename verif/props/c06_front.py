"""C06, translator tie of the journal FRONT END: the public methods of JournalStorage as written in the source today -> Lean data
(Generated/JournalFront.lean) -> proved to build the records of Model/Journal.lean, to touch the replay result only inside the
lock after write+sync, and to return the contract's answers (Props/C06FrontGen.lean).

regenerate(chk)              run verif/translators/tjournalfront.py on core.REPO, write the generated file (only when changed), record
                             what was read, report every untranslatable method as chk.broke("translation", ...).
MODULE                       "OptunaVerif.Props.C06FrontGen" (add to chk.prove([...]))
explain_proof_failure(chk)   names the declarations of Props/C06FrontGen.lean that no longer check
DRIVER                       "journalfront": the protocol of `journalgen` plus the command `front`
front_check(drv, wid, op_real, rec, obs_real)  -> None | str : the record the GENERATED front end builds for the call equals the record
                             the real JournalStorage wrote (as re-encoded by c06.rec_to_driver), and the generated return expression,
                             evaluated on the model replica of that worker, equals what the real call returned

Used by verif/props/c06.py (helper module, like c06_gen.py).
"""
from __future__ import annotations

import json
import os
import re
from typing import Any

from verif import core
from verif import storage_k as K
from verif.translators import tjournalfront

OUT = os.path.join(core.LEAN_DIR, "OptunaVerif", "Generated", "JournalFront.lean")
MODULE = "OptunaVerif.Props.C06FrontGen"
DRIVER = "journalfront"


def regenerate(chk: core.Check | None = None) -> dict[str, Any] | None:
    try:
        text, info, problems = tjournalfront.translate(core.REPO)
    except (tjournalfront.Untranslatable, SyntaxError, OSError) as e:
        if chk is None:
            raise
        chk.broke("translation", {"translator": "T-journalfront", "why": str(e)[:600]})
        return None
    changed = core.write_if_changed(OUT, text)
    if chk is not None:
        n_ok = sum(1 for v in info["methods"].values() if v is not None)
        chk.translated.append("JournalFront: %d/%d public methods of JournalStorage (10 writers, 9 getters), __getstate__ drops %s, "
                              "__setstate__ sets %s, restore_replay_result %d assignments%s" % (
                                  n_ok, len(info["methods"]), info["getstateDrops"], [a for a, _ in info["setstateSets"]],
                                  len(info["restoreSets"]), " (file changed)" if changed else ""))
        chk.extra["journal_front"] = {"getstateDrops": info["getstateDrops"], "setstateSets": info["setstateSets"], "restoreSets": info["restoreSets"],
                                      "steps": {k: (None if v is None else [v["before"], v["locked"], v["after"]]) for k, v in info["methods"].items()}}
        for p in problems:
            chk.broke("translation", dict(p, translator="T-journalfront"))
        a = ("T-journalfront: the encodings distribution_to_json / to_internal_repr / isoformat / int(state) are inverted by the handlers' "
             "decodings (C11 for distributions); a template trial has values != [] and its params are the keys of a dict; the name "
             "generated for study_name=None is an abstract string")
        if a not in chk.assumptions:
            chk.assumptions.append(a)
    return info


def explain_proof_failure(chk: core.Check) -> list[str]:
    pr = chk.proof
    if pr is None or pr.ok:
        return []
    rel = MODULE.replace("OptunaVerif.", "").replace(".", "/") + ".lean"
    lines = sorted({int(m.group(1)) for m in re.finditer(re.escape(rel) + r":(\d+):\d+", pr.build_log)})
    if not lines:
        return []
    src = open(os.path.join(core.LEAN_DIR, MODULE.replace(".", "/") + ".lean")).read().splitlines()
    names: list[str] = []
    for ln in lines:
        for i in range(min(ln, len(src)) - 1, -1, -1):
            m = re.match(r"\s*(?:theorem|def|example)\b\s*([^\s:(]*)", src[i])
            if m:
                name = m.group(1) or ("example at line %d: %s" % (i + 1, src[i].strip()[:90]))
                if name not in names:
                    names.append(name)
                break
    chk.extra["c06frontgen_failed"] = names
    chk.broke("proof", {"module": MODULE, "generated_front_end_obligations_failed": names})
    return names


def front_check(drv: core.Driver, wid: str, op_real: dict[str, Any], rec: dict[str, Any] | None, obs_real: dict[str, Any]) -> str | None:
    """`op_real`: the op with the REAL ids; `rec`: the driver-encoded record the call appended (None: nothing appended);
    `obs_real`: what the call returned, ids real ({"k": "id", "n": real id} / {"k": "bool", "b": ..} / {"k": "unit"} / {"k": "err", ..})."""
    resp = drv.ask({"cmd": "front", "worker": wid, "op": K.to_driver(op_real), "rec": rec})
    if resp.get("k") != "front":
        return "driver: %s" % json.dumps(resp)[:200]
    if not resp["rec_ok"]:
        return "the record built by the generated front end (%s, op code %s) is not the record JournalStorage wrote: %s" % (
            "some" if resp["built_some"] else "none", resp["built_code"], json.dumps(rec)[:300])
    if rec is not None and obs_real.get("k") in ("id", "bool", "unit"):
        a = resp["answer"]
        if a is None or a.get("k") != obs_real["k"] or any(a.get(f) != obs_real.get(f) for f in ("n", "b") if f in obs_real):
            return "the generated return expression answers %s, JournalStorage answered %s" % (json.dumps(a)[:120], json.dumps(obs_real)[:120])
    return None


def replay_witnesses(chk: core.Check) -> dict[str, Any]:
    """Replay on the real JournalStorage the concrete histories of the `_witness` theorems of Props/C06FrontGen.lean (what is false on
    today's code) and record what the code does; if the code no longer behaves as the Lean statement says, the witness is stale:
    broke("correspondence")."""
    import os as _os

    import optuna
    from optuna.storages import JournalStorage
    from optuna.storages.journal import JournalFileBackend
    from optuna.study import StudyDirection

    optuna.logging.set_verbosity(optuna.logging.ERROR)
    seen: dict[str, Any] = {}
    # front_create_new_study_deleted_in_between_witness: B's DELETE_STUDY of the id being handed out lands between A's append and A's read
    path = _os.path.join(chk.tmp, "front_witness.log")
    a, b = JournalStorage(JournalFileBackend(path)), JournalStorage(JournalFileBackend(path))
    orig = a._backend.append_logs

    def hooked(logs: list[dict[str, Any]]) -> None:
        orig(logs)
        if logs and logs[0].get("op_code") == 0:
            b.delete_study(0)

    a._backend.append_logs = hooked  # type: ignore[method-assign]
    try:
        out: Any = {"returned": a.create_new_study([StudyDirection.MINIMIZE], "s")}
    except BaseException as e:  # noqa: BLE001 - AssertionError is the observation
        out = {"raised": type(e).__name__, "msg": str(e)[:80]}
    out["studies_seen_by_A"] = [s.study_name for s in a.get_all_studies()]
    seen["front_create_new_study_deleted_in_between_witness"] = out
    if out.get("raised") != "AssertionError":
        chk.broke("correspondence", {"what": "witness front_create_new_study_deleted_in_between_witness of Props/C06FrontGen.lean no longer "
                                             "describes the code", "observed": out})
    chk.extra["front_witnesses"] = seen
    return seen
