"""C06, translator tie: the journal handlers as written in the source today -> Lean data -> proved equal to the hand model.

regenerate(chk)   run verif/translators/tjournal.py on core.REPO, write lean/OptunaVerif/Generated/JournalHandlers.lean
                  (only when the text changed), record what was read in chk.translated / chk.extra, and report every
                  untranslatable method as chk.broke("translation", ...).  Call it BEFORE chk.prove([... "OptunaVerif.Props.C06Gen"]).
DRIVER            name of the sub-driver that speaks the protocol of `journal` and runs the interpreter of the generated
                  handlers side by side with the hand model (field "gen" of every sync / replay / snapshot answer).
gen_disagreement(resp)  -> None | the first record on which generated interpreter and hand model differ.

differential(chk, n_logs, max_len)  seeded synthetic logs (no real storage involved) replayed by both through that driver.

Used by verif/props/c06.py (helper module, like c01_grpc.py for C01).
"""
from __future__ import annotations

import json
import os
from typing import Any

from verif import core
from verif.translators import tjournal

OUT = os.path.join(core.LEAN_DIR, "OptunaVerif", "Generated", "JournalHandlers.lean")
MODULE = "OptunaVerif.Props.C06Gen"
DRIVER = "journalgen"


def regenerate(chk: core.Check | None = None) -> dict[str, Any] | None:
    try:
        text, info, problems = tjournal.translate(core.REPO)
    except (tjournal.Untranslatable, SyntaxError, OSError) as e:
        if chk is None:
            raise
        chk.broke("translation", {"translator": "T-journal", "why": str(e)[:600]})
        return None
    changed = core.write_if_changed(OUT, text)
    if chk is not None:
        n_ok = sum(1 for v in info["handlers"].values() if v is not None)
        chk.translated.append("JournalHandlers: %d/%d methods of JournalStorageReplayResult as IR, %d op codes, %d dispatch arms, cursorFirst=%s%s" % (
            n_ok, len(info["handlers"]), len(info["opcodes"]), len(info["dispatch"]), info["cursorFirst"], " (file changed)" if changed else ""))
        chk.extra["journal_ir"] = {"opcodes": info["opcodes"], "dispatch": info["dispatch"], "cursorFirst": info["cursorFirst"],
                                   "assumed_asserts": info["asserts"],
                                   "statements": {k: (None if v is None else _count(v)) for k, v in info["handlers"].items()}}
        for p in problems:
            chk.broke("translation", dict(p, translator="T-journal"))
        a = "T-journal: the asserts inside the handlers hold and decoding a record's fields (StudyDirection(d), TrialState(..), json_to_distribution, fromisoformat) does not raise on records JournalStorage wrote"
        if a not in chk.assumptions:
            chk.assumptions.append(a)
    return info


def explain_proof_failure(chk: core.Check) -> list[str]:
    """after chk.prove([..., MODULE]) failed: name the declarations of Props/C06Gen.lean whose proof no longer checks
    (the build log only has line numbers); recorded in chk.extra["c06gen_failed"]"""
    import re

    pr = chk.proof
    if pr is None or pr.ok:
        return []
    lines = sorted({int(m.group(1)) for m in re.finditer(r"Props/C06Gen\.lean:(\d+):\d+: error", pr.build_log)}
                   | {int(m.group(1)) for m in re.finditer(r"error: \S*Props/C06Gen\.lean:(\d+):", pr.build_log)})
    if not lines:
        return []
    src = open(os.path.join(core.LEAN_DIR, MODULE.replace(".", "/") + ".lean")).read().splitlines()
    names: list[str] = []
    for ln in lines:
        name = None
        for i in range(min(ln, len(src)) - 1, -1, -1):
            m = re.match(r"\s*(?:theorem|def|example)\b\s*([^\s:(]*)", src[i])
            if m:
                name = m.group(1) or ("example at line %d: %s" % (i + 1, src[i].strip()[:90]))
                break
        if name and name not in names:
            names.append(name)
    chk.extra["c06gen_failed"] = names
    chk.broke("proof", {"module": MODULE, "generated_handlers_no_longer_equal_hand_model": names})
    return names


def _count(ir: list[Any]) -> int:
    n = 0
    for s in ir:
        n += 1
        if isinstance(s, tuple):
            for x in s[1:]:
                if isinstance(x, list):
                    n += _count(x)
    return n


def gen_disagreement(resp: Any) -> Any:
    """the "gen" field of an answer of the `journalgen` driver (None = generated interpreter and hand model agree)"""
    if isinstance(resp, dict):
        return resp.get("gen")
    return None


# ---- differential on synthetic logs -------------------------------------------------------------------------------
def _random_log(r: Any, n: int) -> list[dict[str, Any]]:
    """driver-encoded records of 2-3 workers with plausible and implausible ids (no real storage involved)"""
    ws = ["w%d" % i for i in range(r.randint(2, 3))]
    out: list[dict[str, Any]] = []
    nstud = ntri = 0
    dist = [{"kind": 0, "log": False, "body": "F"}, {"kind": 0, "log": True, "body": "FL"}, {"kind": 2, "log": False, "body": "C"}]
    for _ in range(n):
        w = r.choice(ws)
        op = 0 if not out else r.choice([0, 0, 1, 2, 3, 4, 4, 4, 4, 5, 5, 5, 6, 6, 6, 6, 7, 7, 8, 8, 9, 9])
        # mostly ids that exist (the next unused one now and then)
        sid = r.randrange(nstud + (r.random() < 0.15)) if nstud else 0
        tid = r.randrange(ntri + (r.random() < 0.15)) if ntri else 0
        rec: dict[str, Any] = {"op": op, "worker": w}
        if op == 0:
            rec.update(name="s%d" % r.randrange(3 + nstud), dirs=[r.choice([1, 2])])
            nstud += 1
        elif op == 1:
            rec.update(sid=sid)
        elif op in (2, 3):
            rec.update(sid=sid, k="k%d" % r.randrange(2), v=json.dumps(r.randrange(3)))
        elif op == 4:
            tm = None
            if r.random() < 0.4:
                st = r.choice([0, 1, 4, 4])
                d = r.choice(dist)
                tm = {"state": st, "values": ["1/2"] if st == 1 else None,
                      "params": [["x", dict(d, internal="1/1")]] if r.random() < 0.5 else [], "user": [], "system": [],
                      "inter": [], "start": st != 4, "complete": st == 1}
            rec.update(sid=sid, tmpl=tm)
            ntri += 1
        elif op == 5:
            rec.update(tid=tid, name=r.choice(["x", "y"]), param=dict(r.choice(dist), internal="3/2"))
        elif op == 6:
            st = r.choice([0, 0, 1, 2, 3, 4])
            rec.update(tid=tid, state=st, values=["1/3"] if st == 1 and r.random() < 0.8 else None)
        elif op == 7:
            rec.update(tid=tid, step=r.randrange(3), v="5/2")
        else:
            rec.update(tid=tid, k="a%d" % r.randrange(2), v=json.dumps(r.randrange(3)))
        out.append(rec)
    return out


def differential(chk: core.Check, n_logs: int, max_len: int) -> None:
    """generated interpreter vs hand model on seeded logs, every worker's view, batches and a snapshot"""
    drv = core.Driver(DRIVER)
    try:
        for i in range(n_logs):
            log = _random_log(chk.rng, chk.rng.randint(4, max_len))
            drv.ask({"cmd": "reset"})
            workers = sorted({x["worker"] for x in log})
            bad = None
            rejected = 0
            for rec in log:
                resp = drv.ask({"cmd": "append", "rec": rec})
                if resp.get("k") != "ok":
                    raise core.DriverBroken("driver rejected %s: %s" % (rec, resp))
                m = drv.ask({"cmd": "sync", "worker": rec["worker"]})
                rejected += m.get("err") is not None
                bad = bad or gen_disagreement(m)
            for w in workers + ["reader"]:
                bad = bad or gen_disagreement(drv.ask({"cmd": "sync", "worker": w}))
            n = len(log)
            cuts = sorted({chk.rng.randrange(n + 1) for _ in range(3)} | {n})
            bad = bad or gen_disagreement(drv.ask({"cmd": "replay", "worker": chk.rng.choice(workers), "cuts": cuts}))
            bad = bad or gen_disagreement(drv.ask({"cmd": "snapshot", "worker": "fresh", "by": chk.rng.choice(workers), "at": chk.rng.randrange(n + 1)}))
            chk.count("gen-differential:logs")
            chk.count("gen-differential:records", n)
            chk.count("gen-differential:rejected", rejected)
            if bad is not None:
                chk.broke("correspondence", {"what": "interpreter of the generated handlers differs from the hand model (Model/Journal.lean)",
                                             "first": bad, "log": log})
                break
    finally:
        drv.close()
