"""C06 / C03 / C01 — the Redis journal backend (`optuna/storages/journal/_redis.py`), command by command.

prove:      Props/C06Redis.lean on Model/JournalRedis.lean (small-step model: every Redis command of `append_logs`,
            `read_logs`, `save_snapshot`, `load_snapshot` is one atomic step of one worker; any number of workers,
            arbitrary interleavings, a worker may die after any command; both `use_cluster` modes).
correspond: the REAL `JournalRedisBackend` objects (one per "process" = thread, 2-3 of them) on ONE `fakeredis` server.
            The `_redis` client attribute of every backend object is replaced (harness-side) by a proxy, so that every
            command is a scheduling point of `verif.sched` (the seeded policy decides who runs next; the schedule is a list
            of thread indices and replays exactly), is logged with its arguments, its answer and the whole key space
            after it, and is a possible crash point (the thread is parked for ever: kill -9).  `time.sleep` inside
            `_redis.py` is virtual.  The event list (call w op | command of w | crash w) is replayed by the compiled Lean
            model; every command, every answer, the key space after every command, every return value of every call and
            the set of readers blocked for ever must be equal.  The named schedules of the Lean theorems (cluster crash
            gap ...) are fetched from the driver and replayed on the real code.
oracle:     independent of the model: store discipline at every step (counter monotone, keys within 0..counter, a key once
            SET never changes, one key per record, non-cluster: no gap ever), every completed read is the slice
            k..m of the final log with m covering every record SET before the read began, acknowledged appends present
            and in order, no call raises, no reader blocks for ever (except at the gap of a writer that died between INCR
            and SET in cluster mode: the liveness finding, reported separately).
"""
from __future__ import annotations

import hashlib
import json
import random
import time as _time
import warnings
from typing import Any

from verif import core, sched

RULE_REDIS = (
    "redis tie: 2-3 JournalRedisBackend objects on one fakeredis server x 1-3 calls each (append of 0-3 records | read from a "
    "random index | save_snapshot | load_snapshot), use_cluster in {False, True}, 4 key prefixes, a seeded schedule with a "
    "scheduling point at every Redis command, in ~45% of the cases one worker dies after a random command; a case is non-trivial "
    "when a read overlapped an append of another worker in time, or a reader met an absent key, or a worker died inside a call; "
    "distinct by SHA-1 of (mode, programs, events)"
)

PREFIXES = ["", "study", "a:b", "x y%d"]
SNAP_BASE = 900


class Stuck(BaseException):
    """raised inside a reader that can never make progress (every live thread polls an absent key)"""


class World:
    """One fakeredis server + what the harness knows about the run."""

    def __init__(self, s: sched.Sched, prefix: str, crash: tuple[int, int] | None, director: list[list[Any]] | None = None) -> None:
        import fakeredis

        self.s = s
        # a list of model events (["call", w, op] | ["s", w]) the run has to follow while it lasts (named scenarios)
        self.director = [list(e) for e in director if e[0] != "c"] if director else None
        self.prefix = prefix
        self.server = fakeredis.FakeServer()
        self.raw = fakeredis.FakeStrictRedis(server=self.server)
        self.crash = crash  # (thread, index of the command after which it dies)
        # a slow writer: now and then a worker is held back between INCR and SET (cluster mode), so that readers meet the gap
        self.stall_rng: random.Random | None = None
        self.counts: dict[int, int] = {}
        self.events: list[list[Any]] = []
        self.obs: list[dict[str, Any]] = []
        self.rec_ids: dict[str, int] = {}  # canonical JSON of a record -> id
        self.snap_ids: dict[bytes, int] = {}
        self.crashed: int | None = None
        self.sleeping: dict[int, str | None] = {}
        self.last_get: dict[int, str] = {}
        self.last_cmd_event: dict[int, int] = {}
        # keys of somebody else on the same server: must never be touched
        self.foreign = {"other:log_number": b"7", "other:log:0": b"{}", "otherstudy:snapshot": b"zz", "log_number": b"3"}
        for k, v in self.foreign.items():
            self.raw.set(k, v)

    # ---- canonical forms ---------------------------------------------------------------------
    def ckey(self) -> str:
        return "%s:log_number" % self.prefix

    def skey(self) -> str:
        return "%s:snapshot" % self.prefix

    def rec_id(self, payload: Any) -> Any:
        try:
            if isinstance(payload, bytes):
                payload = payload.decode()
            d = json.loads(payload)
            return self.rec_ids.get(core.canon(d), "unknown-record:%s" % str(payload)[:60])
        except Exception:  # noqa: BLE001
            return "garbage:%r" % (payload,)

    def snap_id(self, b: Any) -> Any:
        if b is None:
            return None
        return self.snap_ids.get(bytes(b), "unknown-snapshot:%r" % (b,)) if isinstance(b, (bytes, bytearray)) else "not-bytes:%r" % (b,)

    def classify(self, key: Any) -> tuple[str, Any]:
        if isinstance(key, bytes):
            key = key.decode()
        if key == self.ckey():
            return "counter", None
        if key == self.skey():
            return "snapshot", None
        lp = "%s:log:" % self.prefix
        if isinstance(key, str) and key.startswith(lp):
            try:
                return "log", int(key[len(lp):])
            except ValueError:
                pass
        return "other", key

    def state(self) -> dict[str, Any]:
        c = self.raw.get(self.ckey())
        logs = []
        extra = []
        for k in self.raw.keys():
            kind, n = self.classify(k)
            if kind == "log":
                logs.append([n, self.rec_id(self.raw.get(k))])
            elif kind == "other":
                ks = k.decode()
                if ks not in self.foreign:
                    extra.append(ks)
                elif self.raw.get(k) != self.foreign[ks]:
                    extra.append("foreign key changed: " + ks)
        for ks in self.foreign:
            if not self.raw.exists(ks):
                extra.append("foreign key deleted: " + ks)
        st: dict[str, Any] = {"counter": None if c is None else _int(c), "logs": sorted(logs), "snap": self.snap_id(self.raw.get(self.skey()))}
        if extra:
            st["extra_keys"] = sorted(extra)
        return st

    def canon_cmd(self, name: str, a: tuple[Any, ...], k: dict[str, Any], res: Any) -> dict[str, Any]:
        other = {"call": "other:%s" % name, "args": repr((a, k))[:200], "res": repr(res)[:80]}
        try:
            if name == "setnx" and len(a) == 2 and not k and self.classify(a[0])[0] == "counter":
                return {"call": "setnx", "val": _int(a[1]), "res": bool(res)}
            if name == "eval" and len(a) == 4 and not k and a[1] == 0 and a[2] == self.prefix:
                return {"call": "eval", "rec": self.rec_id(a[3]), "res": res}
            if name == "incr" and not k and self.classify(a[0])[0] == "counter" and (len(a) == 1 or (len(a) == 2 and a[1] == 1)):
                return {"call": "incr", "res": _int(res)}
            if name == "set" and len(a) == 2 and not k:
                kind, n = self.classify(a[0])
                if kind == "log":
                    return {"call": "set", "n": n, "rec": self.rec_id(a[1]), "res": bool(res)}
                if kind == "snapshot":
                    return {"call": "set_snapshot", "val": self.snap_id(a[1]), "res": bool(res)}
            if name == "get" and len(a) == 1 and not k:
                kind, n = self.classify(a[0])
                if kind == "counter":
                    return {"call": "get_counter", "res": None if res is None else _int(res)}
                if kind == "log":
                    return {"call": "get_log", "n": n, "res": None if res is None else self.rec_id(res)}
                if kind == "snapshot":
                    return {"call": "get_snapshot", "res": self.snap_id(res)}
        except Exception as e:  # noqa: BLE001
            other["why"] = "%s: %s" % (type(e).__name__, e)
        return other

    # ---- thread side -------------------------------------------------------------------------
    def me(self) -> int | None:
        return getattr(self.s.tl, "i", None)

    def turn(self, t: int, kind: str) -> None:
        """wait until the directed event list says it is this thread's turn to start a call / issue a command"""
        while self.director:
            h = self.director[0]
            if h[1] != t and h[1] not in self.s.alive:
                self.director.pop(0)
            elif h[1] == t:
                if (h[0] == "call") == (kind == "call"):
                    self.director.pop(0)
                else:
                    self.director = None  # the code does not do what the model's schedule expects: run freely from here on
                return
            else:
                self.s.yield_(t, blocked=True)

    def command(self, name: str, a: tuple[Any, ...], k: dict[str, Any], do: Any) -> Any:
        t = self.me()
        if t is None:
            return do()
        self.s.yield_(t)
        self.turn(t, "s")
        if self.stall_rng is not None and name == "set" and a and self.classify(a[0])[0] == "log" and self.stall_rng.random() < 0.4:
            for _ in range(self.stall_rng.randint(1, 4)):
                if len(self.s.alive) > 1:
                    # (under the PCT policy a blocked thread of low priority would never be picked again while a reader of
                    # higher priority polls: there the stall is a plain scheduling point)
                    self.s.yield_(t, blocked=self.s.pct is None)
        self.sleeping.pop(t, None)
        n = self.counts.get(t, 0)
        self.counts[t] = n + 1
        if name == "get" and a:
            self.last_get[t] = a[0].decode() if isinstance(a[0], bytes) else a[0]
        exc = None
        res = None
        try:
            res = do()
        except Exception as e:  # noqa: BLE001 - the command failed inside Redis: part of the observation
            exc = e
        o = self.canon_cmd(name, a, k, res)
        if exc is not None:
            o["exc"] = "%s: %s" % (type(exc).__name__, str(exc)[:120])
        o["t"] = t
        o.update(self.state())
        self.events.append(["s", t])
        self.obs.append(o)
        self.last_cmd_event[t] = len(self.obs) - 1
        if self.crash is not None and self.crash == (t, n):
            self.die(t)
        if exc is not None:
            raise exc
        return res

    def die(self, t: int) -> None:
        self.crashed = t
        self.events.append(["c", t])
        self.obs.append({"call": "crash", "t": t})
        self.s.park_forever()

    def sleep(self, secs: float) -> None:
        t = self.me()
        if t is None:
            return
        self.sleeping[t] = self.last_get.get(t)
        # nothing can ever change again: every live thread is a reader asleep on a key that is absent right now
        if all(u in self.sleeping and self.sleeping[u] is not None and self.raw.get(self.sleeping[u]) is None for u in self.s.alive):
            raise Stuck()
        self.s.yield_(t, blocked=True)


def _int(x: Any) -> Any:
    try:
        return int(x)
    except Exception:  # noqa: BLE001
        return "not-an-int:%r" % (x,)


class RedisProxy:
    """stands where `self._redis` is: every command goes through `World.command`"""

    def __init__(self, world: World, inner: Any) -> None:
        self._w = world
        self._inner = inner

    def __getattr__(self, name: str) -> Any:
        target = getattr(self._inner, name)
        if not callable(target):
            return target

        def call(*a: Any, **k: Any) -> Any:
            return self._w.command(name, a, k, lambda: target(*a, **k))

        return call


class TimeProxy:
    def __init__(self, world: World) -> None:
        self._w = world

    def sleep(self, secs: float) -> None:
        self._w.sleep(secs)

    def __getattr__(self, name: str) -> Any:
        return getattr(_time, name)


# ---- programs ------------------------------------------------------------------------------------------------------
def gen_progs(r: random.Random, nth: int, max_calls: int = 3) -> list[list[dict[str, Any]]]:
    progs = []
    for t in range(nth):
        acts: list[dict[str, Any]] = []
        n_app = 0
        n_snap = 0
        for _ in range(r.randint(1, max_calls)):
            x = r.random()
            if x < 0.5:
                recs = [{"w": t, "i": n_app + j, "pad": "x" * r.choice([0, 1, 7]), "v": r.choice([None, 1.5, [1, "a"], {"k": "é"}])}
                        for j in range(r.choice([0, 1, 1, 2, 3]))]
                n_app += len(recs)
                acts.append({"a": "append", "recs": recs})
            elif x < 0.88:
                acts.append({"a": "read", "from": r.choice([0, 0, 0, 1, 2, 3, 5])})
            elif x < 0.94:
                acts.append({"a": "save", "snap": "snap-%d-%d" % (t, n_snap)})
                n_snap += 1
            else:
                acts.append({"a": "load"})
        progs.append(acts)
    return progs


def rec_num(rec: dict[str, Any]) -> int:
    return rec["w"] * 100 + rec["i"] + 1


def op_json(w: World, act: dict[str, Any]) -> dict[str, Any]:
    if act["a"] == "append":
        return {"op": "append", "recs": [rec_num(x) for x in act["recs"]]}
    if act["a"] == "read":
        return {"op": "read", "k": act["from"]}
    if act["a"] == "save":
        return {"op": "save", "s": w.snap_ids[act["snap"].encode()]}
    return {"op": "load"}


def run_real(cluster: bool, prefix: str, progs: list[list[dict[str, Any]]], seed: int, crash: tuple[int, int] | None = None,
             schedule: list[int] | None = None, pct: int | None = None, max_steps: int = 6000,
             director: list[list[Any]] | None = None) -> dict[str, Any]:
    """Run the programs (one backend object per thread) on one fakeredis server under `sched`.
    `director`: model events the run follows (who starts a call / issues a command next) for as long as the list lasts."""
    import fakeredis

    import optuna.storages.journal._redis as jr

    warnings.simplefilter("ignore")
    s = sched.Sched(rng=random.Random(seed), schedule=schedule, pct_depth=pct, max_steps=max_steps, trace_prefixes=())
    w = World(s, prefix, crash, director)
    if director is None:
        w.stall_rng = random.Random(seed * 31 + 5)
    for p in progs:
        for act in p:
            if act["a"] == "append":
                for rec in act["recs"]:
                    w.rec_ids[core.canon(rec)] = rec_num(rec)
            elif act["a"] == "save":
                w.snap_ids.setdefault(act["snap"].encode(), SNAP_BASE + len(w.snap_ids))
    backends = []
    for _ in progs:
        b = jr.JournalRedisBackend("redis://localhost", use_cluster=cluster, prefix=prefix)
        b._redis = RedisProxy(w, fakeredis.FakeStrictRedis(server=w.server))
        backends.append(b)
    calls: list[dict[str, Any]] = []
    saved_time = getattr(jr, "time", None)  # a module that no longer sleeps may not import time at all
    jr.time = TimeProxy(w)

    def body(t: int) -> Any:
        def f() -> None:
            for j, act in enumerate(progs[t]):
                w.turn(t, "call")
                rec: dict[str, Any] = {"t": t, "a": act["a"], "inv": len(w.events)}
                w.events.append(["call", t, op_json(w, act)])
                w.obs.append({"call": "call", "t": t})
                calls.append(rec)
                ncmd = w.counts.get(t, 0)
                try:
                    if act["a"] == "append":
                        rec["recs"] = [rec_num(x) for x in act["recs"]]
                        r_ = backends[t].append_logs(act["recs"])
                        rec["ret"] = ["appended"] if r_ is None else ["appended-returned", repr(r_)[:60]]
                    elif act["a"] == "read":
                        rec["from"] = act["from"]
                        r_ = backends[t].read_logs(act["from"])
                        rec["ret"] = ["read", [w.rec_ids.get(core.canon(x), "unknown-record:%s" % core.canon(x)[:60]) for x in r_]]
                        rec["raw_equal"] = all(any(x == y for y in _all_recs(progs)) for x in r_)
                    elif act["a"] == "save":
                        r_ = backends[t].save_snapshot(act["snap"].encode())
                        rec["ret"] = ["saved"] if r_ is None else ["saved-returned", repr(r_)[:60]]
                    else:
                        rec["ret"] = ["loaded", w.snap_id(backends[t].load_snapshot())]
                except Stuck:
                    rec["stuck"] = w.last_get.get(t)
                    return
                except Exception as e:  # noqa: BLE001
                    rec["exc"] = "%s: %s" % (type(e).__name__, str(e)[:160])
                rec["done"] = len(w.events)
                rec["ncmd"] = w.counts.get(t, 0) - ncmd
                # the return value belongs to the last command of the call (or to the call event when there was none)
                at = w.last_cmd_event[t] if rec["ncmd"] > 0 else rec["inv"]
                if "ret" in rec:
                    w.obs[at]["ret"] = rec["ret"]
                elif "exc" in rec:
                    w.obs[at]["ret"] = ["raised", rec["exc"]]

        return f

    try:
        s.run([body(t) for t in range(len(progs))], timeout=60)
    finally:
        if saved_time is None:
            try:
                delattr(jr, "time")
            except AttributeError:
                pass
        else:
            jr.time = saved_time
    out: dict[str, Any] = {"cluster": cluster, "prefix": prefix, "progs": progs, "seed": seed, "crash": list(crash) if crash else None,
                           "events": w.events, "obs": w.obs, "calls": calls, "trace": s.trace, "crashed": w.crashed,
                           "final": w.state(), "n": len(progs), "director": director}
    if isinstance(s.aborted, (sched.StepLimit, sched.Deadlock)):
        out["infra"] = str(s.aborted)
    for t, e in s.errors.items():
        if isinstance(e, (sched.StepLimit, sched.Deadlock)):
            out["infra"] = str(e)
        else:
            out.setdefault("thread_errors", []).append("thread %d: %s: %s" % (t, type(e).__name__, str(e)[:160]))
    return out


def _all_recs(progs: list[list[dict[str, Any]]]) -> list[dict[str, Any]]:
    return [x for p in progs for a in p if a["a"] == "append" for x in a["recs"]]


# ---- the oracle (independent of the model) -----------------------------------------------------------------------------
def oracle(real: dict[str, Any]) -> list[dict[str, Any]]:
    probs: list[dict[str, Any]] = []
    cluster = real["cluster"]
    known = {rec_num(x) for x in _all_recs(real["progs"])}
    states = [(i, o) for i, o in enumerate(real["obs"]) if "counter" in o]
    prev_c: Any = None
    seen: dict[int, Any] = {}
    set_at: dict[Any, int] = {}  # record id -> event index at which it became readable
    num_of: dict[Any, int] = {}
    def add(kind: str, why: str) -> None:
        if len(probs) < 8 and not any(p["kind"] == kind for p in probs):
            probs.append({"kind": kind, "why": why})

    for i, o in states:
        c = o["counter"]
        if o.get("extra_keys"):
            add("foreign-keys", "after event %d the server holds unexpected / modified keys %s" % (i, o["extra_keys"][:4]))
        if not (c is None or isinstance(c, int)):
            add("counter-garbage", "the counter key holds %r after event %d" % (c, i))
            continue
        if prev_c is not None and (c is None or c < prev_c):
            add("counter-went-back", "the counter went from %s to %s at event %d" % (prev_c, c, i))
        if c is not None and c < -1:
            add("counter-garbage", "the counter is %s after event %d" % (c, i))
        prev_c = c
        cur = {n: r for n, r in o["logs"]}
        for n, r in cur.items():
            if c is None or not (0 <= n <= c):
                add("key-outside-counter", "log key %d exists while the counter is %s (event %d)" % (n, c, i))
            if not isinstance(r, int) or r not in known:
                add("foreign-record", "log key %d holds %r, which nobody appended (event %d)" % (n, r, i))
            elif r not in set_at:
                set_at[r] = i
                num_of[r] = n
            elif num_of[r] != n:
                add("duplicate-record", "record %s is stored under the keys %d and %d (event %d)" % (r, num_of[r], n, i))
        for n, r in seen.items():
            if cur.get(n) != r:
                add("record-changed", "log key %d held record %s and holds %s after event %d" % (n, r, cur.get(n), i))
        seen.update(cur)
        if not cluster and c is not None:
            gaps = [n for n in range(0, c + 1) if n not in cur]
            if gaps:
                add("gap", "non-cluster mode: counter %d but the keys %s are absent after event %d" % (c, gaps[:5], i))
    final = {n: r for n, r in real["final"]["logs"]}
    crashed = real["crashed"]
    for c in real["calls"]:
        t = c["t"]
        if "exc" in c:
            probs.append({"kind": "call-raises", "why": "%s by worker %d raised %s" % (c["a"], t, c["exc"])})
            continue
        if c["a"] == "append" and "ret" in c:
            nums = [num_of.get(r) for r in c["recs"]]
            if any(final.get(n) != r for n, r in zip(nums, c["recs"])) or None in nums:
                probs.append({"kind": "lost-append", "why": "acknowledged append %s of worker %d is not in the final log %s" % (c["recs"], t, sorted(final.items()))})
            elif nums != sorted(nums) or len(set(nums)) != len(nums):
                probs.append({"kind": "reordered-append", "why": "records %s of one append got the numbers %s" % (c["recs"], nums)})
        if c["a"] == "read" and "ret" in c:
            res = c["ret"][1]
            k = c["from"]
            want = [final.get(k + j, "absent") for j in range(len(res))]
            if res != want or not c.get("raw_equal", True):
                probs.append({"kind": "read-not-a-slice", "why": "read_logs(%d) of worker %d returned %s; the final log from %d on is %s" % (k, t, res, k, [final.get(k + j, "absent") for j in range(max(len(res), 1) + 1)])})
            else:
                need = [num_of[r] for r, i in set_at.items() if i < c["inv"] and r in num_of]
                short = [n for n in need if n >= k + len(res) and n >= k]
                if short:
                    probs.append({"kind": "read-misses-acked", "why": "read_logs(%d) of worker %d returned %d record(s) although record number(s) %s had been SET before it began" % (k, t, len(res), sorted(short))})
        if "stuck" in c:
            # the only excuse: cluster mode, a writer died between INCR (which returned this very number) and SET
            excuse = False
            kind, n = "other", None
            if c["stuck"] is not None:
                lp = "%s:log:" % real["prefix"]
                if c["stuck"].startswith(lp):
                    try:
                        n = int(c["stuck"][len(lp):])
                    except ValueError:
                        n = None
            if cluster and crashed is not None and n is not None:
                mine = [o for o in real["obs"] if o.get("t") == crashed and "counter" in o]
                excuse = bool(mine) and mine[-1].get("call") == "incr" and mine[-1].get("res") == n
            if excuse:
                c["blocked_by_dead_writer"] = n
            else:
                probs.append({"kind": "reader-blocked", "why": "read_logs(%d) of worker %d polls key %r for ever although no writer died between INCR and SET of that number" % (c.get("from", -1), t, c["stuck"])})
        if c["a"] == "load" and "ret" in c:
            # register semantics: the value of the last SET <snapshot> before this GET
            idx = max((i for i, o in enumerate(real["obs"][: c["done"]]) if o.get("t") == t and o.get("call") == "get_snapshot"), default=None)
            last = None
            if idx is not None:
                for o in real["obs"][:idx]:
                    if o.get("call") == "set_snapshot":
                        last = o["val"]
            if idx is None or c["ret"][1] != last:
                probs.append({"kind": "snapshot", "why": "load_snapshot of worker %d returned %r, the last snapshot saved before it is %r" % (t, c["ret"][1], last)})
    for e in real.get("thread_errors", []):
        probs.append({"kind": "crash", "why": e})
    return probs


# ---- comparison with the model --------------------------------------------------------------------------------------
def model_expect(m: dict[str, Any]) -> dict[str, Any]:
    """what the model's step says the harness must have seen"""
    call = m["call"]
    if call in ("call", "crash"):
        return {"call": call}
    d = {k: m.get(k) for k in ("call", "counter", "logs", "snap") if k in m}
    if call == "setnx":
        d.update(val=-1, res=m["res"])
    elif call == "eval":
        d.update(rec=m["rec"], res=None)
    elif call == "incr":
        d.update(res=m["res"])
    elif call == "set":
        d.update(n=m["n"], rec=m["rec"], res=True)
    elif call in ("get_counter", "get_snapshot"):
        d.update(res=m["res"])
    elif call == "get_log":
        d.update(n=m["n"], res=m["res"])
    elif call == "set_snapshot":
        d.update(val=m["val"], res=True)
    return d


def first_diff(real: dict[str, Any], model: dict[str, Any]) -> dict[str, Any] | None:
    ms = model.get("steps")
    if ms is None or len(ms) != len(real["obs"]):
        return {"why": "model returned %s steps for %d events" % (None if ms is None else len(ms), len(real["obs"])), "model": {k: v for k, v in model.items() if k != "steps"}}
    crashed = real["crashed"]
    for i, (r, m) in enumerate(zip(real["obs"], ms)):
        want = model_expect(m)
        got = {k: v for k, v in r.items() if k not in ("t", "ret")}
        if got != want:
            return {"event": i, "of": len(ms), "ev": real["events"][i], "impl": got, "model": want,
                    "before": [[real["events"][j], real["obs"][j].get("call"), real["obs"][j].get("res")] for j in range(max(0, i - 5), i)]}
        rret, mret = r.get("ret"), m.get("ret")
        if mret is not None and mret[0] == "appended":
            mret = ["appended"]  # (the numbers are checked through the key space after every command)
        if rret != mret:
            # a worker that died right after its last command never returned to its caller
            if rret is None and crashed == r.get("t") and i + 1 < len(real["events"]) and real["events"][i + 1] == ["c", crashed]:
                continue
            return {"event": i, "of": len(ms), "ev": real["events"][i], "field": "return value of the call", "impl": rret, "model": mret}
    stuck_real = sorted(c["t"] for c in real["calls"] if "stuck" in c)
    if stuck_real != model.get("stuck"):
        return {"why": "readers blocked for ever: impl %s, model %s" % (stuck_real, model.get("stuck")), "pcs": model.get("pcs")}
    # everybody else is back in its caller (or dead)
    for t, pc in enumerate(model.get("pcs", [])):
        if t != crashed and t not in stuck_real and pc != ["idle"]:
            return {"why": "worker %d has finished its program, the model has it at %s" % (t, pc)}
    return None


def _req(real: dict[str, Any]) -> dict[str, Any]:
    return {"cluster": real["cluster"], "n": real["n"], "events": real["events"]}


def gen_cases(seed0: int, count: int) -> list[dict[str, Any]]:
    cases = []
    for i in range(count):
        seed = seed0 * 1000003 + 77003 + i
        r = random.Random(seed)
        nth = r.choice([2, 3, 3])
        progs = gen_progs(r, nth)
        case = {"seed": seed, "cluster": bool(i % 2), "prefix": r.choice(PREFIXES), "progs": progs, "pct": r.choice([None, None, 2, 3]), "crash": None}
        if r.random() < 0.45:
            case["crash"] = [r.randrange(nth), r.randrange(0, 7)]
        cases.append(case)
    return cases


def _case_worker(args: list[dict[str, Any]]) -> list[dict[str, Any]]:
    out = []
    for case in args:
        try:
            real = run_real(case["cluster"], case["prefix"], case["progs"], case["seed"], crash=tuple(case["crash"]) if case["crash"] else None, pct=case["pct"])
        except Exception as e:  # noqa: BLE001
            import traceback
            real = {"infra": "%s %s" % (e, traceback.format_exc()[-400:]), "events": [], "obs": [], "cluster": case["cluster"], "n": len(case["progs"])}
        real["pct"] = case["pct"]
        real.pop("backends", None)
        out.append(real)
    return out


def witness_of(real: dict[str, Any]) -> dict[str, Any]:
    return {"part": "redis", "cluster": real["cluster"], "prefix": real.get("prefix"), "progs": real.get("progs"), "seed": real.get("seed"),
            "crash": real.get("crash"), "schedule": real.get("trace"), "pct": real.get("pct"), "director": real.get("director")}


def _gap_is_known(chk: core.Check) -> bool:
    return any(kf.get("property") == chk.pid and kf.get("status") == "open" and kf.get("match", {}).get("kind") == "cluster-crash-gap-blocks-readers"
               for kf in core.load_known_findings())


def compare_batch(chk: core.Check, reals: list[dict[str, Any]], label: str) -> None:
    reals = [r for r in reals if r.get("obs") or "infra" in r]
    todo = [r for r in reals if "infra" not in r]
    models = core.driver_batch("journalredis", [_req(r) for r in todo]) if todo else []
    it = iter(models)
    for real in reals:
        if "infra" in real:
            chk.count("redis:infra")
            chk.extra.setdefault("redis_infra_notes", []).append(str(real["infra"])[:200])
            continue
        model = next(it)
        mode = "cluster" if real["cluster"] else "single"
        reads = [c for c in real["calls"] if c["a"] == "read"]
        apps = [c for c in real["calls"] if c["a"] == "append" and c.get("recs")]
        overlap = any(rd["inv"] < ap.get("done", 10**9) and ap["inv"] < rd.get("done", 10**9) and rd["t"] != ap["t"] for rd in reads for ap in apps)
        missed = any(o.get("call") == "get_log" and o.get("res") is None for o in real["obs"])
        died_inside = real["crashed"] is not None and any(c["t"] == real["crashed"] and "done" not in c for c in real["calls"])
        chk.case({"part": "redis", "mode": mode, "programs": [[a["a"] for a in p] for p in real["progs"]], "events": len(real["events"]),
                  "sha": hashlib.sha1(core.canon([real["cluster"], real["progs"], real["events"]]).encode()).hexdigest()}, nontrivial=overlap or missed or died_inside)
        chk.count("redis%s:%s" % (label, mode))
        chk.traces_validated += 1
        for o in real["obs"]:
            if o["call"] not in ("call", "crash"):
                chk.count("rediscmd:%s%s" % (o["call"], ":miss" if o["call"] == "get_log" and o.get("res") is None else ""))
        if overlap:
            chk.count("redis:read-overlaps-append")
        if died_inside:
            chk.count("redis:worker-died-inside-a-call(%s)" % mode)
        probs = oracle(real)
        blocked = [c for c in real["calls"] if "blocked_by_dead_writer" in c]
        if blocked:
            chk.count("redis:reader-blocked-for-ever-by-dead-writer's-gap(cluster)")
            f = chk.extra.setdefault("redis_cluster_crash_gap", {"seen": 0})
            f["seen"] += 1
            if "example" not in f:
                f["example"] = {"why": "use_cluster=True: worker %d died between INCR (number %d) and SET; read_logs(%d) of worker %d polls that key for ever" % (
                    real["crashed"], blocked[0]["blocked_by_dead_writer"], blocked[0]["from"], blocked[0]["t"]), "witness": witness_of(real)}
            if _gap_is_known(chk):
                chk.violation({"part": "redis", "kind": "cluster-crash-gap-blocks-readers"}, witness_of(real), f["example"]["why"])
        if probs:
            p = probs[0]
            chk.violation({"part": "redis", "mode": mode, "kind": p["kind"]}, witness_of(real), "redis backend (%s): %s" % (mode, "; ".join(x["why"] for x in probs[:2])))
        diff = first_diff(real, model)
        if diff is not None:
            chk.count("redis:model-and-code-differ")
            if sum(1 for b in chk.broken if "redis-model" in str(b.get("detail"))[:40]) < 2:
                chk.broke("correspondence", {"redis-model": "the real JournalRedisBackend (%s) and Model/JournalRedis.lean differ" % mode, "first_difference": diff,
                                             "case": {k: v for k, v in witness_of(real).items() if k != "schedule"}})
            continue
        # the refinement: what the readers saw is the log Model/Journal.lean replays
        off = model.get("official")
        fin = {n: r for n, r in real["final"]["logs"]}
        real_off = []
        while len(real_off) in fin:
            real_off.append(fin[len(real_off)])
        if off != real_off:
            chk.broke("correspondence", {"redis-model": "official log: impl %s, model %s" % (real_off, off)})


def scenarios(chk: core.Check) -> None:
    """Replay the named schedules of the Lean theorems on the real code (gated programs, then compared like any other run)."""
    sc = core.driver_batch("journalredis", [{"cmd": "scenarios"}])[0]
    reals = []
    R = lambda w, i: {"w": w, "i": i, "pad": "", "v": None}  # noqa: E731
    for name in sorted(sc):
        s = sc[name]
        # programs from the model's events: worker 0 appends record 10, worker 1 record 11, worker 2 reads from 0
        progs = [[{"a": "append", "recs": [R(0, 9)]}], [{"a": "append", "recs": [R(0, 10)]}], [{"a": "read", "from": 0}]]
        crash = None
        evs = s["events"]
        for i, e in enumerate(evs):
            if e[0] == "c":
                crash = (e[1], sum(1 for x in evs[:i] if x == ["s", e[1]]) - 1)
        # the schedule of the threads = the workers of the model's events, in order (one decision per event)
        real = run_by_events(s["cluster"], "study", progs, evs, crash)
        real["profile"] = "scenario:" + name
        reals.append(real)
        stuck_real = sorted(c["t"] for c in real["calls"] if "stuck" in c)
        rets = [c.get("ret") for c in real["calls"] if c["a"] == "read"]
        chk.extra.setdefault("redis_scenarios_on_real_code", {})[name] = {
            "cluster": s["cluster"], "events": len(evs), "model_blocked_readers": s["stuck"], "impl_blocked_readers": stuck_real,
            "model_official_log": s["official"], "impl_read_results": rets, "impl_final": real["final"]}
        chk.count("redis-scenario:%s" % name)
        if stuck_real != s["stuck"]:
            chk.broke("correspondence", {"redis-scenario": name, "why": "the Lean theorem about this schedule says readers %s are blocked for ever, on the real code %s are" % (s["stuck"], stuck_real)})
    compare_batch(chk, reals, "-scenario")


def run_by_events(cluster: bool, prefix: str, progs: list[list[dict[str, Any]]], evs: list[list[Any]], crash: tuple[int, int] | None) -> dict[str, Any]:
    """Drive the real threads through a given list of model events (`World.turn`)."""
    return run_real(cluster, prefix, progs, 0, crash=crash, director=evs)


def correspond(chk: core.Check, tier: str) -> None:
    import multiprocessing as mp

    t0 = _time.time()
    chk.rule = (chk.rule + " || " if chk.rule else "") + RULE_REDIS
    try:
        import fakeredis

        try:
            if fakeredis.FakeStrictRedis(server=fakeredis.FakeServer()).eval("return 1", 0) != 1:
                raise RuntimeError("EVAL answered something else")
        except Exception as e:  # noqa: BLE001
            raise core.InfraError("fakeredis cannot run Lua scripts (%s: %s): the non-cluster mode cannot be exercised" % (type(e).__name__, e))
        core.ensure_driver()
        scenarios(chk)
        n = 800 if tier == "quick" else 16000
        cases = gen_cases(chk.seed, n)
        jobs = [cases[j::8] for j in range(8)]
        with mp.get_context("spawn").Pool(8) as pool:
            results = pool.map(_case_worker, jobs)
        for res in results:
            compare_batch(chk, res, "")
    except core.DriverBroken as e:
        chk.broke("correspondence", {"driver": str(e)[:600]})
    chk.extra["redis_tie_wall_s"] = round(_time.time() - t0, 2)
    chk.assumptions += [
        "redis tie: fakeredis (incl. its Lua EVAL) stands for Redis; Redis executes one command (one script) at a time and a SET stores the value whole (trusted)",
        "redis tie: one Redis server (or a cluster that behaves like one for these keys: no lost acknowledged write in a fail-over); no other client writes the backend's keys; no key expiry / eviction; "
        "connection errors and time-outs of the client are not explored",
        "redis tie: an acknowledgement is the completion of the SET / EVAL of the record (the call returns right after its last command); a killed worker is a thread parked for ever after a command",
    ]


def replay_case(chk: core.Check, w: dict[str, Any]) -> int:
    core.ensure_driver()
    real = run_real(w["cluster"], w["prefix"], w["progs"], w["seed"], crash=tuple(w["crash"]) if w.get("crash") else None,
                    schedule=w.get("schedule"), pct=w.get("pct"), director=w.get("director"))
    model = core.driver_batch("journalredis", [_req(real)])[0]
    probs = oracle(real)
    diff = first_diff(real, model)
    blocked = [c for c in real["calls"] if "blocked_by_dead_writer" in c]
    if probs:
        print("REPRODUCED: %s" % probs[0]["why"])
        return 1
    if blocked:
        print("REPRODUCED: read_logs(%d) of worker %d is blocked for ever at the gap %d of dead writer %d" % (blocked[0]["from"], blocked[0]["t"], blocked[0]["blocked_by_dead_writer"], real["crashed"]))
        return 1
    if diff:
        print("REPRODUCED (model and code differ): %s" % core.canon(diff)[:600])
        return 1
    print("not reproduced")
    return 0
