"""C07 — the journal file is an intact, totally ordered log under concurrent writers.
(the crash scenarios of C05 reuse `run_file_case` from here)

prove:      Props/C07.lean on Model/JournalFile.lean: the byte-level reader (`read_logs` with its offset cache and
            size snapshot) returns exactly the complete records from the requested one on, never a partial one,
            and keeps every cached offset equal to the true start of its record — for every file that is a
            sequence of complete records plus an unterminated tail, every cache state, every snapshot size.
correspond: (a) pure differential: arbitrary byte strings (valid records, torn tails, garbage lines, snapshots
            shorter than the file, warm/cold caches) through the real `JournalFileBackend.read_logs` and the Lean
            reader; (b) 2-3 backend objects with their own lock objects (both lock classes) doing append/read
            mixes under the line-level scheduler with every system call of `_file.py` a scheduling point and
            writes delivered in random chunks; observed: every read result, holder set, final bytes, every
            object's offset cache.
"""
from __future__ import annotations

import json
import os
import random
import warnings
from typing import Any

from optuna.storages.journal import JournalFileBackend, JournalFileOpenLock, JournalFileSymlinkLock

from verif import core, sched, sysfi
from verif.props import c07_file_gen, c07_lock

RULE = (
    "(a) byte strings built from 0-8 JSON records, optional torn tail / garbage line / missing final newline, "
    "snapshot size <= file size, cache cold / warm / partially warm; (b) 2-3 backend objects x 1-4 calls "
    "(append of 1-3 records | read from a random index) under a seeded schedule over every line and system call of "
    "_file.py, writes in 1-4 chunks; a case is non-trivial when a read overlapped an append in time (b) or the input "
    "had a tail/garbage/short snapshot (a); distinct by SHA-1"
)


class TrackedLock:
    """Outer wrapper: remembers who is between acquire() and release() of the *append* path."""

    def __init__(self, inner: Any, me: int, holders: dict[int, int], log: list[Any], clock: Any) -> None:
        self.inner = inner
        self.me = me
        self.holders = holders
        self.log = log
        self.clock = clock
        self.on_release: Any = None

    def acquire(self) -> bool:
        ok = self.inner.acquire()
        if ok:
            self.log.append(("acq", self.me, self.clock(), sorted(self.holders)))
            self.holders[self.me] = self.clock()
        return ok

    def release(self) -> None:
        self.holders.pop(self.me, None)
        self.log.append(("rel", self.me, self.clock()))
        if self.on_release is not None:
            self.on_release()
        self.own_release = True
        try:
            self.inner.release()
        finally:
            self.own_release = False

    def watch_forced_release(self) -> None:
        """The stale-lock takeover inside acquire() calls self.release() on the lock *object*: log it together
        with the live holders at that instant (a non-empty set = the takeover broke a live lock)."""
        orig = self.inner.release
        self.own_release = False

        def release() -> None:
            self.forcing = not self.own_release
            try:
                orig()
            finally:
                self.forcing = False

        self.forcing = False
        self.inner.release = release

    def renamed(self) -> None:
        """called (by the os proxy) right after a successful rename of the lock file by this thread"""
        if self.forcing:
            self.log.append(("force", self.me, self.clock(), sorted(self.holders)))


def gen_progs(r: random.Random, nth: int, max_calls: int = 4) -> list[list[dict[str, Any]]]:
    progs = []
    for t in range(nth):
        acts = []
        n_app = 0
        for _ in range(r.randint(1, max_calls)):
            if r.random() < 0.6:
                recs = [{"w": t, "i": n_app + j, "pad": "x" * r.choice([0, 1, 7, 40])} for j in range(r.randint(1, 3))]
                n_app += len(recs)
                acts.append({"a": "append", "recs": recs})
            else:
                acts.append({"a": "read", "from": r.randrange(0, 6)})
        progs.append(acts)
    return progs


def run_file_case(lock_kind: str, progs: list[list[dict[str, Any]]], seed: int, tmp: str, plan: sysfi.Plan | None = None,
                  grace: int | None = 30, schedule: list[int] | None = None, pct: int | None = None, tag: str = "",
                  clock: str = "sleepers", max_steps: int = 200000) -> dict[str, Any]:
    """Run the programs (one backend object + lock object per thread) under sched+sysfi."""
    warnings.simplefilter("ignore")
    path = os.path.join(tmp, "jf_%d_%d%s.log" % (os.getpid(), seed, tag))
    for p in (path, path + ".lock"):
        if os.path.lexists(p):
            os.unlink(p)
    r = random.Random(seed)
    s = sched.Sched(rng=random.Random(seed), schedule=schedule, pct_depth=pct, max_steps=max_steps,
                    trace_prefixes=sched.optuna_prefixes("storages/journal/_file.py"))
    plan = plan or sysfi.Plan()
    plan.chunks = plan.chunks or 1
    sys_ = sysfi.Sys(s, plan, r)
    sys_.time.mode = clock
    undo = sysfi.install(sys_)
    holders: dict[int, int] = {}
    locklog: list[Any] = []
    calls: list[dict[str, Any]] = []
    backends = []
    try:
        for t in range(len(progs)):
            lk = (JournalFileSymlinkLock if lock_kind == "symlink" else JournalFileOpenLock)(path, grace_period=grace)
            b = JournalFileBackend(path, lock_obj=lk)
            b._lock = TrackedLock(lk, t, holders, locklog, lambda: s.clock)
            b._lock.watch_forced_release()
            if clock == "handover" and grace is not None:
                def bump(g: float = float(grace)) -> None:
                    sys_.time.now += 0.4 * g
                b._lock.on_release = bump
            backends.append(b)
        owner: dict[str, Any] = {"t": None}  # who created the lock file that exists now (tracked at the system call)

        def lock_created(t: Any) -> None:
            owner["t"] = t

        def renamed(t: Any) -> None:
            if t is None or t >= len(backends):
                return
            lk = backends[t]._lock
            if lk.forcing and owner["t"] not in (None, t, plan.crashed):
                locklog.append(("force", t, s.clock, [owner["t"]]))
            owner["t"] = None

        sys_.hooks["lock_created"] = lock_created
        sys_.hooks["renamed"] = renamed

        finished: set[int] = set()

        def body(t: int) -> Any:
            def f() -> None:
                try:
                    run_prog(t)
                finally:
                    finished.add(t)

            def run_prog(t: int) -> None:
                for act in progs[t]:
                    if act.get("after_victim"):
                        # survivors' continuation: starts only once thread 0 is dead (or, in a dry run, done)
                        while (plan.crashed is None) if plan.thread is not None else (0 not in finished):
                            s.yield_(t, blocked=True)
                    rec: dict[str, Any] = {"t": t, "a": act["a"], "inv": s.clock}
                    calls.append(rec)
                    try:
                        if act["a"] == "append":
                            rec["recs"] = act["recs"]
                            backends[t].append_logs(act["recs"])
                            rec["ok"] = True
                        else:
                            rec["from"] = act["from"]
                            rec["res"] = backends[t].read_logs(act["from"])
                            rec["ok"] = True
                    except Exception as e:  # noqa: BLE001
                        rec["exc"] = "%s: %s" % (type(e).__name__, str(e)[:120])
                    rec["ret"] = s.clock
            return f

        s.run([body(t) for t in range(len(progs))], timeout=120)
    finally:
        undo()
    out: dict[str, Any] = {"calls": calls, "locklog": locklog, "trace": s.trace, "crashed": plan.crashed, "crash_event": plan.crash_event,
                           "events": plan.events, "path": path, "backends": backends}
    if isinstance(s.aborted, (sched.StepLimit, sched.Deadlock)):
        out["infra"] = str(s.aborted)
    for t, e in s.errors.items():
        if isinstance(e, (sched.StepLimit, sched.Deadlock)):
            out["infra"] = str(e)
        else:
            out.setdefault("thread_errors", []).append("thread %d: %s: %s" % (t, type(e).__name__, str(e)[:160]))
    return out


def true_offsets(data: bytes) -> list[int]:
    offs = [0]
    for line in data.split(b"\n")[:-1]:
        offs.append(offs[-1] + len(line) + 1)
    return offs


def judge(out: dict[str, Any], n_threads: int, slow_holder: bool = False) -> list[dict[str, Any]]:
    """Property-level verdicts, independent of the model.  `slow_holder`: a live thread was suspended inside its
    critical section for longer than the grace period, so it lost the lock BY DESIGN: mutual exclusion and a clean
    `release()` are not demanded then, the integrity of the log (one atomic O_APPEND write per record) still is."""
    probs = _judge(out, n_threads)
    if slow_holder:
        probs = [p for p in probs if p["kind"] not in ("takeover-race", "two-holders")
                 and not (p["kind"] == "append-raises" and "did not possess lock" in p["why"])]
    return probs


def _judge(out: dict[str, Any], n_threads: int) -> list[dict[str, Any]]:
    probs: list[dict[str, Any]] = []
    path = out["path"]
    crashed = out["crashed"]
    try:
        final = JournalFileBackend(path).read_logs(0)
    except Exception as e:  # noqa: BLE001
        return [{"kind": "reader-raises", "why": "a fresh reader of the final file raises %s: %s" % (type(e).__name__, str(e)[:120])}]
    key = lambda rec: (rec["w"], rec["i"])  # noqa: E731
    fkeys = [key(x) for x in final]
    if len(set(fkeys)) != len(fkeys):
        probs.append({"kind": "duplicate-record", "why": "the final log holds a record twice: %s" % fkeys})
    # every acknowledged append is in the final log, in order and contiguous
    for c in out["calls"]:
        if c["a"] == "append":
            ks = [key(x) for x in c["recs"]]
            if c.get("ok"):
                pos = [fkeys.index(k) if k in fkeys else -1 for k in ks]
                if -1 in pos:
                    probs.append({"kind": "lost-append", "why": "acknowledged append %s of thread %d is not in the final log %s" % (ks, c["t"], fkeys)})
                elif pos != list(range(pos[0], pos[0] + len(pos))):
                    probs.append({"kind": "interleaved-append", "why": "records %s of one append are not contiguous in the final log %s" % (ks, fkeys)})
            elif "exc" in c and c["t"] != crashed:
                probs.append({"kind": "append-raises", "why": "append by thread %d raised %s" % (c["t"], c["exc"])})
            else:
                # interrupted by the crash: all or nothing
                present = [k in fkeys for k in ks]
                if any(present) and not all(present):
                    probs.append({"kind": "partial-append", "why": "interrupted append %s is partly in the final log %s" % (ks, fkeys)})
        else:
            if "exc" in c and c["t"] != crashed:
                probs.append({"kind": "read-raises", "why": "read_logs(%d) by thread %d raised %s" % (c["from"], c["t"], c["exc"])})
            elif c.get("ok"):
                res = [key(x) for x in c["res"]]
                k = c["from"]
                if res != fkeys[k:k + len(res)]:
                    probs.append({"kind": "read-not-a-slice", "why": "read_logs(%d) returned %s which is not final[%d:...] of %s" % (k, res, k, fkeys)})
                else:
                    # must cover every append acknowledged before the read began
                    need = 0
                    for a in out["calls"]:
                        if a["a"] == "append" and a.get("ok") and a["ret"] < c["inv"]:
                            idxs = [fkeys.index(key(x)) for x in a["recs"] if key(x) in fkeys]
                            if idxs:
                                need = max(need, max(idxs) + 1)
                    if k + len(res) < min(need, len(fkeys)) and k <= need:
                        probs.append({"kind": "read-misses-acked", "why": "read_logs(%d) returned %d records but %d records were acknowledged before it began" % (k, len(res), need)})
    # a stale-lock takeover that removed the lock of a *live* holder (root cause of everything that follows)
    for ev in out["locklog"]:
        if ev[0] == "force":
            live = [h for h in ev[3] if h != crashed and h != ev[1]]
            if live:
                probs.insert(0, {"kind": "takeover-race", "why": "thread %d forcibly released the lock file at %d while live thread(s) %s held it" % (ev[1], ev[2], live)})
                break
    # mutual exclusion (dead holders do not count)
    for ev in out["locklog"]:
        if ev[0] == "acq":
            live = [h for h in ev[3] if h != crashed and h != ev[1]]
            if live:
                probs.append({"kind": "two-holders", "why": "thread %d acquired the file lock at %d while thread(s) %s held it" % (ev[1], ev[2], live),
                              "after_crash": crashed is not None})
    # offset caches agree with the file; later reads agree with a fresh reader
    data = open(path, "rb").read()
    offs = true_offsets(data)
    for t, b in enumerate(out["backends"]):
        if t == crashed:
            continue
        cache = getattr(b, "_log_number_offset", None)
        if isinstance(cache, dict):
            for k, o in cache.items():
                if k >= len(offs) or offs[k] != o:
                    probs.append({"kind": "offset-cache", "why": "backend %d caches record %d at byte %d but it starts at %s" % (t, k, o, offs[k] if k < len(offs) else "nowhere")})
                    break
        for k in (0, 1, len(final) // 2, len(final)):
            try:
                got = [key(x) for x in b.read_logs(k)]
            except Exception as e:  # noqa: BLE001
                probs.append({"kind": "read-raises", "why": "a later read_logs(%d) on backend %d raised %s" % (k, t, type(e).__name__)})
                break
            if got != fkeys[k:]:
                probs.append({"kind": "stale-cache-read", "why": "later read_logs(%d) on backend %d gives %s, a fresh reader %s" % (k, t, got, fkeys[k:])})
                break
    for e in out.get("thread_errors", []):
        probs.append({"kind": "crash", "why": e})
    return probs


# ---- (a) pure differential of the reader --------------------------------------------------------------------------
def gen_bytes(r: random.Random) -> dict[str, Any]:
    recs = [json.dumps({"op_code": r.randrange(10), "i": i, "p": "y" * r.choice([0, 3, 30])}, separators=(",", ":")).encode() for i in range(r.randint(0, 8))]
    lines = [x + b"\n" for x in recs]
    kind = r.choice(["clean", "clean", "torn", "no-newline", "garbage-last", "garbage-mid", "crlf"])
    data = b"".join(lines)
    if kind == "torn" and recs:
        extra = json.dumps({"op_code": 4, "i": 99, "p": "zzzz"}).encode()
        data += extra[: r.randint(1, len(extra) - 1)]
    elif kind == "no-newline" and recs:
        data = data[:-1]
    elif kind == "garbage-last":
        data += b"{not json\n"
    elif kind == "garbage-mid" and len(lines) >= 2:
        j = r.randrange(len(lines) - 1)
        data = b"".join(lines[:j]) + b"{broken\n" + b"".join(lines[j:])
    elif kind == "crlf" and recs:
        data = b"".join(x + b"\r\n" for x in recs)
    size = len(data) if r.random() < 0.6 else r.randint(0, len(data))
    warm = r.choice(["cold", "warm", "part"])
    return {"data": data, "size": size, "from": r.randint(0, len(recs) + 1), "warm": warm, "kind": kind, "warm_upto": r.randint(0, len(recs))}


def real_read(case: dict[str, Any], tmp: str, idx: int) -> dict[str, Any]:
    import optuna.storages.journal._file as jf

    path = os.path.join(tmp, "pure_%d_%d.log" % (os.getpid(), idx))
    data = case["data"]
    with open(path, "wb") as f:
        f.write(data)
    b = JournalFileBackend(path)
    cache = {0: 0}
    if case["warm"] != "cold":
        offs = true_offsets(data)
        upto = len(offs) - 1 if case["warm"] == "warm" else min(case["warm_upto"], len(offs) - 1)
        for k in range(upto + 1):
            cache[k] = offs[k]
    b._log_number_offset = dict(cache)

    class FakeStat:
        st_size = case["size"]

    class OsP:
        def __getattr__(self, n: str) -> Any:
            return getattr(os, n)

        def stat(self, p: Any) -> Any:
            return FakeStat()

    saved = jf.os
    jf.os = OsP()
    try:
        try:
            res = b.read_logs(case["from"])
            out: dict[str, Any] = {"ok": [json.dumps(x, separators=(",", ":"), sort_keys=True) for x in res]}
        except Exception as e:  # noqa: BLE001
            out = {"exc": type(e).__name__}
    finally:
        jf.os = saved
        os.unlink(path)
    out["cache"] = sorted(b._log_number_offset.items()) if isinstance(getattr(b, "_log_number_offset", None), dict) else None
    out["cache_in"] = sorted(cache.items())
    return out


def pure_differential(chk: core.Check, n: int) -> None:
    drv = core.Driver("journalfile")
    try:
        for i in range(n):
            case = gen_bytes(chk.rng)
            real = real_read(case, chk.tmp, i)
            # validity of a line = it decodes as JSON (decided by Python's json: part of the trusted base)
            lines = case["data"].split(b"\n")
            valid = []
            for ln in lines[:-1]:
                try:
                    json.loads(ln)
                    valid.append(True)
                except Exception:  # noqa: BLE001
                    valid.append(False)
            req = {"bytes": list(case["data"]), "size": case["size"], "from": case["from"], "cache": [[k, v] for k, v in real["cache_in"]], "valid": valid}
            m = drv.ask(req)
            nontrivial = case["kind"] != "clean" or case["size"] < len(case["data"]) or case["warm"] != "cold"
            chk.case({"part": "reader", "kind": case["kind"], "len": len(case["data"]), "size": case["size"], "from": case["from"], "warm": case["warm"]}, nontrivial=nontrivial)
            chk.count("reader:" + case["kind"])
            if m.get("k") in ("bad-op", "bad-json"):
                chk.broke("correspondence", {"driver": m})
                return
            # compare: result lines (as record indices) and cache
            if "exc" in real:
                if not m.get("raise"):
                    chk.broke("correspondence", {"reader": "implementation raises %s, model returns" % real["exc"], "case": {**case, "data": case["data"].decode("latin1")}})
                    return
                chk.count("reader:raises")
                continue
            if m.get("raise"):
                chk.broke("correspondence", {"reader": "model raises, implementation returns", "case": {**case, "data": case["data"].decode("latin1")}})
                return
            got = real["ok"]
            want = [json.dumps(json.loads(lines[j]), separators=(",", ":"), sort_keys=True) for j in m["lines"]]
            if got != want or (real["cache"] is not None and [list(x) for x in real["cache"]] != m["cache"]):
                chk.broke("correspondence", {"reader": "model and implementation differ", "model": m, "impl": real, "case": {**case, "data": case["data"].decode("latin1")}})
                return
    finally:
        drv.close()


# ---- (b) concurrent exploration -----------------------------------------------------------------------------------
def _worker(args: tuple[str, list[tuple[int, list[Any], int, int | None]], str]) -> list[dict[str, Any]]:
    lock_kind, cases, tmp = args
    res = []
    for seed, progs, chunks, pct in cases:
        plan = sysfi.Plan(chunks=chunks)
        # every third case: a busy lock under the hand-over clock (many short holders, one long waiter)
        clock = "handover" if seed % 3 == 0 else "sleepers"
        slow = seed % 7 == 5
        if slow:
            # a live holder suspended inside append_logs for longer than the grace period (single-chunk writes: one
            # O_APPEND write per record is atomic even when two workers believe they hold the lock)
            clock, plan = "sleepers", sysfi.Plan(chunks=1)
            chunks = 1
            r2 = random.Random(seed)
            dry = sysfi.Plan(chunks=1)
            try:
                out0 = run_file_case(lock_kind, progs, seed, tmp, plan=dry, pct=pct, clock=clock, grace=5, tag="_dry")
            except Exception:  # noqa: BLE001
                out0 = {"infra": "dry run failed"}
            inside = []
            if "infra" not in out0:
                k, held = 0, False
                for t, name in out0["events"]:
                    if t != 0:
                        continue
                    if name in ("symlink", "os.open"):
                        held = True
                    elif name == "rename":
                        held = False
                    elif held and (name.startswith("open(") or name in ("seek", "read", "write", "flush", "fsync", "close", "truncate")):
                        inside.append(k)
                    k += 1
            if inside:
                plan.stall = (0, r2.choice(inside), 5 + 3.0)
            else:
                slow = False
        try:
            out = run_file_case(lock_kind, progs, seed, tmp, plan=plan, pct=pct, clock=clock, grace=5)
        except Exception as e:  # noqa: BLE001
            import traceback
            res.append({"seed": seed, "kind": "infra", "why": "%s %s" % (e, traceback.format_exc()[-300:])})
            continue
        if "infra" in out:
            res.append({"seed": seed, "kind": "infra", "why": out["infra"]})
            continue
        probs = judge(out, len(progs), slow_holder=slow)
        reads = [c for c in out["calls"] if c["a"] == "read"]
        apps = [c for c in out["calls"] if c["a"] == "append"]
        overlap = any(rd["inv"] < ap.get("ret", 10**9) and ap["inv"] < rd.get("ret", 10**9) and rd["t"] != ap["t"] for rd in reads for ap in apps)
        res.append({"seed": seed, "kind": "violation" if probs else "ok", "probs": probs, "progs": progs, "chunks": chunks, "pct": pct, "clock": clock,
                    "trace": out["trace"], "overlap": overlap, "n_events": len(out["events"]), "stall": list(plan.stall) if plan.stall else None,
                    "stalled_at": plan.stalled_at, "forced": any(ev[0] == "force" for ev in out["locklog"])})
    return res


def explore(chk: core.Check, n: int, tag: str = "") -> None:
    import multiprocessing as mp

    jobs = []
    for li, lock_kind in enumerate(["symlink", "open"]):
        cases = []
        for i in range(n):
            seed = chk.seed * 1000003 + li * 7919 + i
            r = random.Random(seed)
            cases.append((seed, gen_progs(r, r.choice([2, 2, 3])), r.choice([1, 1, 2, 4]), r.choice([None, None, 2, 3])))
        for j in range(5):
            jobs.append((lock_kind, cases[j::5], chk.tmp))
    with mp.get_context("spawn").Pool(min(len(jobs), 10)) as pool:
        results = pool.map(_worker, jobs)
    for (lock_kind, _, _), res in zip(jobs, results):
        for rec in res:
            if rec["kind"] == "ok":
                chk.case({"part": "concurrent", "lock": lock_kind, "programs": [[a["a"] for a in p] for p in rec["progs"]], "chunks": rec["chunks"],
                          "syscalls": rec["n_events"], "schedule_len": len(rec["trace"])}, nontrivial=rec["overlap"])
                chk.count("concurrent%s:%s" % (tag, lock_kind))
                if rec.get("stall"):
                    chk.count("slow-holder%s:%s" % (tag, "lock-taken-over-while-stalled" if rec.get("forced") else "stalled"))
                chk.traces_validated += 1
            elif rec["kind"] == "violation":
                p = rec["probs"][0]
                chk.violation({"lock": lock_kind, "kind": p["kind"], "after_crash": False},
                              {"lock": lock_kind, "progs": rec["progs"], "seed": rec["seed"], "chunks": rec["chunks"], "pct": rec["pct"], "schedule": rec["trace"],
                               "clock": rec.get("clock", "sleepers"), "stall": rec.get("stall")},
                              "%s lock: %s" % (lock_kind, "; ".join(x["why"] for x in rec["probs"][:2])))
            else:
                chk.count("infra")
                chk.extra.setdefault("infra_notes", []).append(rec["why"][:200])


def search(chk: core.Check) -> None:
    chk.search_log.append("searching more schedules of the real file backend for a broken read / lost append")
    explore(chk, 500, tag="-search")


def ctor_race_probe(chk: core.Check) -> None:
    """The constructor of JournalFileBackend tests for the file and creates it WITHOUT the lock.  Worker B is preempted
    between its existence test (file absent) and its creation of the file; meanwhile worker A constructs its backend and
    gets two appends acknowledged; B resumes, later appends a record itself.  The log is append-only: a fresh reader must
    see A's two records then B's, and A's cached offsets must continue with B's record.  (The preemption is emulated by
    wrapping os.path.exists for the duration of B's constructor; a constructor that never asks is simply run after A.)"""
    from optuna.storages.journal import JournalFileBackend

    path = os.path.join(chk.tmp, "ctor_race_%d.log" % os.getpid())
    orig_exists = os.path.exists
    st: dict[str, Any] = {"armed": True}
    recs = [{"op_code": 0, "worker_id": "A", "study_name": "s", "directions": [1]}, {"op_code": 4, "worker_id": "A", "study_id": 0, "datetime_start": "x"}]

    def a_runs() -> None:
        a = JournalFileBackend(path)
        a.append_logs([recs[0]])
        a.append_logs([recs[1]])
        st["a"] = a
        st["a_saw"] = a.read_logs(0)

    def exists(p_: Any) -> bool:
        r_ = orig_exists(p_)
        try:
            mine = os.fspath(p_) == path
        except TypeError:
            mine = False
        if st["armed"] and mine:
            st["armed"] = False
            st["b_saw_file"] = r_
            a_runs()
        return r_

    os.path.exists = exists  # type: ignore[assignment]
    try:
        b = JournalFileBackend(path)
    finally:
        os.path.exists = orig_exists  # type: ignore[assignment]
    if "a" not in st:
        a_runs()
    rec_b = {"op_code": 4, "worker_id": "B", "study_id": 0, "datetime_start": "y"}
    problems: list[str] = []
    try:
        fresh1 = JournalFileBackend(path).read_logs(0)
        b.append_logs([rec_b])
        fresh2 = JournalFileBackend(path).read_logs(0)
        a_tail = st["a"].read_logs(2)
    except Exception as e:  # noqa: BLE001
        problems.append("a read or append raised %s: %s" % (type(e).__name__, str(e)[:100]))
        fresh1 = fresh2 = a_tail = None
    if not problems:
        if fresh1 != recs:
            problems.append("after B's constructor a fresh reader sees %d record(s) %s, A's two acknowledged records are %s" % (len(fresh1), json.dumps(fresh1)[:160], json.dumps(recs)[:160]))
        elif fresh2 != recs + [rec_b]:
            problems.append("after B's append a fresh reader sees %s" % json.dumps(fresh2)[:200])
        elif a_tail != [rec_b]:
            problems.append("worker A continues from its cached offset with %s instead of B's record" % json.dumps(a_tail)[:200])
    chk.case({"part": "ctor-race", "preempted": not st["armed"]}, nontrivial=not st["armed"])
    chk.count("ctor-race")
    if problems:
        chk.violation({"kind": "constructor-race", "lock": "none"}, {"part": "ctor-race", "problems": problems},
                      "JournalFileBackend constructor preempted between its existence test and the creation of the file while another worker "
                      "created the journal and had two appends acknowledged: " + problems[0])


def main(chk: core.Check) -> int:
    chk.rule = RULE
    c07_file_gen.regenerate(chk)  # T-file: Generated/JournalFileMethods.lean from journal/_file.py, before the theorems are re-checked against it
    if not getattr(chk, "no_prove", False):
        chk.prove(["OptunaVerif.Props.C07", "OptunaVerif.Props.C07Lock", c07_file_gen.MODULE, "OptunaVerif.Props.C05C07Bridge", "OptunaVerif.Props.C05C07BridgeGen"])
        c07_file_gen.explain_proof_failure(chk)
    quick = chk.tier == "quick"
    try:
        core.ensure_driver()
        c07_file_gen.differential(chk, 400 if quick else 6000)  # interpreter of the generated data vs the hand models, side by side
        pure_differential(chk, 3000 if quick else 40000)
    except core.DriverBroken as e:
        chk.broke("correspondence", {"driver": str(e)[:600]})
    ctor_race_probe(chk)
    explore(chk, 600 if quick else 8000)
    try:
        c07_lock.correspond(chk, chk.tier)  # the two lock classes call by call against Model/FileLock.lean
    except core.DriverBroken as e:
        chk.broke("correspondence", {"driver": str(e)[:600]})
    chk.assumptions += ["O_APPEND writes land at the end of the file; rename / symlink / open(O_EXCL) are atomic (kernel semantics, trusted)",
                        "no takeover of a lock whose holder is alive (the virtual clock only advances while every live thread sleeps)",
                        "JSON validity of a line is decided by Python's json module"]
    return chk.finish(search=search)


def replay(chk: core.Check, path: str) -> int:
    w = json.load(open(path))["witness"]
    if w.get("part") == "lock":
        return c07_lock.replay_case(chk, w)
    plan = sysfi.Plan(chunks=w.get("chunks", 1))
    if w.get("stall"):
        plan.stall = tuple(w["stall"])  # type: ignore[assignment]
    out = run_file_case(w["lock"], w["progs"], w["seed"], chk.tmp, plan=plan, schedule=w.get("schedule"), pct=w.get("pct"),
                        clock=w.get("clock", "sleepers"), grace=5)
    probs = judge(out, len(w["progs"]), slow_holder=bool(w.get("stall")))
    if probs:
        print("REPRODUCED: %s" % probs[0]["why"])
        return 1
    print("not reproduced")
    return 0
