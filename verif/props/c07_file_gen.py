"""C07 / C05, translator tie: `optuna/storages/journal/_file.py` as written in the source today -> Lean data -> proved equal
to the hand models (Model/JournalFile.lean reader, Model/JournalAppend.lean appender, Model/FileLock.lean lock classes).

regenerate(chk)   run verif/translators/tfile.py on core.REPO, write lean/OptunaVerif/Generated/JournalFileMethods.lean (only when the
                  text changed), record what was read in chk.translated / chk.extra, report every untranslatable part as
                  chk.broke("translation", ...).  Call it BEFORE chk.prove([..., MODULE]) and before core.ensure_driver().
explain_proof_failure(chk)   after chk.prove failed: NAME the theorems of Props/C07FileGen.lean (and of the two lemma files behind
                  them) that no longer check; recorded in chk.extra["c07filegen_failed"] and as chk.broke("proof", ...).
differential(chk, n)   the sub-driver `filegen` runs the interpreter of the generated data side by side with the hand model on
                  seeded inputs (byte strings for the reader, files with / without a torn tail for the appender, schedules for
                  both lock classes); field "gen" of the answer = None when they agree, else the concrete difference.

Used by verif/props/c07.py and verif/props/c05.py (helper module, like c06_gen.py for C06).
"""
from __future__ import annotations

import os
import re
from typing import Any

from verif import core
from verif.translators import tfile

OUT = os.path.join(core.LEAN_DIR, "OptunaVerif", "Generated", "JournalFileMethods.lean")
MODULE = "OptunaVerif.Props.C07FileGen"
DRIVER = "filegen"
FILES = ["OptunaVerif/Props/C07FileGen.lean", "OptunaVerif/Lemmas/FileIR.lean", "OptunaVerif/Lemmas/FileIRAppend.lean"]
# a lemma that fails names the property theorem built on it
BEHIND = {
    "read_loop_eq": "read_loop_generated_eq_model", "read_eq": "read_logs_generated_eq_model",
    "repair_block_eq": "append_repair_generated_eq_model", "append_file_eq": "append_file_generated_eq_model",
    "append_effects_eq": "append_effects_generated_eq_model", "append_acts_eq": "append_acts_generated_eq_model",
    "append_prefix_sim": "append_prefix_generated_eq_model", "append_prefix_file": "gen_interrupted_all_or_nothing",
    "gstepW_symlink_grace": "symlink_lock_steps_eq_model", "gstepW_symlink_nograce": "symlink_lock_steps_eq_model",
    "gstepW_open_grace": "open_lock_steps_eq_model", "gstepW_open_nograce": "open_lock_steps_eq_model",
    "pcOfCtl_symlink_g": "lock_run_generated_eq_model (symlink class)", "pcOfCtl_symlink_n": "lock_run_generated_eq_model (symlink class)",
    "pcOfCtl_openExcl_g": "lock_run_generated_eq_model (open class)", "pcOfCtl_openExcl_n": "lock_run_generated_eq_model (open class)",
    "gFresh_eq": "lock_run_generated_eq_model",
}


def _count(x: Any) -> int:
    if isinstance(x, (list, tuple)):
        return sum(_count(y) for y in x) + (1 if isinstance(x, tuple) else 0)
    return 1 if isinstance(x, str) else 0


def regenerate(chk: core.Check | None = None) -> dict[str, Any] | None:
    try:
        text, info, problems = tfile.translate(core.REPO)
    except (tfile.Untranslatable, SyntaxError, OSError) as e:
        if chk is None:
            raise
        chk.broke("translation", {"translator": "T-file", "why": str(e)[:600]})
        return None
    changed = core.write_if_changed(OUT, text)
    if chk is not None:
        rd, ap, lk = info["read"], info["append"], info["locks"]
        msg = "JournalFileMethods: read_logs %s, append_logs %s, %s%s" % (
            "%d+%d statements" % (_count(rd["pre"]), _count(rd["body"])) if rd else "UNTRANSLATABLE",
            "%d steps" % len(ap) if ap else "UNTRANSLATABLE",
            ", ".join("%s %s" % (k, "%d statements" % (_count(v["acquire"]) + _count(v["release"])) if v else "UNTRANSLATABLE") for k, v in lk.items()),
            " (file changed)" if changed else "")
        if msg not in chk.translated:
            chk.translated.append(msg)
        chk.extra["journal_file_ir"] = {"read_logs": rd, "append_logs": ap, "locks": lk}
        for p in problems:
            chk.broke("translation", dict(p, translator="T-file"))
        a = ("T-file: each IR constructor stands for one literal source shape of _file.py; what the system calls do (exclusive create, rename, "
             "unlink, truncate, positional write through rb+ vs O_APPEND through ab, buffered write reaching the file at flush/close) is the "
             "meaning given in Model/FileIR.lean, not derived from the source")
        if a not in chk.assumptions:
            chk.assumptions.append(a)
    return info


def explain_proof_failure(chk: core.Check) -> list[str]:
    pr = chk.proof
    if pr is None or pr.ok:
        return []
    names: list[str] = []
    for rel in FILES:
        base = rel.split("/", 1)[1]
        lines = sorted({int(m.group(1)) for m in re.finditer(re.escape(base) + r":(\d+):\d+: error", pr.build_log)}
                       | {int(m.group(1)) for m in re.finditer(r"error: \S*" + re.escape(base) + r":(\d+):", pr.build_log)})
        if not lines:
            continue
        src = open(os.path.join(core.LEAN_DIR, rel)).read().splitlines()
        for ln in lines:
            name = None
            for i in range(min(ln, len(src)) - 1, -1, -1):
                m = re.match(r"\s*(?:theorem|def|example)\b\s*([^\s:(]*)", src[i])
                if m:
                    name = m.group(1) or ("example at line %d of %s: %s" % (i + 1, base, src[i].strip()[:80]))
                    break
            if name:
                name = BEHIND.get(name, name)
                if name not in names:
                    names.append(name)
    if names:
        chk.extra["c07filegen_failed"] = names
        chk.broke("proof", {"module": MODULE, "generated__file_py_no_longer_equal_hand_model": names})
    return names


# ---- side-by-side runs in the driver ----------------------------------------------------------------------------------
def _rec(r: Any) -> list[int]:
    import json

    return list(json.dumps({"op_code": r.randrange(10), "i": r.randrange(100), "p": "y" * r.choice([0, 3, 12])}, separators=(",", ":")).encode())


def gen_inputs(r: Any, n: int) -> list[dict[str, Any]]:
    from verif.props import c07, c07_lock

    reqs: list[dict[str, Any]] = []
    for _ in range(n):
        kind = r.choice(["read", "read", "append", "lock"])
        if kind == "read":
            case = c07.gen_bytes(r)
            data = case["data"]
            lines = data.split(b"\n")
            valid = []
            for ln in lines[:-1]:
                try:
                    __import__("json").loads(ln)
                    valid.append(True)
                except Exception:  # noqa: BLE001
                    valid.append(False)
            offs = c07.true_offsets(data)
            cache = {0: 0}
            if case["warm"] != "cold":
                upto = len(offs) - 1 if case["warm"] == "warm" else min(case["warm_upto"], len(offs) - 1)
                for k in range(upto + 1):
                    cache[k] = offs[k]
            reqs.append({"cmd": "read", "bytes": list(data), "size": case["size"], "from": case["from"], "cache": [[k, v] for k, v in sorted(cache.items())], "valid": valid})
        elif kind == "append":
            f: list[int] = []
            for _ in range(r.randint(0, 3)):
                f += _rec(r) + [10]
            shape = r.choice(["clean", "torn", "torn", "no-newline-at-all", "empty"])
            if shape == "torn":
                t = _rec(r)
                f += t[: r.randint(1, len(t))]
            elif shape == "no-newline-at-all":
                f = _rec(r)[: r.randint(1, 9)]
            elif shape == "empty":
                f = []
            reqs.append({"cmd": "append", "file": f, "record": _rec(r)})
        else:
            li = r.randrange(2)
            seed = r.randrange(10 ** 9)
            k, g, nw = ["symlink", "open"][li], r.choice([1, 2, 3, None]), r.choice([2, 3])
            rr = __import__("random").Random(seed)
            evs: list[list[Any]] = []
            for _ in range(rr.randint(10, 90)):
                x = rr.random()
                evs.append(["t"] if x < 0.15 else ["c", rr.randrange(nw)] if x < 0.18 else ["s", rr.randrange(nw)])
            reqs.append({"cmd": "lock", "kind": k, "grace": g, "n": nw, "events": evs})
    # the named schedules of Model/FileLock.lean
    sc = core.driver_batch(c07_lock.__dict__.get("DRIVER", "filelock"), [{"cmd": "scenarios"}])[0]
    for name in sorted(sc):
        s = sc[name]
        reqs.append({"cmd": "lock", "kind": s["kind"], "grace": s["grace"], "n": s["n"], "events": s["events"]})
    return reqs


def differential(chk: core.Check, n: int) -> None:
    try:
        reqs = gen_inputs(chk.rng, n)
        outs = core.driver_batch(DRIVER, reqs)
    except core.DriverBroken as e:
        chk.broke("correspondence", {"driver": str(e)[:600]})
        return
    for req, out in zip(reqs, outs):
        chk.count("filegen-differential:%s" % req["cmd"])
        if out.get("k") == "bad-op":
            chk.broke("correspondence", {"filegen": out})
            return
        if out.get("gen") is not None:
            chk.broke("correspondence", {"what": "interpreter of the data generated from _file.py differs from the hand model (%s)" % {
                "read": "Model/JournalFile.lean", "append": "Model/JournalAppend.lean", "lock": "Model/FileLock.lean"}[req["cmd"]],
                "difference": out["gen"], "input": req})
            return
