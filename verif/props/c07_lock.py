"""C07 / C05 — the two file-lock classes of `optuna/storages/journal/_file.py`, call by call.

prove:      Props/C07Lock.lean on Model/FileLock.lean (small-step model: every system call and clock read of
            `acquire` / `release` is one atomic step of one worker; arbitrary interleavings, ticks and crashes):
            mutual_exclusion, release_only_own_lock, ... under the hypothesis `safeSched` (no takeover removes the
            lock of a live creator), the F13 race and its relatives as `decide`d witnesses.
correspond: the REAL `JournalFileSymlinkLock` / `JournalFileOpenLock` objects (one per "process" = thread) are run
            in lock-step: the names `os` and `time` inside `_file.py` are rebound to proxies whose every call
            (symlink, open, close, stat, rename, unlink, monotonic, sleep) blocks until the controller grants that
            worker ONE step; the clock is virtual (moves only by `tick` events), mtimes are virtual clock readings
            (os.stat of a regular lock file / os.lstat of the lock path: the clock at its creation; os.stat of a symlink
            lock would give the journal's, which is what the symlink class watched before repo fb3aa05); a crashed worker is never granted again (kill -9: no finally).  The controller draws a seeded
            schedule (worker | tick | crash), logs for every event the call, its outcome, the lock file (creator,
            stamp), the renamed-away files, the live holders; the compiled Lean model replays the same schedule
            and every one of these must be equal.  The named schedules of the Lean witnesses (F13 ...) are
            fetched from the driver and replayed on the real code as well.
oracle:     independent of the model: two live holders / a release that removes a foreign lock or raises, without
            any excusable takeover before it, is a violation of the property.
"""
from __future__ import annotations

import errno
import hashlib
import os as _os
import random
import stat as _stat
import threading
import time as _time
import warnings
from typing import Any

from verif import core

RULE_LOCK = (
    "lock tie: 2-3 workers x 1-3 rounds of acquire / touch the journal / release on the real lock classes (both), "
    "grace in {1,2,3,None}; seeded schedule of (step w | tick | crash w) events, one system call or clock read per step "
    "(profiles: hand-over, crash of a holder + tick bursts, stalls, no grace); a case is non-trivial when some create call "
    "met EEXIST; distinct by SHA-1 of (class, grace, events)"
)


class Killed(BaseException):
    """tear-down of a parked worker thread"""


class Stepper:
    """Lock-step controller: a worker thread blocks in `call` until it is granted one step."""

    def __init__(self, n: int) -> None:
        self.cv = threading.Condition()
        self.pending: list[str | None] = [None] * n
        self.done = [False] * n
        self.grant: int | None = None
        self.teardown = False
        self.tl = threading.local()
        self.obs: list[Any] = [None] * n

    def me(self) -> int | None:
        return getattr(self.tl, "i", None)

    def call(self, name: str, do: Any) -> Any:
        i = self.me()
        if i is None:
            return do()
        with self.cv:
            if self.teardown:
                raise Killed()
            self.pending[i] = name
            self.cv.notify_all()
            while self.grant != i:
                self.cv.wait()
                if self.teardown:
                    raise Killed()
            self.grant = None
            self.pending[i] = None
        try:
            r = do()
        except OSError as e:
            self.obs[i] = [name, errno.errorcode.get(e.errno, "E?%s" % e.errno), None]
            raise
        self.obs[i] = [name, "ok", r]
        return r

    # ---- controller side
    def wait_parked(self, i: int, timeout: float = 20.0) -> bool:
        end = _time.time() + timeout
        with self.cv:
            while not (self.grant is None and (self.pending[i] is not None or self.done[i])):
                left = end - _time.time()
                if left <= 0:
                    return False
                self.cv.wait(left)
        return True

    def advance(self, i: int) -> Any:
        with self.cv:
            assert self.pending[i] is not None
            self.obs[i] = None
            self.grant = i
            self.cv.notify_all()
        if not self.wait_parked(i):
            raise core.InfraError("worker %d did not reach its next call" % i)
        return self.obs[i]

    def finish(self) -> None:
        with self.cv:
            self.teardown = True
            self.cv.notify_all()


class World:
    """The part of the operating system the lock code sees, with virtual time stamps."""

    def __init__(self, st: Stepper, path: str, n: int, real_mtime: bool = False) -> None:
        self.st = st
        self.real_mtime = real_mtime  # os.stat of the lock path is passed through unchanged (the file system's own mtimes)
        self.path = path
        self.lock_path = path + ".lock"
        self.now = 0
        self.tgt = 0  # virtual mtime of the journal file
        self.cur: dict[str, int] | None = None  # creator / stamp / serial number of the lock file that exists now
        self.serial = 0
        self.tmps: dict[str, tuple[int, int]] = {}  # renamed-away file -> (renamer, creator)
        self.holders: set[int] = set()  # acquire() returned, own release's rename not yet performed
        self.releasing: set[int] = set()  # inside the holder's own release()
        self.crashed: set[int] = set()
        self.died_holding = False
        self.failed = [0] * n
        self.last_stat: dict[int, Any] = {}  # taker -> serial number of the lock file it last stat'ed
        self.seen: dict[int, tuple[int, int]] = {}  # waiter -> (mtime value it keeps seeing, clock when it first saw it) in this acquire()
        self.takeovers: list[dict[str, Any]] = []
        self.foreign_release: list[dict[str, Any]] = []

    def lock_state(self) -> Any:
        if not _os.path.lexists(self.lock_path):
            return None
        if self.cur is None:
            return [-1, -1]  # a lock file whose creation the proxies did not see
        return [self.cur["owner"], self.cur["stamp"]]

    def tmp_state(self) -> list[list[int]]:
        d = _os.path.dirname(self.lock_path)
        base = _os.path.basename(self.lock_path)
        out = []
        for fn in _os.listdir(d):
            if fn.startswith(base) and fn != base:
                by, owner = self.tmps.get(_os.path.join(d, fn), (-1, -1))
                out.append([by, owner])
        return sorted(out)


class TimeProxy:
    def __init__(self, w: World) -> None:
        self._w = w

    def monotonic(self) -> float:
        return self._w.st.call("monotonic", lambda: float(self._w.now))

    def time(self) -> float:
        return float(self._w.now)

    def sleep(self, secs: float) -> None:
        self._w.st.call("sleep", lambda: None)

    def __getattr__(self, name: str) -> Any:
        return getattr(_time, name)


class FakeStat:
    def __init__(self, r: Any, mtime: float) -> None:
        for f in ("st_mode", "st_size", "st_ino", "st_nlink", "st_uid", "st_gid"):
            setattr(self, f, getattr(r, f))
        self.st_mtime = mtime
        self.st_mtime_ns = int(mtime * 1e9)


class OsProxy:
    def __init__(self, w: World) -> None:
        self._w = w

    def __getattr__(self, name: str) -> Any:
        return getattr(_os, name)

    def _is_lock(self, p: Any) -> bool:
        return _os.fspath(p) == self._w.lock_path

    def _created(self) -> None:
        w = self._w
        w.serial += 1
        w.cur = {"owner": w.st.me(), "stamp": w.now, "serial": w.serial}

    def symlink(self, src: Any, dst: Any, *a: Any, **k: Any) -> Any:
        def do() -> Any:
            r = _os.symlink(src, dst, *a, **k)
            if self._is_lock(dst):
                self._created()
            return r

        return self._w.st.call("symlink", do)

    def open(self, p: Any, flags: int, *a: Any, **k: Any) -> Any:
        def do() -> Any:
            existed = _os.path.lexists(p)
            r = _os.open(p, flags, *a, **k)
            if self._is_lock(p) and not existed:
                self._created()
            return r

        return self._w.st.call("open", do)

    def close(self, fd: int) -> Any:
        return self._w.st.call("close", lambda: _os.close(fd))

    def stat(self, p: Any, *a: Any, **k: Any) -> Any:
        w = self._w

        def do() -> Any:
            if not self._is_lock(p):
                return _os.stat(p, *a, **k)
            lst = _os.lstat(p)
            if _stat.S_ISLNK(lst.st_mode):
                r = _os.stat(p)  # follows the link (raises if the journal is missing)
                m = w.tgt
            else:
                r = lst
                m = w.cur["stamp"] if w.cur else -1
            me = w.st.me()
            w.last_stat[me] = w.cur["serial"] if w.cur else None
            if w.real_mtime:
                m = r.st_mtime
            if me not in w.seen or w.seen[me][0] != m:
                w.seen[me] = (m, w.now)
            return r if w.real_mtime else FakeStat(r, float(m))

        return w.st.call("stat", do)

    def lstat(self, p: Any, *a: Any, **k: Any) -> Any:
        """the link's / file's own mtime = the clock at the creation of the lock file (repo fb3aa05: the symlink lock)"""
        w = self._w

        def do() -> Any:
            if not self._is_lock(p):
                return _os.lstat(p, *a, **k)
            r = _os.lstat(p)
            m: Any = w.cur["stamp"] if w.cur else -1
            me = w.st.me()
            w.last_stat[me] = w.cur["serial"] if w.cur else None
            if w.real_mtime:
                m = r.st_mtime
            if me not in w.seen or w.seen[me][0] != m:
                w.seen[me] = (m, w.now)
            return r if w.real_mtime else FakeStat(r, float(m))

        return w.st.call("lstat", do)

    def rename(self, src: Any, dst: Any, *a: Any, **k: Any) -> Any:
        w = self._w

        def do() -> Any:
            me = w.st.me()
            own = me in w.releasing
            try:
                r = _os.rename(src, dst, *a, **k)
            finally:
                if own:
                    w.holders.discard(me)
            if self._is_lock(src):
                cur = w.cur
                w.cur = None
                owner = cur["owner"] if cur else -1
                w.tmps[_os.fspath(dst)] = (me, owner)
                if cur is not None and owner != me and owner not in w.crashed:
                    rec = {"by": me, "owner": owner, "age": w.now - cur["stamp"], "watched": w.now - w.seen[me][1] if me in w.seen else -1,
                           "changed_hands": w.last_stat.get(me) != cur["serial"], "after_crash": w.died_holding}
                    (w.foreign_release if own else w.takeovers).append(rec)
                return owner  # the observation: whose lock file went away
            return r

        return w.st.call("rename", do)

    def unlink(self, p: Any, *a: Any, **k: Any) -> Any:
        w = self._w

        def do() -> Any:
            r = _os.unlink(p, *a, **k)
            t = w.tmps.pop(_os.fspath(p), None)
            me = w.st.me()
            if t is not None and t[0] == me and me not in w.releasing and me in w.seen:
                # a completed takeover: from here on the taker has to watch an unchanged mtime for a whole grace period again
                w.seen[me] = (w.seen[me][0], w.now)
            if self._is_lock(p):
                w.cur = None
            return r

        return w.st.call("unlink", do)


def install(w: World) -> Any:
    import optuna.storages.journal._file as jf

    saved = (jf.os, jf.time)
    jf.os = OsProxy(w)
    jf.time = TimeProxy(w)

    def undo() -> None:
        jf.os, jf.time = saved

    return undo


def canon_obs(o: Any) -> dict[str, Any]:
    name, res, val = o
    d: dict[str, Any] = {"call": name, "res": res}
    if res == "ok" and name in ("monotonic", "rename"):
        d["val"] = int(val)
    if res == "ok" and name in ("stat", "lstat"):
        d["val"] = int(val.st_mtime) if isinstance(val, FakeStat) else None
    return d


PROFILES = ["handover", "crash", "crash", "stall", "nograce"]


def run_real(kind: str, grace: int | None, n: int, rounds: list[int], tmp: str, tag: str, rng: random.Random | None = None,
             profile: str = "handover", events: list[list[Any]] | None = None, max_events: int = 260, real_mtime: bool = False, chooser: Any = None) -> dict[str, Any]:
    """Run the real lock classes in lock-step; either replay `events` or draw them from `rng`."""
    import optuna.storages.journal._file as jf

    warnings.simplefilter("ignore")
    d = _os.path.join(tmp, "lk_%d_%s" % (_os.getpid(), tag))
    _os.makedirs(d, exist_ok=True)
    for fn in _os.listdir(d):
        _os.unlink(_os.path.join(d, fn))
    path = _os.path.join(d, "j.log")
    open(path, "ab").close()
    st = Stepper(n)
    w = World(st, path, n, real_mtime)
    cls = getattr(jf, "JournalFileSymlinkLock" if kind == "symlink" else "JournalFileOpenLock")
    locks = [cls(path, grace_period=grace) for _ in range(n)]
    errors: dict[int, str] = {}

    def touch() -> None:
        w.tgt = w.now

    def body(i: int) -> None:
        st.tl.i = i
        try:
            for _ in range(rounds[i]):
                w.seen.pop(i, None)
                ok = locks[i].acquire()
                if not ok:
                    errors[i] = "acquire returned %r" % (ok,)
                    return
                w.holders.add(i)
                st.call("touch", touch)
                w.releasing.add(i)
                try:
                    locks[i].release()
                except RuntimeError:
                    w.failed[i] += 1
                finally:
                    w.releasing.discard(i)
                    w.holders.discard(i)
        except Killed:
            pass
        except BaseException as e:  # noqa: BLE001
            errors[i] = "%s: %s" % (type(e).__name__, str(e)[:160])
        finally:
            with st.cv:
                st.done[i] = True
                st.pending[i] = None
                st.cv.notify_all()

    undo = install(w)
    threads = [threading.Thread(target=body, args=(i,), daemon=True) for i in range(n)]
    out_events: list[list[Any]] = []
    steps: list[dict[str, Any]] = []
    infra = None
    try:
        for i, t in enumerate(threads):
            t.start()
            if not st.wait_parked(i):
                raise core.InfraError("worker %d did not reach its first call" % i)
        cur_w: int | None = None
        crashes_left = {"handover": 0, "crash": rng.choice([1, 1, 2]) if rng else 0, "stall": rng.choice([0, 1]) if rng else 0,
                        "nograce": rng.choice([0, 1]) if rng else 0}.get(profile, 0)
        p_tick = {"handover": 0.04, "crash": 0.12, "stall": 0.10, "nograce": 0.03}.get(profile, 0.05)
        script = list(events) if events is not None else None
        while True:
            live = [i for i in range(n) if not st.done[i] and i not in w.crashed]
            if chooser is not None:
                ev = chooser({"pending": list(st.pending), "done": list(st.done), "holders": set(w.holders), "crashed": set(w.crashed), "now": w.now,
                              "last": [steps[k] for k in range(len(steps) - 1, -1, -1) if out_events[k][0] == "s"][:1], "events": out_events, "steps": steps})
                if ev is None or len(out_events) >= max_events:
                    break
            elif script is not None:
                if not script:
                    break
                ev = script.pop(0)
            else:
                assert rng is not None
                if not live or len(out_events) >= max_events:
                    break
                x = rng.random()
                if x < p_tick:
                    ev = ["t"]
                elif crashes_left and x < p_tick + 0.03:
                    cands = [i for i in live if i in w.holders or (w.cur and w.cur["owner"] == i)] or live
                    ev = ["c", rng.choice(cands if rng.random() < 0.7 else live)]
                    crashes_left -= 1
                else:
                    if cur_w in live and rng.random() < 0.6:
                        ev = ["s", cur_w]
                    else:
                        ev = ["s", rng.choice(live)]
                    cur_w = ev[1]
            burst = 1
            if ev[0] == "t" and script is None and chooser is None and rng is not None and rng.random() < 0.35:
                burst = (grace or 1) + 1
            for _ in range(burst):
                out_events.append(ev)
                if ev[0] == "t":
                    w.now += 1
                    if real_mtime:
                        _time.sleep(0.02)  # a tick is real time here: lock files created in different ticks get different kernel timestamps
                    obs = {"call": "tick", "res": ""}
                elif ev[0] == "c":
                    i = ev[1]
                    if i in w.crashed or st.done[i]:
                        obs = {"call": "noop", "res": ""}
                    else:
                        if i in w.holders or (w.cur is not None and w.cur["owner"] == i):
                            w.died_holding = True
                        w.crashed.add(i)
                        w.holders.discard(i)
                        obs = {"call": "crash", "res": ""}
                else:
                    i = ev[1]
                    if i in w.crashed or st.done[i]:
                        obs = {"call": "noop", "res": ""}
                    else:
                        obs = canon_obs(st.advance(i))
                obs.update(lock=w.lock_state(), tmps=w.tmp_state(), holders=sorted(h for h in w.holders if h not in w.crashed), now=w.now, tgt=w.tgt)
                steps.append(obs)
    except core.InfraError as e:
        infra = str(e)
    finally:
        st.finish()
        for t in threads:
            t.join(2.0)
        undo()
    res: dict[str, Any] = {"kind": kind, "grace": grace, "n": n, "rounds": rounds, "events": out_events, "steps": steps, "failed": list(w.failed),
                           "takeovers": w.takeovers, "foreign_release": w.foreign_release, "errors": errors, "profile": profile,
                           "done": [bool(x) for x in st.done], "crashed": sorted(w.crashed)}
    if infra:
        res["infra"] = infra
    return res


def excusable(kind: str, grace: int | None, t: dict[str, Any]) -> str | None:
    """Why a takeover that removed a live creator's lock file is within what the grace-period design (and the
    recorded finding F13) allows; None = it is not."""
    if grace is None or t["watched"] <= grace:
        # the taker has not watched one unchanged mtime for longer than the grace period since it began to wait /
        # since its last completed takeover (repo d602c3c: the timer restarts there)
        return None
    if t["changed_hands"]:
        return "F13" if t["after_crash"] else "stalled-waiter"
    # both classes watch the lock file's own stamp (repo fb3aa05): a lock file that is still the one the taker looked at
    # may only be broken when it is older than the grace period (a holder that keeps the lock that long loses it by design;
    # lock files with equal stamps have equal ages, so timestamp granularity cannot excuse anything else)
    return "slow-holder" if t["age"] > grace else None


def oracle(real: dict[str, Any]) -> dict[str, Any] | None:
    """Model-independent verdict on one real run."""
    kind, grace = real["kind"], real["grace"]
    for t in real["takeovers"]:
        if excusable(kind, grace, t) is None:
            return {"kind": "premature-takeover", "why": "worker %d broke the lock file of live worker %d (age %d, the one it had just looked at) after watching an unchanged mtime for %d (grace %s)" % (t["by"], t["owner"], t["age"], t["watched"], grace)}
    if real["takeovers"]:
        return None  # the hypothesis of mutual exclusion does not hold for this schedule
    for k, s in enumerate(real["steps"]):
        if len(s["holders"]) > 1:
            return {"kind": "two-holders", "why": "live workers %s are inside the critical section after event %d although no lock file of a live worker was ever taken over" % (s["holders"], k)}
    if real["foreign_release"]:
        f = real["foreign_release"][0]
        return {"kind": "released-foreign-lock", "why": "release() of worker %d removed the lock file created by live worker %d" % (f["by"], f["owner"])}
    if any(real["failed"]):
        return {"kind": "release-raised", "why": "release() raised RuntimeError %s although no lock file was ever taken over" % real["failed"]}
    if real["errors"]:
        return {"kind": "lock-raises", "why": "; ".join("worker %d: %s" % kv for kv in sorted(real["errors"].items()))}
    return None


FIELDS = ("call", "res", "val", "lock", "tmps", "holders", "now")


def first_diff(real: dict[str, Any], model: dict[str, Any]) -> dict[str, Any] | None:
    ms = model.get("steps")
    if ms is None or len(ms) != len(real["steps"]):
        return {"why": "model returned %s steps for %d events" % (None if ms is None else len(ms), len(real["steps"])), "model": {k: v for k, v in model.items() if k != "steps"}}
    for k, (r, m) in enumerate(zip(real["steps"], ms)):
        for f in FIELDS:
            rv, mv = r.get(f), m.get(f)
            if f == "tmps" and mv is not None:
                mv = sorted(mv)
            if rv != mv:
                return {"event": k, "of": len(ms), "ev": real["events"][k], "field": f, "impl": {x: r.get(x) for x in FIELDS}, "model": {x: m.get(x) for x in FIELDS},
                        "before": [[real["events"][j], real["steps"][j].get("call"), real["steps"][j].get("res")] for j in range(max(0, k - 6), k)]}
    if model.get("failed") != real["failed"]:
        return {"why": "RuntimeErrors of release(): impl %s, model %s" % (real["failed"], model.get("failed"))}
    return None


def _req(real: dict[str, Any]) -> dict[str, Any]:
    return {"kind": real["kind"], "grace": real["grace"], "n": real["n"], "events": real["events"]}


def _case_worker(args: tuple[list[tuple[int, str, Any, int, list[int], str]], str]) -> list[dict[str, Any]]:
    cases, tmp = args
    out = []
    for seed, kind, grace, n, rounds, profile in cases:
        try:
            real = run_real(kind, grace, n, rounds, tmp, "r%d" % seed, rng=random.Random(seed), profile=profile)
        except Exception as e:  # noqa: BLE001
            import traceback
            real = {"infra": "%s %s" % (e, traceback.format_exc()[-400:]), "kind": kind, "grace": grace, "n": n, "events": [], "steps": []}
        real["seed"] = seed
        out.append(real)
    return out


def gen_cases(seed0: int, count: int) -> list[tuple[int, str, Any, int, list[int], str]]:
    cases = []
    for i in range(count):
        seed = seed0 * 1000003 + 524287 + i
        r = random.Random(seed)
        kind = ["symlink", "open"][i % 2]
        profile = r.choice(PROFILES)
        grace = None if profile == "nograce" else r.choice([1, 2, 2, 3])
        n = r.choice([2, 3, 3])
        rounds = [r.choice([1, 2, 3]) for _ in range(n)]
        cases.append((seed, kind, grace, n, rounds, profile))
    return cases


def compare_batch(chk: core.Check, reals: list[dict[str, Any]], label: str) -> None:
    reals = [r for r in reals if "infra" not in r or r.get("steps")]
    models = core.driver_batch("filelock", [_req(r) for r in reals]) if reals else []
    for real, model in zip(reals, models):
        if real.get("infra"):
            chk.count("lock:infra")
            chk.extra.setdefault("lock_infra_notes", []).append(str(real["infra"])[:200])
            continue
        contended = any(s["res"] == "EEXIST" for s in real["steps"])
        chk.case({"part": "lock", "class": real["kind"], "grace": real["grace"], "workers": real["n"], "rounds": real.get("rounds"), "profile": real.get("profile"),
                  "n_events": len(real["events"]), "sha": hashlib.sha1(core.canon(real["events"]).encode()).hexdigest()}, nontrivial=contended)
        chk.count("lock%s:%s" % (label, real["kind"]))
        chk.traces_validated += 1
        for s in real["steps"]:
            if s["call"] not in ("tick", "noop", "crash"):
                chk.count("lockcall:%s:%s" % (s["call"], s["res"]))
        diff = first_diff(real, model)
        verdict = oracle(real)
        for t in real["takeovers"]:
            chk.count("lock:live-takeover:%s" % (excusable(real["kind"], real["grace"], t) or "PREMATURE"))
        if model.get("safe") is True:
            chk.count("lock:schedule-satisfies-safeSched")
        elif model.get("safe") is False:
            chk.count("lock:schedule-violates-safeSched")
        if model.get("punctual") is True:
            chk.count("lock:schedule-punctual(%s)" % real["kind"])
            if real["takeovers"]:
                # theorem punctual_schedule_safe: impossible in the model; the step-by-step comparison above would already differ
                chk.broke("correspondence", {"lock-model": "punctual schedule, yet the real run took over a live creator's lock", "case": {"events": real["events"], "grace": real["grace"], "n": real["n"]}})
        if any(len(s["holders"]) > 1 for s in real["steps"]):
            chk.count("lock:two-live-holders-seen(with live takeover before)" if real["takeovers"] else "lock:two-live-holders-seen")
        witness = {"part": "lock", "lock": real["kind"], "grace": real["grace"], "n": real["n"], "rounds": real.get("rounds"), "events": real["events"], "seed": real.get("seed")}
        if verdict is not None:
            chk.violation({"part": "lock", "lock": real["kind"], "kind": verdict["kind"]}, witness, "%s lock: %s" % (real["kind"], verdict["why"]))
        elif real["takeovers"] and any(len(s["holders"]) > 1 for s in real["steps"]):
            # "at most one worker holds the file lock" is false on this run.  The takeover that made it so is within what
            # the staleness rule allows (watched an unchanged mtime for longer than the grace period): these are the recorded
            # findings (known_findings.json matches on `class`); a holder that simply keeps the lock longer than the grace
            # period loses it by design (documented meaning of grace_period) and is not reported.
            classes = [excusable(real["kind"], real["grace"], t) for t in real["takeovers"]]
            cls = next((c for c in ("F13", "stalled-waiter") if c in classes), None)
            if cls is not None:
                k = next(k for k, s in enumerate(real["steps"]) if len(s["holders"]) > 1)
                chk.violation({"part": "lock", "lock": real["kind"], "kind": "two-holders-after-takeover", "class": cls}, witness,
                              "%s lock: live workers %s are inside the critical section after event %d; a waiter took over the lock file of a live creator (%s)" % (
                                  real["kind"], real["steps"][k]["holders"], k, cls))
        ndiff = sum(1 for b in chk.broken if "lock-model" in str(b.get("detail"))[:40])
        if diff is not None:
            chk.count("lock:model-and-code-differ")
            if ndiff < 2:  # the oracle above still judges every later run; only the first differences are written out
                chk.broke("correspondence", {"lock-model": "the real %s lock class and Model/FileLock.lean differ" % real["kind"], "first_difference": diff,
                                             "case": {k: witness[k] for k in ("lock", "grace", "n", "rounds", "seed")}, "events": real["events"][: (diff.get("event", 0) + 1)]})
            continue
        # the model's hypothesis and the real run must tell the same story
        if (model.get("safe") is True) != (not real["takeovers"]) and ndiff < 2:
            chk.broke("correspondence", {"lock-model": "safeSched=%s but the real run saw %d takeover(s) of a live creator's lock" % (model.get("safe"), len(real["takeovers"])), "case": witness})


def scenarios(chk: core.Check) -> None:
    """Replay the named schedules of the Lean theorems on the real code."""
    sc = core.driver_batch("filelock", [{"cmd": "scenarios"}])[0]
    reals = []
    for name in sorted(sc):
        s = sc[name]
        real = run_real(s["kind"], s["grace"], s["n"], [2] * s["n"], chk.tmp, "sc_" + name, events=s["events"])
        real["profile"] = "scenario:" + name
        reals.append(real)
        final = real["steps"][-1]["holders"] if real["steps"] else None
        chk.extra.setdefault("lock_scenarios_on_real_code", {})[name] = {
            "class": s["kind"], "grace": s["grace"], "events": len(s["events"]), "model_final_live_holders": s["holders"], "impl_final_live_holders": final,
            "safeSched": s["safe"], "impl_takeovers_of_live_lock": [excusable(s["kind"], s["grace"], t) or "PREMATURE" for t in real["takeovers"]]}
        if final != s["holders"]:
            chk.broke("correspondence", {"lock-scenario": name, "why": "the Lean theorem about this schedule says live holders %s at the end, the real code has %s" % (s["holders"], final)})
        # once more with the file system's own mtimes (os.stat passed through: a symlink is followed by the kernel, not by the proxy)
        raw = run_real(s["kind"], s["grace"], s["n"], [2] * s["n"], chk.tmp, "scraw_" + name, events=s["events"], real_mtime=True)
        rfinal = raw["steps"][-1]["holders"] if raw["steps"] else None
        chk.extra["lock_scenarios_on_real_code"][name]["impl_final_live_holders_with_real_mtimes"] = rfinal
        chk.count("lock-scenario-real-mtime:%s" % s["kind"])
        if rfinal != s["holders"] or [(x["call"], x["res"]) for x in raw["steps"]] != [(x["call"], x["res"]) for x in real["steps"]]:
            chk.broke("correspondence", {"lock-scenario": name, "why": "with the file system's own mtimes the real code ends with live holders %s (calls %s the virtual-mtime run); the Lean theorem says %s" % (
                rfinal, "equal to" if [(x["call"], x["res"]) for x in raw["steps"]] == [(x["call"], x["res"]) for x in real["steps"]] else "differ from", s["holders"])})
    compare_batch(chk, reals, "-scenario")


class Directed:
    """A schedule given by what the real code is doing (robust against added / removed calls), not by step counts."""

    def __init__(self, prog: list[tuple[Any, ...]]) -> None:
        self.prog = list(prog)
        self.left: int | None = None

    def __call__(self, v: dict[str, Any]) -> Any:
        while self.prog:
            d = self.prog[0]
            kind, wk = d[0], d[1]
            gone = kind != "ticks" and kind != "crash" and (v["done"][wk] or wk in v["crashed"])
            if kind == "crash":
                self.prog.pop(0)
                return ["c", wk]
            if kind == "ticks":
                if self.left is None:
                    self.left = wk
                if self.left > 0:
                    self.left -= 1
                    return ["t"]
                self.left = None
                self.prog.pop(0)
                continue
            if gone:
                self.prog.pop(0)
                continue
            if kind == "until_holder" and wk in v["holders"]:
                self.prog.pop(0)
                continue
            if kind == "until_pending" and v["pending"][wk] == d[2] and (len(d) < 4 or any(
                    e == ["s", wk] and st["call"] == d[3] and st["res"] == "ok" for e, st in zip(v["events"], v["steps"]))):
                # ... (optionally: after this worker has completed a call named d[3])
                self.prog.pop(0)
                continue
            if kind == "steps_or_holder":
                if self.left is None:
                    self.left = d[2]
                if self.left <= 0 or wk in v["holders"]:
                    self.left = None
                    self.prog.pop(0)
                    continue
                self.left -= 1
            return ["s", wk]
        return None


def directed(chk: core.Check) -> None:
    """Property-directed schedules judged by the oracle (and compared with the model like every other run):
    the situation repaired by repo d602c3c — a waiter completes a takeover, somebody else wins the re-created lock file,
    the taker polls again before a further grace period has passed.  It must not break that live lock."""
    reals = []
    for kind in ("symlink", "open"):
        for g in (1, 2):
            prog = [("until_holder", 0), ("crash", 0), ("until_pending", 1, "sleep"), ("ticks", g + 1),
                    ("until_pending", 1, "sleep", "unlink"), ("until_holder", 2), ("ticks", g), ("steps_or_holder", 1, 14)]
            real = run_real(kind, g, 3, [2, 2, 2], chk.tmp, "dir_%s_%d" % (kind, g), chooser=Directed(prog), max_events=200)
            real["profile"] = "directed:retake-after-takeover"
            reals.append(real)
            # the situation repaired by repo fb3aa05: the lock changes hands between two polls of a waiter while the journal is
            # not modified; the waiter must notice (new lock stamp) and not break the young lock of the new live holder
            prog = [("until_holder", 0), ("until_pending", 0, "rename"), ("until_pending", 1, "sleep"), ("ticks", 1),
                    ("until_pending", 0, "monotonic", "unlink"), ("until_holder", 2), ("ticks", g), ("steps_or_holder", 1, 14)]
            real = run_real(kind, g, 3, [2, 2, 2], chk.tmp, "dirh_%s_%d" % (kind, g), chooser=Directed(prog), max_events=200)
            real["profile"] = "directed:handover-between-polls"
            reals.append(real)
    compare_batch(chk, reals, "-directed")


def correspond(chk: core.Check, tier: str) -> None:
    import multiprocessing as mp

    t0 = _time.time()
    chk.rule = (chk.rule + " || " if chk.rule else "") + RULE_LOCK
    try:
        scenarios(chk)
        directed(chk)
        n = 400 if tier == "quick" else 12000
        cases = gen_cases(chk.seed, n)
        jobs = [(cases[j::8], chk.tmp) for j in range(8)]
        with mp.get_context("spawn").Pool(8) as pool:
            results = pool.map(_case_worker, jobs)
        for res in results:
            compare_batch(chk, res, "")
    except core.DriverBroken as e:
        chk.broke("correspondence", {"driver": str(e)[:600]})
    chk.extra["lock_tie_wall_s"] = round(_time.time() - t0, 2)
    chk.assumptions += [
        "lock tie: rename / symlink / open(O_CREAT|O_EXCL) are atomic and uuid4 names do not collide (kernel / library semantics, trusted)",
        "lock tie: mtimes are readings of the virtual clock (os.stat of a regular lock file / os.lstat of the lock path: clock at its creation; os.stat of a symlink would give the journal's: kept only to judge a regression); "
        "asynchronous exceptions inside acquire() are not explored",
        "mutual exclusion is claimed under safeSched (no takeover removes the lock file of a live creator); schedules violating it (F13 = overlapping takeovers after a holder's death, "
        "stalled waiter, a holder slower than the grace period) are replayed and must agree with the model; two holders after F13 / stalled waiter are raised as the recorded findings",
    ]


def replay_case(chk: core.Check, w: dict[str, Any]) -> int:
    core.ensure_driver()
    real = run_real(w["lock"], w["grace"], w["n"], w.get("rounds") or [2] * w["n"], chk.tmp, "replay", events=w["events"])
    model = core.driver_batch("filelock", [_req(real)])[0]
    verdict = oracle(real)
    diff = first_diff(real, model)
    if verdict:
        print("REPRODUCED: %s" % verdict["why"])
        return 1
    if diff:
        print("REPRODUCED (model and code differ): %s" % core.canon(diff)[:600])
        return 1
    print("not reproduced")
    return 0
